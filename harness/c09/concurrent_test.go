package c09

import (
	"context"
	"fmt"
	"runtime"
	"sync"
	"testing"
	"time"

	"go.opentelemetry.io/otel/sdk/resource"
	sdktrace "go.opentelemetry.io/otel/sdk/trace"
	"go.opentelemetry.io/otel/trace"
	"go.opentelemetry.io/otel/verif/internal/vk"
	"pgregory.net/rapid"
)

// COp is one operation of one goroutine.
type COp struct {
	Op    string `json:"op"` // root | child | shared | newroot | end
	K     int    `json:"k"`  // child/newroot/end: index among the goroutine's own spans (modulo)
	Yield bool   `json:"yield,omitempty"`
}

// ConcCase is the program of the concurrent check: the goroutines' op
// sequences are the case, the schedule is not.
type ConcCase struct {
	Sampler string  `json:"sampler"` // always | default | never | ratio | parent_ratio
	G       [][]COp `json:"g"`
	// Proc: "" / "simple" = SimpleSpanProcessor; "batch" = BatchSpanProcessor
	// whose schedule (BatchTimeout 1 ms) and full batches (MaxExportBatchSize
	// BatchSize) hand spans over WHILE the goroutines end more of them;
	// "batch_blocking" = the same WithBlocking() and a queue of QueueSize. The
	// non-blocking queue keeps its default size (2048), which the at most 241
	// spans of a program cannot fill. The export clause is judged after
	// Shutdown.
	Proc      string `json:"proc,omitempty"`
	BatchSize int    `json:"batch_size,omitempty"`
	QueueSize int    `json:"queue_size,omitempty"`
}

const concGoroutines = 8
const concRounds = 2

func genConc(t *rapid.T) ConcCase {
	c := ConcCase{Sampler: rapid.SampledFrom([]string{"always", "always", "default", "default", "never", "ratio", "parent_ratio"}).Draw(t, "sampler")}
	c.Proc = rapid.SampledFrom([]string{"simple", "simple", "batch", "batch_blocking"}).Draw(t, "proc")
	if c.Proc != "simple" {
		c.BatchSize = rapid.SampledFrom([]int{1, 2, 3, 7, 16, 512}).Draw(t, "batch_size")
	}
	if c.Proc == "batch_blocking" {
		c.QueueSize = rapid.SampledFrom([]int{0, 1, 2, 8, 2048}).Draw(t, "queue_size")
	}
	for g := 0; g < concGoroutines; g++ {
		n := rapid.IntRange(4, 30).Draw(t, "nops")
		ops := make([]COp, n)
		started := 0
		for i := range ops {
			kinds := []string{"root", "root", "root", "shared", "shared"}
			if started > 0 {
				kinds = append(kinds, "child", "child", "child", "newroot", "end", "end")
			}
			op := COp{Op: rapid.SampledFrom(kinds).Draw(t, "op"), Yield: rapid.IntRange(0, 3).Draw(t, "yield") == 0}
			if op.Op == "end" || op.Op == "child" || op.Op == "newroot" {
				op.K = rapid.IntRange(0, started-1).Draw(t, "k")
			}
			if op.Op != "end" {
				started++
			}
			ops[i] = op
		}
		c.G = append(c.G, ops)
	}
	return c
}

type cspan struct {
	span    trace.Span
	ctx     context.Context
	sc      trace.SpanContext
	parent  trace.TraceID // zero for roots
	root    bool
	ended   bool
	g, step int
}

func runConcOnce(c ConcCase, bad func(kind, format string, a ...any), info *vk.Info) {
	exp := &memExporter{}
	opts := []sdktrace.TracerProviderOption{sdktrace.WithResource(resource.Empty())}
	switch c.Proc {
	case "batch", "batch_blocking":
		bo := []sdktrace.BatchSpanProcessorOption{sdktrace.WithBatchTimeout(time.Millisecond)}
		if c.BatchSize > 0 {
			bo = append(bo, sdktrace.WithMaxExportBatchSize(c.BatchSize))
		}
		if c.Proc == "batch_blocking" {
			bo = append(bo, sdktrace.WithBlocking())
			if c.QueueSize >= 0 {
				bo = append(bo, sdktrace.WithMaxQueueSize(c.QueueSize))
			}
		}
		opts = append(opts, sdktrace.WithSpanProcessor(sdktrace.NewBatchSpanProcessor(exp, bo...)))
	default:
		opts = append(opts, sdktrace.WithSpanProcessor(sdktrace.NewSimpleSpanProcessor(exp)))
	}
	switch c.Sampler {
	case "always":
		opts = append(opts, sdktrace.WithSampler(sdktrace.AlwaysSample()))
	case "never":
		opts = append(opts, sdktrace.WithSampler(sdktrace.NeverSample()))
	case "ratio":
		opts = append(opts, sdktrace.WithSampler(sdktrace.TraceIDRatioBased(0.5)))
	case "parent_ratio":
		opts = append(opts, sdktrace.WithSampler(sdktrace.ParentBased(sdktrace.TraceIDRatioBased(0.5))))
	}
	tp := sdktrace.NewTracerProvider(opts...) // default (random) ID generator
	shut := false
	defer func() {
		if !shut {
			_ = tp.Shutdown(context.Background())
		}
	}()

	sharedCtx, sharedSpan := tp.Tracer("c09").Start(context.Background(), "shared")
	shared := &cspan{span: sharedSpan, ctx: sharedCtx, sc: sharedSpan.SpanContext(), root: true, g: -1}

	per := make([][]*cspan, len(c.G))
	gate := make(chan struct{})
	var wg sync.WaitGroup
	for g := range c.G {
		wg.Add(1)
		go func(g int) {
			defer wg.Done()
			<-gate
			tracer := tp.Tracer("c09")
			var own []*cspan
			for i, op := range c.G[g] {
				if op.Yield {
					runtime.Gosched()
				}
				pick := func() *cspan {
					if len(own) == 0 {
						return nil
					}
					return own[((op.K%len(own))+len(own))%len(own)]
				}
				switch op.Op {
				case "end":
					if s := pick(); s != nil && !s.ended {
						s.span.End()
						s.ended = true
					}
				case "root":
					ctx, sp := tracer.Start(context.Background(), "root")
					own = append(own, &cspan{span: sp, ctx: ctx, sc: sp.SpanContext(), root: true, g: g, step: i})
				case "shared":
					ctx, sp := tracer.Start(shared.ctx, "shared-child")
					own = append(own, &cspan{span: sp, ctx: ctx, sc: sp.SpanContext(), parent: shared.sc.TraceID(), g: g, step: i})
				case "child", "newroot":
					p := pick()
					if p == nil {
						continue
					}
					if op.Op == "newroot" {
						ctx, sp := tracer.Start(p.ctx, "newroot", trace.WithNewRoot())
						own = append(own, &cspan{span: sp, ctx: ctx, sc: sp.SpanContext(), root: true, g: g, step: i})
					} else {
						ctx, sp := tracer.Start(p.ctx, "child")
						own = append(own, &cspan{span: sp, ctx: ctx, sc: sp.SpanContext(), parent: p.sc.TraceID(), g: g, step: i})
					}
				}
			}
			per[g] = own
		}(g)
	}
	close(gate)
	wg.Wait()
	sharedSpan.End()
	shared.ended = true

	all := []*cspan{shared}
	for _, own := range per {
		all = append(all, own...)
	}
	sids := map[trace.SpanID]*cspan{}
	rootTIDs := map[trace.TraceID]*cspan{}
	traceSampled := map[trace.TraceID]bool{}
	for _, s := range all {
		where := fmt.Sprintf("goroutine %d op %d", s.g, s.step)
		if !s.sc.SpanID().IsValid() {
			bad("invalid_span_id", "%s: zero span ID", where)
		} else if o, dup := sids[s.sc.SpanID()]; dup {
			bad("duplicate_span_id", "%s: span ID %s also handed out at goroutine %d op %d", where, s.sc.SpanID(), o.g, o.step)
		}
		sids[s.sc.SpanID()] = s
		if s.root {
			if !s.sc.TraceID().IsValid() {
				bad("root_traceid_not_fresh", "%s: root with the zero trace ID", where)
			} else if o, dup := rootTIDs[s.sc.TraceID()]; dup {
				bad("root_traceid_not_fresh", "%s: root trace ID %s also given to the root at goroutine %d op %d", where, s.sc.TraceID(), o.g, o.step)
			}
			rootTIDs[s.sc.TraceID()] = s
		} else if s.sc.TraceID() != s.parent {
			bad("child_traceid_mismatch", "%s: child has trace ID %s, parent %s", where, s.sc.TraceID(), s.parent)
		}
		sampled := s.sc.IsSampled()
		switch c.Sampler {
		case "always", "default":
			if !sampled {
				bad("sampled_flag_mismatch", "%s: sampler %s, span not sampled", where, c.Sampler)
			}
		case "never":
			if sampled {
				bad("sampled_flag_mismatch", "%s: sampler never, span sampled", where)
			}
		default:
			// ratio on every span / root decides and children follow: one
			// decision per trace either way
			if prev, ok := traceSampled[s.sc.TraceID()]; ok && prev != sampled {
				bad("ratio_inconsistent_within_trace", "%s: trace %s has sampled and unsampled spans under sampler %s", where, s.sc.TraceID(), c.Sampler)
			}
			traceSampled[s.sc.TraceID()] = sampled
		}
		if !s.ended && s.span.IsRecording() != sampled {
			bad("recording_mismatch", "%s: span not ended, sampled %v, IsRecording %v", where, sampled, s.span.IsRecording())
		}
	}
	if c.Proc == "batch" || c.Proc == "batch_blocking" {
		// Shutdown drains the batch processor: afterwards every span it was
		// given has been handed over
		_ = tp.Shutdown(context.Background())
		shut = true
	}
	counts := map[trace.SpanID]int{}
	exp.mu.Lock()
	for _, ro := range exp.spans {
		counts[ro.SpanContext().SpanID()]++
	}
	exp.mu.Unlock()
	for _, s := range all {
		want := 0
		if s.sc.IsSampled() && s.ended {
			want = 1
		}
		if counts[s.sc.SpanID()] != want {
			bad("export_count", "goroutine %d op %d: span %s (sampled %v, ended %v) exported %d times", s.g, s.step, s.sc.SpanID(), s.sc.IsSampled(), s.ended, counts[s.sc.SpanID()])
		}
	}
	info.ClassIf(len(all) >= 100, "spans>=100")
}

func runConc(c ConcCase) ([]vk.Violation, vk.Info) {
	var vs []vk.Violation
	var info vk.Info
	seen := map[string]int{}
	bad := func(kind, format string, a ...any) {
		if seen[kind] < 2 {
			vs = append(vs, vk.V(kind, format, a...))
		}
		seen[kind]++
	}
	for i := 0; i < concRounds; i++ {
		runConcOnce(c, bad, &info)
	}
	roots, starts := 0, 0
	for _, g := range c.G {
		for _, op := range g {
			if op.Op != "end" {
				starts++
			}
			if op.Op == "root" || op.Op == "newroot" {
				roots++
			}
		}
	}
	info.NonTrivial = len(c.G) >= 2 && roots >= 2 && starts > roots
	info.Class("sampler:" + c.Sampler)
	if c.Proc != "" {
		info.Class("processor:" + c.Proc)
	}
	return vs, info
}

func TestConcurrent(t *testing.T) {
	vk.Run(t, vk.Spec[ConcCase]{
		Property: "C09", Check: "concurrent",
		Rule: "8 goroutines released by one gate, each running 4..30 generated ops {start root, start child of an own span, start child of a span shared by all, start WithNewRoot under an own span, end an own span, optional yields} on one provider with a SimpleSpanProcessor (50%) or a BatchSpanProcessor (BatchTimeout 1 ms, MaxExportBatchSize in {1,2,3,7,16,512}, optionally WithBlocking and MaxQueueSize in {0,1,2,8,2048}; shut down before the exporter is read), the default ID generator and sampler in {always, never, none configured, ratio 0.5, ParentBased(ratio 0.5)}; executed twice per case, judged by a schedule-independent oracle, built with -race; " +
			"non-trivial = at least two roots and at least one child are started; distinct = distinct case encodings",
		Quick: 500, Thorough: 25000,
		Gen: genConc, Run: runConc,
		Repeat: 50,
	})
}
