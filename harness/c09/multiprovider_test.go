package c09

import (
	"context"
	"testing"

	sdktrace "go.opentelemetry.io/otel/sdk/trace"
	"go.opentelemetry.io/otel/trace"
	"go.opentelemetry.io/otel/verif/internal/vk"
	"pgregory.net/rapid"
)

// MPCase: several TracerProviders in one process, all with the DEFAULT ID
// generator; the statement's "unique within the process" quantifies over the
// process, not over one provider.
type MPCase struct {
	Providers int   `json:"providers"` // 2..4
	Roots     []int `json:"roots"`     // per provider: number of root spans
	Children  []int `json:"children"`  // per provider: children started under its first root
}

func genMP(t *rapid.T) MPCase {
	c := MPCase{Providers: rapid.IntRange(2, 4).Draw(t, "providers")}
	for i := 0; i < c.Providers; i++ {
		c.Roots = append(c.Roots, rapid.IntRange(1, 6).Draw(t, "roots"))
		c.Children = append(c.Children, rapid.IntRange(0, 6).Draw(t, "children"))
	}
	return c
}

func runMP(c MPCase) ([]vk.Violation, vk.Info) {
	var vs []vk.Violation
	var info vk.Info
	seenSpan := map[trace.SpanID]int{}
	seenTrace := map[trace.TraceID]int{}
	for p := 0; p < c.Providers; p++ {
		tp := sdktrace.NewTracerProvider(sdktrace.WithSampler(sdktrace.AlwaysSample()))
		tr := tp.Tracer("c09.mp")
		var firstCtx context.Context
		for r := 0; r < c.Roots[p]; r++ {
			ctx, sp := tr.Start(context.Background(), "root")
			sc := sp.SpanContext()
			if !sc.IsValid() {
				vs = append(vs, vk.V("invalid_span_context", "provider %d root %d: invalid span context %v", p, r, sc))
			}
			if q, dup := seenSpan[sc.SpanID()]; dup {
				vs = append(vs, vk.V("duplicate_span_id_across_providers", "provider %d root %d got span ID %s which provider %d already handed out in this process", p, r, sc.SpanID(), q))
			}
			if q, dup := seenTrace[sc.TraceID()]; dup {
				vs = append(vs, vk.V("root_trace_id_not_fresh", "provider %d root %d got trace ID %s which provider %d already used for another root", p, r, sc.TraceID(), q))
			}
			seenSpan[sc.SpanID()], seenTrace[sc.TraceID()] = p, p
			if r == 0 {
				firstCtx = ctx
			}
			sp.End()
		}
		for k := 0; k < c.Children[p]; k++ {
			_, sp := tr.Start(firstCtx, "child")
			sc := sp.SpanContext()
			if q, dup := seenSpan[sc.SpanID()]; dup {
				vs = append(vs, vk.V("duplicate_span_id_across_providers", "provider %d child %d got span ID %s which provider %d already handed out in this process", p, k, sc.SpanID(), q))
			}
			seenSpan[sc.SpanID()] = p
			sp.End()
		}
		_ = tp.Shutdown(context.Background())
	}
	info.NonTrivial = true
	info.ClassIf(c.Providers >= 3, "three_or_more_providers")
	return vs, info
}

func TestMultiProviderIDs(t *testing.T) {
	vk.Run(t, vk.Spec[MPCase]{
		Property: "C09", Check: "multi_provider_ids",
		Rule: "2..4 TracerProviders created one after another in one process, each with the default ID generator, each starting 1..6 roots and 0..6 children: every span ID and every root trace ID is distinct across ALL providers; every case is non-trivial; distinct = distinct parameter tuples",
		Quick: 150, Thorough: 3000,
		Gen: genMP, Run: runMP,
	})
}
