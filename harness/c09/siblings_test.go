package c09

import (
	"context"
	"fmt"
	"runtime"
	"strings"
	"sync"
	"testing"
	"time"

	sdktrace "go.opentelemetry.io/otel/sdk/trace"
	"go.opentelemetry.io/otel/trace"
	"go.opentelemetry.io/otel/verif/internal/vk"
	"pgregory.net/rapid"
)

// =====================================================================
// Sub-check tracestate_siblings: "the parent's tracestate is kept unless the
// sampler supplies another", judged PER SPAN over several spans that share a
// parent (or each other) while a sampler derives other tracestates from the
// parent's for SOME of them, with tracestates of every legal size 0..32.

// SibOp is one span of the case.
type SibOp struct {
	Under    int    `json:"under"`    // -1: the case's parent; k: the k-th earlier span of the case
	Op       string `json:"op"`       // keep | insert_new | update | delete | replace | clear
	K        int    `json:"k"`        // update/delete: member index (modulo); insert_new/replace: key number
	V        string `json:"v"`        // value for insert_new / update / replace
	Decision int    `json:"decision"` // 0 Drop, 1 RecordOnly, 2 RecordAndSample
}

type SibCase struct {
	Members []TSMember `json:"members"` // the parent's tracestate, 0..32 members
	Built   string     `json:"built"`   // parse | insert : how the parent's TraceState value was made
	Parent  string     `json:"parent"`  // remote | local | sdk_span
	Flags   uint8      `json:"flags"`
	Sibs    []SibOp    `json:"sibs"`
}

func sibKey(i int) string {
	switch i % 4 {
	case 1:
		return fmt.Sprintf("k%d@v%d", i, i%7)
	case 2:
		return fmt.Sprintf("m_%d-x", i)
	}
	return fmt.Sprintf("k%d", i)
}

func genSib(t *rapid.T) SibCase {
	n := rapid.SampledFrom([]int{0, 1, 2, 3, 8, 16, 30, 31, 31, 32, 32, 32, -1}).Draw(t, "n")
	if n < 0 {
		n = rapid.IntRange(0, 32).Draw(t, "n_any")
	}
	c := SibCase{
		Built:  rapid.SampledFrom([]string{"parse", "insert"}).Draw(t, "built"),
		Parent: rapid.SampledFrom([]string{"remote", "local", "sdk_span"}).Draw(t, "parent"),
		Flags:  rapid.SampledFrom(flagChoices).Draw(t, "flags"),
	}
	for i := 0; i < n; i++ {
		c.Members = append(c.Members, TSMember{K: sibKey(i), V: rapid.SampledFrom(tsVals).Draw(t, "mv") + fmt.Sprint(i)})
	}
	ns := rapid.IntRange(2, 8).Draw(t, "nsibs")
	for i := 0; i < ns; i++ {
		o := SibOp{
			Under:    -1,
			Op:       rapid.SampledFrom([]string{"keep", "keep", "keep", "insert_new", "insert_new", "update", "delete", "replace", "clear"}).Draw(t, "op"),
			K:        rapid.IntRange(0, 40).Draw(t, "k"),
			V:        rapid.SampledFrom(tsVals).Draw(t, "v") + "#",
			Decision: rapid.SampledFrom([]int{2, 2, 1, 0}).Draw(t, "decision"),
		}
		if i > 0 && rapid.IntRange(0, 3).Draw(t, "nest") == 0 {
			o.Under = rapid.IntRange(0, i-1).Draw(t, "under")
		}
		c.Sibs = append(c.Sibs, o)
	}
	return c
}

func tsJoin(ms []TSMember) string {
	parts := make([]string, len(ms))
	for i, m := range ms {
		parts[i] = m.K + "=" + m.V
	}
	return strings.Join(parts, ",")
}

// sibApplyModel is the reference: W3C list semantics on plain data.
func sibApplyModel(base []TSMember, o SibOp) []TSMember {
	cp := append([]TSMember(nil), base...)
	switch o.Op {
	case "insert_new":
		// a key some ancestor's sampler already inserted is an update (moved to the front)
		k := fmt.Sprintf("new%d", o.K)
		out := []TSMember{{K: k, V: o.V}}
		for _, m := range cp {
			if m.K != k {
				out = append(out, m)
			}
		}
		if len(out) > 32 {
			out = out[:32]
		}
		return out
	case "update":
		if len(cp) == 0 {
			return cp
		}
		i := o.K % len(cp)
		k := cp[i].K
		out := []TSMember{{K: k, V: o.V}}
		out = append(out, cp[:i]...)
		return append(out, cp[i+1:]...)
	case "delete":
		if len(cp) == 0 {
			return cp
		}
		i := o.K % len(cp)
		return append(cp[:i:i], cp[i+1:]...)
	case "replace":
		return []TSMember{{K: fmt.Sprintf("own%d", o.K), V: o.V}, {K: "second", V: "2"}}
	case "clear":
		return nil
	}
	return cp
}

// sibApplyReal does the same through the public TraceState API, the way a
// sampler would.
func sibApplyReal(ts trace.TraceState, base []TSMember, o SibOp) trace.TraceState {
	switch o.Op {
	case "insert_new":
		n, err := ts.Insert(fmt.Sprintf("new%d", o.K), o.V)
		if err == nil {
			return n
		}
	case "update":
		if len(base) > 0 {
			n, err := ts.Insert(base[o.K%len(base)].K, o.V)
			if err == nil {
				return n
			}
		}
	case "delete":
		if len(base) > 0 {
			return ts.Delete(base[o.K%len(base)].K)
		}
	case "replace":
		n, _ := trace.ParseTraceState(fmt.Sprintf("own%d=%s,second=2", o.K, o.V))
		return n
	case "clear":
		return trace.TraceState{}
	}
	return ts
}

type sibSampler struct {
	c    *SibCase
	want [][]TSMember // expected members per span (filled before the span starts)
	base [][]TSMember
}

func (s *sibSampler) ShouldSample(p sdktrace.SamplingParameters) sdktrace.SamplingResult {
	psc := trace.SpanContextFromContext(p.ParentContext)
	var i int
	if _, err := fmt.Sscanf(p.Name, "s%d", &i); err != nil || i < 0 || i >= len(s.c.Sibs) {
		return sdktrace.SamplingResult{Decision: sdktrace.RecordAndSample, Tracestate: psc.TraceState()}
	}
	o := s.c.Sibs[i]
	return sdktrace.SamplingResult{
		Decision:   sdktrace.SamplingDecision(o.Decision),
		Tracestate: sibApplyReal(psc.TraceState(), s.base[i], o),
	}
}
func (s *sibSampler) Description() string { return "sibSampler" }

func runSib(c SibCase) ([]vk.Violation, vk.Info) {
	var vs []vk.Violation
	var info vk.Info
	if len(c.Members) > 32 || len(c.Sibs) == 0 {
		return nil, info
	}
	for i := range c.Sibs {
		if c.Sibs[i].Under >= i || c.Sibs[i].Decision < 0 || c.Sibs[i].Decision > 2 {
			return nil, info
		}
	}
	var pts trace.TraceState
	if c.Built == "parse" {
		var err error
		pts, err = trace.ParseTraceState(tsJoin(c.Members))
		if err != nil {
			return nil, info
		}
	} else {
		pts = buildTS(c.Members)
	}
	parentWant := tsJoin(c.Members)
	if pts.String() != parentWant {
		return nil, info // the tracestate type itself is not this check's subject
	}
	psc := trace.NewSpanContext(trace.SpanContextConfig{
		TraceID: tidFromHalves(0x1111, 0x2222), SpanID: sidFromU64(0x3333),
		TraceFlags: trace.TraceFlags(c.Flags), TraceState: pts, Remote: c.Parent != "local",
	})
	exp := &memExporter{}
	smp := &sibSampler{c: &c, want: make([][]TSMember, len(c.Sibs)), base: make([][]TSMember, len(c.Sibs))}
	tp := sdktrace.NewTracerProvider(sdktrace.WithSampler(smp), sdktrace.WithSpanProcessor(sdktrace.NewSimpleSpanProcessor(exp)))
	tr := tp.Tracer("c09.sib")
	pctx := ctxWith(psc)
	var parentSpan trace.Span
	if c.Parent == "sdk_span" {
		pctx, parentSpan = tr.Start(pctx, "parent")
		if got := parentSpan.SpanContext().TraceState().String(); got != parentWant {
			vs = append(vs, vk.V("tracestate_not_kept", "span started under a remote parent with %d tracestate members by a sampler that keeps the parent's tracestate: got %q want %q", len(c.Members), got, parentWant))
		}
	}
	spans := make([]trace.Span, len(c.Sibs))
	ctxs := make([]context.Context, len(c.Sibs))
	atStart := make([]string, len(c.Sibs))
	kindOf := func(o SibOp) string {
		if o.Op == "keep" {
			return "tracestate_not_kept"
		}
		return "tracestate_not_the_samplers"
	}
	for i, o := range c.Sibs {
		base, ctx := c.Members, pctx
		if o.Under >= 0 {
			base, ctx = smp.want[o.Under], ctxs[o.Under]
		}
		smp.base[i] = base
		smp.want[i] = sibApplyModel(base, o)
		ctxs[i], spans[i] = tr.Start(ctx, fmt.Sprintf("s%d", i))
		atStart[i] = spans[i].SpanContext().TraceState().String()
		if want := tsJoin(smp.want[i]); atStart[i] != want {
			vs = append(vs, vk.V(kindOf(o), "span %d (op %s under %d, decision %s; parent tracestate has %d members): tracestate at start %q want %q", i, o.Op, o.Under, decisionName(sdktrace.SamplingDecision(o.Decision)), len(base), atStart[i], want))
		}
	}
	for i := len(spans) - 1; i >= 0; i-- {
		spans[i].End()
	}
	if parentSpan != nil {
		parentSpan.End()
	}
	// Retained: what every span carried at its start is what it carries after
	// the sampler has derived other tracestates for its siblings.
	for i, o := range c.Sibs {
		want := tsJoin(smp.want[i])
		if got := spans[i].SpanContext().TraceState().String(); got != want && atStart[i] == want {
			vs = append(vs, vk.V("tracestate_changed_by_sibling", "span %d (op %s): tracestate was %q at its start and is %q after its siblings were started (parent tracestate has %d members)", i, o.Op, want, got, len(smp.base[i])))
		}
		if o.Decision == 2 {
			for _, ro := range exp.bySpanID(spans[i].SpanContext().SpanID()) {
				if got := ro.SpanContext().TraceState().String(); got != want && atStart[i] == want {
					vs = append(vs, vk.V("tracestate_changed_by_sibling", "span %d (op %s): exported with tracestate %q, want %q", i, o.Op, got, want))
				}
			}
		}
	}
	if parentSpan != nil {
		if got := parentSpan.SpanContext().TraceState().String(); got != parentWant {
			vs = append(vs, vk.V("tracestate_changed_by_sibling", "the span that kept its remote parent's tracestate (%d members) carries %q after its children were started, want %q", len(c.Members), got, parentWant))
		}
	}
	_ = tp.Shutdown(context.Background())

	info.NonTrivial = true
	keeps, derived, insFull := 0, 0, false
	for i, o := range c.Sibs {
		if o.Op == "keep" {
			keeps++
		} else {
			derived++
		}
		if o.Op == "insert_new" && len(smp.base[i]) == 32 {
			insFull = true
		}
		info.ClassIf(o.Under >= 0, "sib_nested")
	}
	info.ClassIf(len(c.Members) == 32, "sib_parent_ts_full")
	info.ClassIf(len(c.Members) == 31, "sib_parent_ts_31")
	info.ClassIf(len(c.Members) == 0, "sib_parent_ts_empty")
	info.ClassIf(keeps > 0 && derived > 0, "sib_mixed_keep_and_derive")
	info.ClassIf(insFull, "sib_insert_into_full")
	info.Class("sib_parent_" + c.Parent)
	return vs, info
}

func TestTracestateSiblings(t *testing.T) {
	vk.Run(t, vk.Spec[SibCase]{
		Property: "C09", Check: "tracestate_siblings",
		Rule: "a parent (remote / local span context / SDK span) with a tracestate of 0..32 members (weight on 31 and 32) and 2..8 spans under it or under each other; a custom sampler keeps the parent's tracestate for some and inserts / updates / deletes / replaces / clears members for others; every span's tracestate (at start, after all siblings were started and ended, and as exported) equals the W3C list model computed from the generated members; every case is non-trivial",
		Quick: 400, Thorough: 6000,
		Gen: genSib, Run: runSib,
	})
}

// =====================================================================
// Sub-check unregister_in_flight: "it reaches exporters exactly when sampled"
// for 3..7 processors while processors are unregistered / registered during
// a span's Start or End (re-entrantly from a processor, or from another
// goroutine).

type UProc struct {
	Kind    string `json:"kind"`    // simple | batch
	Trigger int    `json:"trigger"` // -1: never acts; n: acts at the n-th call of its hook
	Hook    string `json:"hook"`    // on_end_before | on_end_after | on_start
	Action  string `json:"action"`  // unreg_self | unreg_other | register_new
	Target  int    `json:"target"`  // unreg_other: processor index (modulo)
	Option  bool   `json:"option"`  // given through WithSpanProcessor instead of RegisterSpanProcessor
}

type UCase struct {
	Procs     []UProc `json:"procs"`
	Decisions []int   `json:"decisions"` // per span
	Conc      bool    `json:"conc"`      // spans by 4 goroutines, unregistering from a fifth
	Unreg     []int   `json:"unreg"`     // conc: processors (index modulo) the fifth goroutine unregisters
}

func genU(t *rapid.T) UCase {
	var c UCase
	np := rapid.IntRange(3, 7).Draw(t, "nprocs")
	for i := 0; i < np; i++ {
		p := UProc{
			Kind:    rapid.SampledFrom([]string{"simple", "simple", "simple", "batch"}).Draw(t, "kind"),
			Trigger: -1,
			Hook:    rapid.SampledFrom([]string{"on_end_before", "on_end_after", "on_start"}).Draw(t, "hook"),
			Action:  rapid.SampledFrom([]string{"unreg_self", "unreg_self", "unreg_other", "unreg_other", "register_new"}).Draw(t, "action"),
			Target:  rapid.IntRange(0, 7).Draw(t, "target"),
			Option:  rapid.Bool().Draw(t, "option"),
		}
		if rapid.IntRange(0, 2).Draw(t, "acts") == 0 {
			p.Trigger = rapid.IntRange(0, 5).Draw(t, "trigger")
		}
		c.Procs = append(c.Procs, p)
	}
	c.Conc = rapid.IntRange(0, 3).Draw(t, "conc") == 0
	ns := rapid.IntRange(2, 12).Draw(t, "nspans")
	if c.Conc {
		ns = rapid.IntRange(40, 200).Draw(t, "nspans_conc")
		k := rapid.IntRange(1, np-1).Draw(t, "nunreg")
		for i := 0; i < k; i++ {
			c.Unreg = append(c.Unreg, rapid.IntRange(0, np-1).Draw(t, "unreg"))
		}
	}
	for i := 0; i < ns; i++ {
		c.Decisions = append(c.Decisions, rapid.SampledFrom([]int{2, 2, 2, 1, 0}).Draw(t, "decision"))
	}
	return c
}

type uEvent struct {
	span int // index of the span being started / ended when it happened (-1 in conc mode)
	proc int
	kind string // unreg | reg
}

type uRun struct {
	mu     sync.Mutex
	tp     *sdktrace.TracerProvider
	procs  []*uProcessor
	events []uEvent
	cur    int
	conc   bool
}

type uProcessor struct {
	idx   int
	spec  UProc
	inner sdktrace.SpanProcessor
	exp   *memExporter
	run   *uRun
	calls int
	pos   int // position in the provider's list at construction
}

func (r *uRun) newProc(spec UProc) *uProcessor {
	p := &uProcessor{idx: len(r.procs), spec: spec, exp: &memExporter{}, run: r}
	if spec.Kind == "batch" {
		p.inner = sdktrace.NewBatchSpanProcessor(p.exp, sdktrace.WithBatchTimeout(time.Millisecond))
	} else {
		p.inner = sdktrace.NewSimpleSpanProcessor(p.exp)
	}
	r.procs = append(r.procs, p)
	return p
}

func (p *uProcessor) fire() {
	r := p.run
	r.mu.Lock()
	n := p.calls
	p.calls++
	if r.conc || n != p.spec.Trigger {
		r.mu.Unlock()
		return
	}
	var target *uProcessor
	kind := "unreg"
	switch p.spec.Action {
	case "unreg_self":
		target = p
	case "unreg_other":
		target = r.procs[p.spec.Target%len(r.procs)]
	default:
		kind = "reg"
		target = r.newProc(UProc{Kind: "simple", Trigger: -1})
	}
	r.events = append(r.events, uEvent{span: r.cur, proc: target.idx, kind: kind})
	r.mu.Unlock()
	if kind == "unreg" {
		r.tp.UnregisterSpanProcessor(target)
	} else {
		r.tp.RegisterSpanProcessor(target)
	}
}

func (p *uProcessor) OnStart(ctx context.Context, s sdktrace.ReadWriteSpan) {
	p.inner.OnStart(ctx, s)
	if p.spec.Hook == "on_start" {
		p.fire()
	}
}

func (p *uProcessor) OnEnd(s sdktrace.ReadOnlySpan) {
	if p.spec.Hook == "on_end_before" {
		p.fire()
	}
	p.inner.OnEnd(s)
	if p.spec.Hook == "on_end_after" {
		p.fire()
	}
}
func (p *uProcessor) Shutdown(ctx context.Context) error   { return p.inner.Shutdown(ctx) }
func (p *uProcessor) ForceFlush(ctx context.Context) error { return p.inner.ForceFlush(ctx) }

type uSampler struct{ d []int }

func (s uSampler) ShouldSample(p sdktrace.SamplingParameters) sdktrace.SamplingResult {
	var i int
	d := 2
	if _, err := fmt.Sscanf(p.Name, "u%d", &i); err == nil && i >= 0 && i < len(s.d) {
		d = s.d[i]
	}
	return sdktrace.SamplingResult{Decision: sdktrace.SamplingDecision(d), Tracestate: trace.SpanContextFromContext(p.ParentContext).TraceState()}
}
func (uSampler) Description() string { return "uSampler" }

func runU(c UCase) ([]vk.Violation, vk.Info) {
	var vs []vk.Violation
	var info vk.Info
	if len(c.Procs) == 0 || len(c.Decisions) == 0 {
		return nil, info
	}
	for _, d := range c.Decisions {
		if d < 0 || d > 2 {
			return nil, info
		}
	}
	r := &uRun{conc: c.Conc, cur: -1}
	opts := []sdktrace.TracerProviderOption{sdktrace.WithSampler(uSampler{d: c.Decisions})}
	var later []*uProcessor
	for _, ps := range c.Procs {
		p := r.newProc(ps)
		if ps.Option {
			opts = append(opts, sdktrace.WithSpanProcessor(p))
		} else {
			later = append(later, p)
		}
	}
	// order of registration = options first, then Register calls; idx is only a name.
	r.tp = sdktrace.NewTracerProvider(opts...)
	pos := 0
	for _, p := range r.procs {
		if p.spec.Option {
			p.pos = pos
			pos++
		}
	}
	for _, p := range later {
		r.tp.RegisterSpanProcessor(p)
		p.pos = pos
		pos++
	}
	nInitial := len(r.procs)
	tr := r.tp.Tracer("c09.unreg")
	ids := make([]trace.SpanID, len(c.Decisions))
	if !c.Conc {
		for i := range c.Decisions {
			r.mu.Lock()
			r.cur = i
			r.mu.Unlock()
			_, sp := tr.Start(context.Background(), fmt.Sprintf("u%d", i))
			ids[i] = sp.SpanContext().SpanID()
			sp.End()
		}
	} else {
		var wg sync.WaitGroup
		const G = 4
		startGate := make(chan struct{})
		for g := 0; g < G; g++ {
			wg.Add(1)
			go func(g int) {
				defer wg.Done()
				<-startGate
				for i := g; i < len(c.Decisions); i += G {
					_, sp := tr.Start(context.Background(), fmt.Sprintf("u%d", i))
					ids[i] = sp.SpanContext().SpanID()
					sp.End()
				}
			}(g)
		}
		wg.Add(1)
		go func() {
			defer wg.Done()
			<-startGate
			for _, u := range c.Unreg {
				runtime.Gosched()
				t := r.procs[u%nInitial]
				r.mu.Lock()
				r.events = append(r.events, uEvent{span: -1, proc: t.idx, kind: "unreg"})
				r.mu.Unlock()
				r.tp.UnregisterSpanProcessor(t)
			}
		}()
		close(startGate)
		wg.Wait()
	}
	_ = r.tp.ForceFlush(context.Background())
	_ = r.tp.Shutdown(context.Background())

	// oracle: built from the calls the harness's own collaborators made.
	registered := map[int]bool{}
	for i := 0; i < nInitial; i++ {
		registered[i] = true
	}
	everTouched := map[int]bool{}
	for _, e := range r.events {
		everTouched[e.proc] = true
	}
	steadyChecked, inFlight := 0, false
	for i, d := range c.Decisions {
		touched := map[int]bool{}
		for _, e := range r.events {
			if e.span == i {
				touched[e.proc] = true
				inFlight = true
			}
		}
		for _, p := range r.procs {
			got := len(p.exp.bySpanID(ids[i]))
			steady := registered[p.idx] && !touched[p.idx]
			if c.Conc {
				steady = !everTouched[p.idx]
			}
			switch {
			case d != 2 && got != 0:
				vs = append(vs, vk.V("unsampled_span_exported", "span %d (decision %s) reached the exporter of processor %d %d times", i, decisionName(sdktrace.SamplingDecision(d)), p.idx, got))
			case d == 2 && steady && got != 1:
				vs = append(vs, vk.V("sampled_span_not_exactly_once", "span %d (RecordAndSample) reached the exporter of processor %d (%s; registered before the span started and neither registered nor unregistered while it was in flight) %d times, want 1; %d processors, register/unregister calls made while this span was in flight: %v", i, p.idx, p.spec.Kind, got, len(r.procs), touchedList(touched)))
			case d == 2 && got > 1:
				vs = append(vs, vk.V("sampled_span_exported_twice", "span %d reached the exporter of processor %d %d times", i, p.idx, got))
			}
			if d == 2 && steady {
				steadyChecked++
			}
		}
		for _, e := range r.events {
			if e.span == i {
				registered[e.proc] = e.kind == "reg"
			}
		}
	}
	info.NonTrivial = steadyChecked > 0
	nonLast := false
	for _, e := range r.events {
		if e.kind == "unreg" && e.proc < nInitial && r.procs[e.proc].pos < nInitial-1 {
			nonLast = true
		}
		info.ClassIf(e.kind == "reg", "unreg_register_in_flight")
	}
	info.ClassIf(inFlight, "unreg_reentrant_in_flight")
	info.ClassIf(nonLast, "unreg_not_the_last")
	info.ClassIf(c.Conc, "unreg_concurrent")
	info.ClassIf(len(r.events) == 0, "unreg_none")
	return vs, info
}

func touchedList(m map[int]bool) []int {
	var out []int
	for i := 0; i < 64; i++ {
		if m[i] {
			out = append(out, i)
		}
	}
	return out
}

func TestUnregisterInFlight(t *testing.T) {
	vk.Run(t, vk.Spec[UCase]{
		Property: "C09", Check: "unregister_in_flight",
		Rule: "3..7 span processors (simple / batch, own exporters, given by option or RegisterSpanProcessor); some unregister themselves / another processor / register a new one at their n-th OnStart / OnEnd (before or after delivering), or a fifth goroutine unregisters processors while four goroutines start and end spans; every RecordAndSample span reaches the exporter of every processor that stayed registered around it exactly once, nobody gets a span twice, other decisions reach nobody; non-trivial = at least one (sampled span, steadily registered processor) pair was judged",
		Quick: 300, Thorough: 5000,
		Gen: genU, Run: runU,
	})
}
