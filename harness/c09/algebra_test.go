// Package c09 decides property C09 (sampling decisions are consistent and
// traces stay connected) with these generated checks:
//
//   - sampler_algebra: laws of sdktrace.TraceIDRatioBased called directly
//     through ShouldSample (determinism, monotonicity in the ratio, the two
//     end points, sampled share, tracestate passthrough);
//   - pipeline: span-tree programs against a TracerProvider whose sampler is
//     drawn from a grammar and wrapped in recording decorators; every started
//     span is compared with what the sampler answered for it;
//   - concurrent: 8 goroutines starting / ending spans on one provider with
//     the default ID generator (unique valid IDs, connected traces, -race),
//     behind a simple or a (blocking / non-blocking) batch processor;
//   - delivery (delivery_test.go): "reaches exporters exactly when sampled"
//     for 1..3 processors of every stock kind at once and for every trigger
//     of the hand-over (the batch processor's own schedule after idle
//     periods, a full batch, ForceFlush, Shutdown), with slow and failing
//     exporters;
//   - multi_provider_ids: IDs are unique across providers of one process.
//
// Readings of the statement where it is ambiguous (all conservative):
//
//   - "sampled" for a SamplingResult means Decision == RecordAndSample.
//   - Only the *sampled* bit of the trace flags is asserted; the other flag
//     bits of a new span are not (the statement is silent about them).
//   - A parent span context with a valid trace ID but a zero span ID
//     ("half valid") is neither clearly a parent nor clearly absent: the new
//     span may carry that trace ID or a fresh one, and the ParentBased
//     dispatch is not asserted for it. A parent with a zero trace ID is no
//     parent: the span is a root.
//   - "the parent's tracestate is kept" is asserted for the stock samplers
//     only when the parent span context is valid; for roots (no parent,
//     invalid parent, WithNewRoot) only span.tracestate == sampler result's
//     tracestate is asserted.
//   - "fresh" trace ID = valid and different from every trace ID that
//     appeared earlier in the run (started spans and supplied parents).
//   - "unique within the process" is evaluated within one run (one provider);
//     the IDs of supplied remote parents are not "handed out" IDs.
//   - A NaN ratio is only exercised for "does not panic".
//   - "the sampled share tracks r": over 4096 pseudo-random trace IDs (a pure
//     function of a seed in the case) the sampled count deviates from 4096*r
//     by no more than a Bernstein bound with failure probability < 1e-15 per
//     evaluation (about 8.9 sigma at r = 0.5, relatively wider where the
//     binomial is Poisson-like and "6 sigma" would be exceeded by chance once
//     in ~1e6 cases). The threshold is never re-implemented.
//   - "the sampled share tracks r ... for all trace IDs": the share is also
//     judged (same bound) over STRUCTURED populations - trailing eight bytes
//     pseudo-random, leading eight bytes zero (64-bit IDs padded to 128 bits),
//     all ones, a constant, an epoch prefix, a counter, one bit, a copy of the
//     trailing half - because the documentation (CHANGELOG #3557: "uses the
//     rightmost bits for sampling decisions ... fixes random sampling when
//     using ID generators like xray.IDGenerator"; W3C Trace Context on
//     left-padded 64-bit IDs) says which half carries the randomness; directly
//     and through the tracer (custom IDGenerator roots, WithNewRoot, children
//     of supplied remote / local parents, the matching ParentBased option) and,
//     for the SDK's default IDGenerator ("from a randomly-chosen sequence"),
//     over its own root spans. Nothing is asserted about populations whose
//     trailing half is not uniform. See populations_test.go.
//   - "it reaches exporters exactly when sampled" holds for every started
//     span whatever its caller does with it between Start and End and
//     whatever timestamps the caller claims (explicit start / end times,
//     end == start, end before start): nothing but the sampler's answer and
//     End decide. The pipeline check generates both.
//   - The sampler must be called exactly once per Start, with the new span's
//     trace ID and the parent span context (zero for WithNewRoot): without
//     that "the sampler's answer for the span" is not defined.
package c09

import (
	"context"
	"fmt"
	"math"
	"sort"
	"strings"
	"sync"
	"testing"

	"go.opentelemetry.io/otel/attribute"
	"go.opentelemetry.io/otel/sdk/resource"
	sdktrace "go.opentelemetry.io/otel/sdk/trace"
	"go.opentelemetry.io/otel/trace"
	"go.opentelemetry.io/otel/verif/internal/vk"
	"pgregory.net/rapid"
)

// Variant is one choice of the parameters that must be irrelevant to the
// ratio sampler.
type Variant struct {
	Name   vk.Str  `json:"name"`
	Kind   int     `json:"kind"`
	Attrs  []vk.KV `json:"attrs,omitempty"`
	Links  []SC    `json:"links,omitempty"`
	Parent string  `json:"parent"` // nil | none | ctx
	PSC    SC      `json:"psc"`    // used when Parent == "ctx"
}

// EnvRatio is a ratio sampler configured through the environment.
type EnvRatio struct {
	ParentBased bool   `json:"parent_based,omitempty"` // parentbased_traceidratio instead of traceidratio
	NameStyle   int    `json:"name_style,omitempty"`   // spelling of the name, see styleName
	Arg         string `json:"arg"`                    // OTEL_TRACES_SAMPLER_ARG, verbatim
}

// AlgCase is one generated input of the sampler_algebra check.
type AlgCase struct {
	TIDs        []string  `json:"tids"`
	Ratios      []vk.F64  `json:"ratios"`
	Variants    []Variant `json:"variants"`
	BlockSeed   uint64    `json:"block_seed"`
	BlockRatios []vk.F64  `json:"block_ratios"` // non-NaN
	// Env: ratio samplers built by NewTracerProvider from OTEL_TRACES_SAMPLER /
	// OTEL_TRACES_SAMPLER_ARG; each must agree, decision by decision, with the
	// programmatic TraceIDRatioBased(r) for the r its argument text denotes.
	Env []EnvRatio `json:"env,omitempty"`
	// Pops: structured populations of trace IDs (pseudo-random trailing half,
	// shaped leading half), each judged at one ratio over one route (direct
	// calls, root spans with a custom IDGenerator, children of supplied
	// parents); see populations_test.go.
	Pops []Pop `json:"pops,omitempty"`
}

// envBlockN is how many of the block's trace IDs are also put to the
// environment-configured samplers.
const envBlockN = 128

const blockN = 4096

func genRatio(t *rapid.T, nan bool, label string) vk.F64 {
	pick := func(xs ...float64) vk.F64 { return vk.F64(rapid.SampledFrom(xs).Draw(t, label+"_v")) }
	k := rapid.IntRange(0, 13).Draw(t, label+"_class")
	switch k {
	case 0:
		return pick(0, math.Copysign(0, -1))
	case 1: // tiny
		return pick(5e-324, 1e-300, 0x1p-64, 0x1p-63, 0x1p-62, 0x1.8p-63, 1e-19, 0x1p-53)
	case 2: // 2^-k
		return vk.F64(math.Ldexp(1, -rapid.IntRange(1, 62).Draw(t, label+"_k")))
	case 3:
		return 0.5
	case 4: // 1 - eps
		return pick(math.Nextafter(1, 0), 1-0x1p-52, 1-0x1p-30, 0.999, 1-0x1p-10)
	case 5:
		return 1
	case 6: // negative
		return pick(-1, -5e-324, -0.5, math.Inf(-1), -1e300, -0x1p-63)
	case 7: // > 1
		return pick(math.Nextafter(1, 2), 2, 1e300, math.Inf(1), 1.5)
	case 8:
		if nan {
			return pick(math.NaN(), math.Float64frombits(0x7ff8000000000001), math.Float64frombits(0xfff8000000000000))
		}
		return 0.25
	case 9: // m/2^j and its neighbours
		j := rapid.IntRange(1, 12).Draw(t, label+"_j")
		m := rapid.IntRange(0, 1<<uint(j)).Draw(t, label+"_m")
		f := float64(m) / float64(uint64(1)<<uint(j))
		switch rapid.IntRange(-1, 1).Draw(t, label+"_ulp") {
		case -1:
			f = math.Nextafter(f, -1)
		case 1:
			f = math.Nextafter(f, 2)
		}
		return vk.F64(f)
	default:
		return vk.F64(rapid.Float64Range(0, 1).Draw(t, label+"_f"))
	}
}

var algKVOpts = vk.KVOpts{Keys: []string{"a", "b", "sampling.priority", "http.method"}, EmptyKey: true, Invalid: true, InvalidUTF8: true, NaN: true, MaxSlice: 2, MaxTextParts: 3}

func genSC(t *rapid.T, label string) SC {
	sc := SC{
		TID:    genTIDHex(t, true, label+"_tid"),
		Flags:  rapid.SampledFrom(flagChoices).Draw(t, label+"_flags"),
		Remote: rapid.Bool().Draw(t, label+"_remote"),
		TS:     genTS(t, 3, label+"_ts"),
	}
	if rapid.IntRange(0, 5).Draw(t, label+"_sidzero") == 5 {
		sc.SID = sidHex(0)
	} else {
		sc.SID = sidHex(splitmix64(rapid.Uint64().Draw(t, label+"_sid")) | 1)
	}
	return sc
}

func genVariant(t *rapid.T, tids []string) Variant {
	v := Variant{
		Name: vk.GenText(4, true).Draw(t, "vname"),
		Kind: rapid.IntRange(-1, 6).Draw(t, "vkind"),
	}
	v.Attrs = vk.GenKVs(algKVOpts, 4, 0, 1).Draw(t, "vattrs")
	nl := rapid.IntRange(0, 2).Draw(t, "vlinks")
	for i := 0; i < nl; i++ {
		v.Links = append(v.Links, genSC(t, fmt.Sprintf("vlink%d", i)))
	}
	switch rapid.IntRange(0, 5).Draw(t, "vparent") {
	case 0:
		v.Parent = "nil"
	case 1:
		v.Parent = "none"
	default:
		v.Parent = "ctx"
		v.PSC = genSC(t, "vpsc")
		// the usual situation: the parent is in the trace being decided
		if rapid.IntRange(0, 2).Draw(t, "vpsc_same_trace") == 2 {
			v.PSC.TID = rapid.SampledFrom(tids).Draw(t, "vpsc_tid")
		}
	}
	return v
}

func genAlg(t *rapid.T) AlgCase {
	c := AlgCase{}
	n := rapid.IntRange(1, 8).Draw(t, "ntids")
	for i := 0; i < n; i++ {
		c.TIDs = append(c.TIDs, genTIDHex(t, true, fmt.Sprintf("tid%d", i)))
	}
	if rapid.IntRange(0, 9).Draw(t, "zero_tid") == 9 {
		c.TIDs = append(c.TIDs, tidHex(0, 0))
	}
	nr := rapid.IntRange(2, 6).Draw(t, "nratios")
	for i := 0; i < nr; i++ {
		c.Ratios = append(c.Ratios, genRatio(t, true, fmt.Sprintf("r%d", i)))
	}
	// trace IDs next to where a threshold for one of the case's ratios would
	// sit, in either half
	var interior []float64
	for _, rf := range c.Ratios {
		if r := float64(rf); r > 0 && r < 1 {
			interior = append(interior, r)
		}
	}
	if len(interior) > 0 {
		nth := rapid.IntRange(0, 3).Draw(t, "nthreshold_tids")
		for i := 0; i < nth; i++ {
			r := rapid.SampledFrom(interior).Draw(t, fmt.Sprintf("thr%d_of", i))
			c.TIDs = append(c.TIDs, genThresholdTID(t, r, fmt.Sprintf("thr%d", i)))
		}
	}
	// a neighbour of one of the ratios: pairs r < r' that are one ulp apart
	if rapid.Bool().Draw(t, "neighbour") {
		i := rapid.IntRange(0, len(c.Ratios)-1).Draw(t, "neighbour_of")
		if f := float64(c.Ratios[i]); !math.IsNaN(f) && !math.IsInf(f, 0) {
			c.Ratios = append(c.Ratios, vk.F64(math.Nextafter(f, 2)))
		}
	}
	nv := rapid.IntRange(1, 3).Draw(t, "nvariants")
	for i := 0; i < nv; i++ {
		c.Variants = append(c.Variants, genVariant(t, c.TIDs))
	}
	c.BlockSeed = rapid.Uint64().Draw(t, "block_seed")
	c.BlockRatios = []vk.F64{genRatio(t, false, "br0"), genRatio(t, false, "br1")}
	c.Pops = append(c.Pops, genPop(t, "pop0", true))
	if rapid.Bool().Draw(t, "second_pop") {
		c.Pops = append(c.Pops, genPop(t, "pop1", false))
	}
	ne := rapid.IntRange(0, 2).Draw(t, "nenv")
	for i := 0; i < ne; i++ {
		e := EnvRatio{
			ParentBased: rapid.Bool().Draw(t, "env_parent_based"),
			NameStyle:   genNameStyle(t, "env_name_style"),
		}
		if rapid.IntRange(0, 11).Draw(t, "env_outside_domain") == 11 {
			e.Arg = rapid.SampledFrom(notAssertedArgs).Draw(t, "env_other_arg")
		} else {
			// one of the case's own ratios when it is in [0,1] (the pair
			// env/programmatic then shares the ratio with the other laws)
			r := float64(c.Ratios[rapid.IntRange(0, len(c.Ratios)-1).Draw(t, "env_ratio_of")])
			if !(r >= 0 && r <= 1) || rapid.Bool().Draw(t, "env_own_ratio") {
				r = genEnvRatio(t, "env_ratio")
			}
			e.Arg = genRatioText(t, r, "env_arg")
		}
		c.Env = append(c.Env, e)
	}
	return c
}

// presetGen is an IDGenerator that hands out the trace ID the harness chose.
type presetGen struct {
	mu   sync.Mutex
	next trace.TraceID
	n    uint64
}

func (g *presetGen) NewIDs(context.Context) (trace.TraceID, trace.SpanID) {
	g.mu.Lock()
	defer g.mu.Unlock()
	g.n++
	return g.next, sidFromU64(splitmix64(g.n) | 1)
}

func (g *presetGen) NewSpanID(context.Context, trace.TraceID) trace.SpanID {
	g.mu.Lock()
	defer g.mu.Unlock()
	g.n++
	return sidFromU64(splitmix64(g.n) | 1)
}

func (g *presetGen) set(t trace.TraceID) {
	g.mu.Lock()
	g.next = t
	g.mu.Unlock()
}

// runAlgEnv puts the case's trace IDs to one environment-configured ratio
// sampler (through Tracer.Start: the sampler itself is not reachable) and
// compares with the programmatic sampler for the denoted ratio.
func runAlgEnv(c AlgCase, e EnvRatio, tids []trace.TraceID, bad func(kind, format string, a ...any), info *vk.Info) {
	base := "traceidratio"
	if e.ParentBased {
		base = "parentbased_traceidratio"
	}
	name := styleName(base, e.NameStyle)
	gen := &presetGen{}
	var tp *sdktrace.TracerProvider
	arg := e.Arg
	reported := withSamplerEnv(name, &arg, func() {
		tp = sdktrace.NewTracerProvider(sdktrace.WithResource(resource.Empty()), sdktrace.WithIDGenerator(gen))
	})
	defer func() { _ = tp.Shutdown(context.Background()) }()
	tracer := tp.Tracer("c09.env")
	r, ok := denotedRatio(e.Arg)
	how := fmt.Sprintf("%s=%q %s=%q", envSamplerKey, name, envSamplerArgKey, e.Arg)
	if len(reported) > 0 {
		how += fmt.Sprintf(" (SDK reported %q)", reported)
	}

	all := make([]trace.TraceID, 0, len(tids)+envBlockN)
	for _, tid := range tids {
		if tid.IsValid() {
			all = append(all, tid)
		}
	}
	for i := 0; i < envBlockN; i++ {
		all = append(all, blockTID(c.BlockSeed, i))
	}
	if !ok {
		// outside this property's domain: does not panic
		for _, tid := range all[:min(len(all), 12)] {
			gen.set(tid)
			_, sp := tracer.Start(context.Background(), "root")
			sp.End()
		}
		info.Class("env:arg_outside_domain(no panic only)")
		return
	}
	ref := sdktrace.TraceIDRatioBased(r)
	judge := func(tid trace.TraceID, sp trace.Span, via string) {
		sc := sp.SpanContext()
		sp.End()
		if sc.TraceID() != tid {
			return // the span is not in the trace the harness meant to decide
		}
		got := sc.IsSampled()
		want := sampledRes(ref.ShouldSample(sdktrace.SamplingParameters{ParentContext: context.Background(), TraceID: tid}))
		switch {
		case r <= 0 && got:
			bad("env_ratio_zero_sampled", "%s denotes ratio %v: trace ID %s (%s) is sampled", how, r, tid, via)
		case r >= 1 && !got:
			bad("env_ratio_one_not_sampled", "%s denotes ratio %v: trace ID %s (%s) is not sampled", how, r, tid, via)
		case got != want:
			bad("env_ratio_disagrees", "%s denotes ratio %v: trace ID %s (%s) sampled=%v, TraceIDRatioBased(%v) decides sampled=%v", how, r, tid, via, got, r, want)
		}
	}
	for _, tid := range all {
		gen.set(tid)
		_, sp := tracer.Start(context.Background(), "root")
		judge(tid, sp, "root span")
	}
	if !e.ParentBased {
		// the bare ratio sampler decides on the trace ID under any parent
		for _, tid := range all[:min(len(all), len(tids)+8)] {
			for _, v := range c.Variants {
				if v.Parent != "ctx" {
					continue
				}
				psc := v.PSC
				sc := psc.build().WithTraceID(tid)
				if !sc.IsValid() {
					continue
				}
				_, sp := tracer.Start(ctxWith(sc), "child")
				judge(tid, sp, "child of a supplied parent")
			}
		}
	}
	info.Class("env:" + base)
	info.ClassIf(r == 0, "env:ratio_zero")
	info.ClassIf(r == 1, "env:ratio_one")
	info.ClassIf(r > 0 && r < 1, "env:ratio_interior")
	info.ClassIf(name != base || strings.TrimSpace(e.Arg) != e.Arg, "env:blanks_or_case_in_spelling")
}

func (v Variant) params(tid trace.TraceID) (sdktrace.SamplingParameters, trace.TraceState) {
	p := sdktrace.SamplingParameters{
		TraceID:    tid,
		Name:       string(v.Name),
		Kind:       trace.SpanKind(v.Kind),
		Attributes: vk.ToAttrs(v.Attrs),
	}
	for _, l := range v.Links {
		p.Links = append(p.Links, trace.Link{SpanContext: l.build(), Attributes: []attribute.KeyValue{attribute.Int("l", 1)}})
	}
	var pts trace.TraceState
	switch v.Parent {
	case "nil":
		p.ParentContext = nil
	case "none":
		p.ParentContext = context.Background()
	default:
		sc := v.PSC.build()
		pts = sc.TraceState()
		p.ParentContext = ctxWith(sc)
	}
	return p, pts
}

func clamp01(r float64) float64 {
	if r < 0 {
		return 0
	}
	if r > 1 {
		return 1
	}
	return r
}

// shareTol is the Bernstein deviation bound t with
// P(|X - n r| >= t) <= 2 exp(-L) for X ~ Binomial(n, r), L = 36.
func shareTol(n int, r float64) float64 {
	const L = 36.0
	v := float64(n) * r * (1 - r)
	return L/3 + math.Sqrt(L*L/9+2*L*v)
}

func sampledRes(r sdktrace.SamplingResult) bool { return r.Decision == sdktrace.RecordAndSample }

func blockTID(seed uint64, i int) trace.TraceID {
	return tidFromHalves(splitmix64(seed+2*uint64(i)), splitmix64(seed+2*uint64(i)+1))
}

func runAlg(c AlgCase) ([]vk.Violation, vk.Info) {
	var vs []vk.Violation
	var info vk.Info
	seenKind := map[string]bool{}
	bad := func(kind, format string, a ...any) {
		// one violation per kind and case is enough
		if !seenKind[kind] {
			seenKind[kind] = true
			vs = append(vs, vk.V(kind, format, a...))
		}
	}

	tids := make([]trace.TraceID, len(c.TIDs))
	for i, h := range c.TIDs {
		tids[i] = parseTID(h)
	}

	type rrow struct {
		r   float64
		dec []bool // per trace ID
	}
	var rows []rrow
	for _, rf := range c.Ratios {
		r := float64(rf)
		s := sdktrace.TraceIDRatioBased(r)
		s2 := sdktrace.TraceIDRatioBased(r)
		if math.IsNaN(r) {
			// only "does not panic"
			for _, tid := range tids {
				for _, v := range c.Variants {
					p, _ := v.params(tid)
					_ = s.ShouldSample(p)
				}
				_ = s.ShouldSample(sdktrace.SamplingParameters{ParentContext: context.Background(), TraceID: tid})
			}
			_ = s.Description()
			info.Class("ratio:nan")
			continue
		}
		row := rrow{r: r, dec: make([]bool, len(tids))}
		for i, tid := range tids {
			base := s.ShouldSample(sdktrace.SamplingParameters{ParentContext: context.Background(), TraceID: tid})
			row.dec[i] = sampledRes(base)
			if again := s.ShouldSample(sdktrace.SamplingParameters{ParentContext: context.Background(), TraceID: tid}); again.Decision != base.Decision {
				bad("nondeterministic_repeat", "ratio %v, trace ID %s: decision %d then %d for identical calls", r, tid, base.Decision, again.Decision)
			}
			if other := s2.ShouldSample(sdktrace.SamplingParameters{ParentContext: context.Background(), TraceID: tid}); other.Decision != base.Decision {
				bad("nondeterministic_instance", "ratio %v, trace ID %s: two samplers built with the same ratio decide %d and %d", r, tid, base.Decision, other.Decision)
			}
			if base.Tracestate.Len() != 0 {
				bad("tracestate_not_passed", "ratio %v, trace ID %s: no parent, result tracestate %q", r, tid, base.Tracestate.String())
			}
			for vi, v := range c.Variants {
				p, pts := v.params(tid)
				res := s.ShouldSample(p)
				if res.Decision != base.Decision {
					bad("decision_depends_on_other_params", "ratio %v, trace ID %s: decision %d with bare parameters, %d with variant %d (name/kind/attributes/links/parent differ)", r, tid, base.Decision, res.Decision, vi)
				}
				if res.Tracestate.String() != pts.String() {
					bad("tracestate_not_passed", "ratio %v, trace ID %s, variant %d: parent tracestate %q, result tracestate %q", r, tid, vi, pts.String(), res.Tracestate.String())
				}
			}
			if r <= 0 && row.dec[i] {
				bad("ratio_le_zero_sampled", "TraceIDRatioBased(%v) sampled trace ID %s", r, tid)
			}
			if r >= 1 && !row.dec[i] {
				bad("ratio_ge_one_not_sampled", "TraceIDRatioBased(%v) did not sample trace ID %s (decision %d)", r, tid, base.Decision)
			}
		}
		rows = append(rows, row)
		switch {
		case r <= 0:
			info.Class("ratio:<=0")
		case r >= 1:
			info.Class("ratio:>=1")
		case r < 0x1p-53:
			info.Class("ratio:tiny")
		case r > 0.99:
			info.Class("ratio:near1")
		default:
			info.Class("ratio:interior")
		}
	}

	// monotonicity over the explicit trace IDs
	differing := false
	sort.SliceStable(rows, func(i, j int) bool { return rows[i].r < rows[j].r })
	for i := 0; i < len(rows); i++ {
		for j := i + 1; j < len(rows); j++ {
			for k := range tids {
				if rows[i].dec[k] && !rows[j].dec[k] {
					bad("not_monotone", "trace ID %s sampled at ratio %v but not at ratio %v", tids[k], rows[i].r, rows[j].r)
				}
				if rows[i].r < rows[j].r && rows[i].dec[k] != rows[j].dec[k] {
					differing = true
				}
			}
		}
	}

	// share + monotonicity over a block of pseudo-random trace IDs
	if len(c.BlockRatios) > 0 {
		type brow struct {
			r     float64
			s     sdktrace.Sampler
			count int
		}
		var brs []brow
		for _, rf := range c.BlockRatios {
			if r := float64(rf); !math.IsNaN(r) {
				brs = append(brs, brow{r: r, s: sdktrace.TraceIDRatioBased(r)})
			}
		}
		sort.SliceStable(brs, func(i, j int) bool { return brs[i].r < brs[j].r })
		dec := make([]bool, len(brs))
		for i := 0; i < blockN; i++ {
			tid := blockTID(c.BlockSeed, i)
			p := sdktrace.SamplingParameters{ParentContext: context.Background(), TraceID: tid}
			for j := range brs {
				dec[j] = sampledRes(brs[j].s.ShouldSample(p))
				if dec[j] {
					brs[j].count++
				}
				if j > 0 && dec[j-1] && !dec[j] {
					bad("not_monotone", "trace ID %s sampled at ratio %v but not at ratio %v", tid, brs[j-1].r, brs[j].r)
				}
				if j > 0 && brs[j-1].r < brs[j].r && dec[j-1] != dec[j] {
					differing = true
				}
			}
		}
		for _, b := range brs {
			r := clamp01(b.r)
			want := float64(blockN) * r
			tol := shareTol(blockN, r)
			if d := math.Abs(float64(b.count) - want); d > tol {
				bad("share_off", "ratio %v: %d of %d pseudo-random trace IDs (seed %d) sampled, expected %.1f +- %.1f", b.r, b.count, blockN, c.BlockSeed, want, tol)
			}
			switch {
			case b.r <= 0 && b.count != 0:
				bad("ratio_le_zero_sampled", "TraceIDRatioBased(%v) sampled %d of %d trace IDs", b.r, b.count, blockN)
			case b.r >= 1 && b.count != blockN:
				bad("ratio_ge_one_not_sampled", "TraceIDRatioBased(%v) sampled only %d of %d trace IDs", b.r, b.count, blockN)
			}
			info.ClassIf(b.r > 0 && b.r < 1 && want >= 1 && blockN-want >= 1, "block:interior_share_checked")
			info.ClassIf(b.r > 0 && b.r < 1 && want < 1, "block:share_expected_zero")
		}
	}

	for _, p := range c.Pops {
		runPop(p, bad, &info)
	}

	for _, e := range c.Env {
		runAlgEnv(c, e, tids, bad, &info)
	}

	for _, tid := range tids {
		lo := uint64(0)
		for _, b := range tid[8:] {
			lo = lo<<8 | uint64(b)
		}
		hi := uint64(0)
		for _, b := range tid[:8] {
			hi = hi<<8 | uint64(b)
		}
		info.ClassIf(lo == 0 && hi != 0, "tid:low_half_zero")
		info.ClassIf(lo <= 1, "tid:low_half_0_or_1")
		info.ClassIf(hi == 0 && lo != 0, "tid:high_half_zero")
		info.ClassIf(hi == 0 && lo == 0, "tid:all_zero")
		info.ClassIf(hi == math.MaxUint64 && lo == math.MaxUint64, "tid:all_ones")
		info.ClassIf(lo>>1 == 1<<62 || lo>>1 == 1<<62-1, "tid:at_half_boundary")
		for _, rf := range c.Ratios {
			if r := float64(rf); r > 0 && r < 1 {
				near := func(x, v uint64) bool { return v > 16 && x-v+8 <= 16 }
				v63, v64 := uint64(math.Ldexp(r, 63))<<1, uint64(math.Ldexp(r, 64))
				info.ClassIf(near(lo, v63) || near(lo, v64), "tid:trailing_half_next_to_a_ratio_of_the_case")
				info.ClassIf(near(hi, v63) || near(hi, v64), "tid:leading_half_next_to_a_ratio_of_the_case")
			}
		}
	}
	for _, v := range c.Variants {
		info.ClassIf(v.Parent == "ctx" && len(v.PSC.TS) > 0, "variant:parent_with_tracestate")
		info.ClassIf(v.Parent == "ctx" && v.PSC.Flags&1 == 1, "variant:parent_sampled")
		info.ClassIf(v.Parent == "nil", "variant:nil_parent_context")
		if v.Parent == "ctx" {
			for _, h := range c.TIDs {
				if h == v.PSC.TID {
					info.Class("variant:parent_in_the_decided_trace")
					break
				}
			}
		}
	}
	info.ClassIf(differing, "pair_with_differing_decision")
	info.NonTrivial = differing
	return vs, info
}

func TestSamplerAlgebra(t *testing.T) {
	vk.Run(t, vk.Spec[AlgCase]{
		Property: "C09", Check: "sampler_algebra",
		Rule: "1..9 trace IDs (mixed 128-bit, low/high half zero, all ones, all zero, boundary values of the low half), 2..7 ratios from {0,-0,tiny,2^-k,0.5,1-eps,1,negative,>1,NaN,m/2^j +-ulp,uniform}, 1..3 variants of the irrelevant parameters (name, kind, attributes, links, nil/empty/local/remote parent with flags and tracestate) and a block of 4096 hash-derived trace IDs judged at two ratios; 0..3 trace IDs one of whose halves sits within +-3 of a ratio of the case scaled to 2^63 / 2^64; 1..2 structured populations (4096 direct / 1024 through the tracer: trailing eight bytes pseudo-random, leading eight bytes zero / ones / constant / epoch prefix / counter / single bit / copy of the trailing half / random) judged at one ratio each as direct calls, custom-IDGenerator roots (bare, ParentBased root, WithNewRoot over a parent), children of supplied remote / local parents (bare, matching ParentBased option) or default-IDGenerator roots; 0..2 ratio samplers configured through OTEL_TRACES_SAMPLER(_ARG) (traceidratio / parentbased_traceidratio, the ratio spelled in 'g'/'f'/'e' forms, signs, leading zeros, blanks, name in any letter case) compared decision by decision with TraceIDRatioBased of the denoted ratio on the case's trace IDs and 128 block IDs; " +
			"non-trivial = some pair r < r' decides differently on some trace ID; distinct = distinct case encodings",
		Quick: 1000, Thorough: 50000,
		Gen: genAlg, Run: runAlg,
	})
}
