package c09

import (
	"context"
	"encoding/binary"
	"encoding/hex"
	"math"

	"go.opentelemetry.io/otel/trace"
	"pgregory.net/rapid"
)

// splitmix64 is the hash every "pseudo-random" quantity of a case is derived
// with (it is a bijection on uint64, so distinct inputs give distinct
// outputs). It is part of the case semantics, not of the code under test.
func splitmix64(x uint64) uint64 {
	x += 0x9e3779b97f4a7c15
	x = (x ^ (x >> 30)) * 0xbf58476d1ce4e5b9
	x = (x ^ (x >> 27)) * 0x94d049bb133111eb
	return x ^ (x >> 31)
}

func tidFromHalves(hi, lo uint64) trace.TraceID {
	var t trace.TraceID
	binary.BigEndian.PutUint64(t[0:8], hi)
	binary.BigEndian.PutUint64(t[8:16], lo)
	return t
}

func sidFromU64(x uint64) trace.SpanID {
	var s trace.SpanID
	binary.BigEndian.PutUint64(s[:], x)
	return s
}

func tidHex(hi, lo uint64) string {
	t := tidFromHalves(hi, lo)
	return hex.EncodeToString(t[:])
}

func sidHex(x uint64) string {
	s := sidFromU64(x)
	return hex.EncodeToString(s[:])
}

// parseTID decodes 32 hex digits (any value, including all-zero); malformed
// input (hand-edited replay) yields the zero ID.
func parseTID(h string) trace.TraceID {
	var t trace.TraceID
	b, err := hex.DecodeString(h)
	if err == nil && len(b) == 16 {
		copy(t[:], b)
	}
	return t
}

func parseSID(h string) trace.SpanID {
	var s trace.SpanID
	b, err := hex.DecodeString(h)
	if err == nil && len(b) == 8 {
		copy(s[:], b)
	}
	return s
}

// TSMember is one tracestate list member (valid by construction).
type TSMember struct {
	K string `json:"k"`
	V string `json:"v"`
}

var tsKeys = []string{"a", "b", "c0", "vendor", "t1@sys", "x-y_z"}
var tsVals = []string{"1", "x", "00f067aa0ba902b7", "v-2", "p:q;r", "with space!"}

// genTS draws 0..max members with pairwise distinct keys.
func genTS(t *rapid.T, max int, label string) []TSMember {
	n := rapid.IntRange(0, max).Draw(t, label+"_n")
	if n == 0 {
		return nil
	}
	perm := rapid.Permutation(tsKeys).Draw(t, label+"_keys")
	out := make([]TSMember, 0, n)
	for i := 0; i < n && i < len(perm); i++ {
		out = append(out, TSMember{K: perm[i], V: rapid.SampledFrom(tsVals).Draw(t, label+"_v")})
	}
	return out
}

// buildTS turns members into a TraceState whose String() lists them in the
// given order. Members the SDK rejects (hand-edited replay) are skipped.
func buildTS(ms []TSMember) trace.TraceState {
	var ts trace.TraceState
	for i := len(ms) - 1; i >= 0; i-- {
		if n, err := ts.Insert(ms[i].K, ms[i].V); err == nil {
			ts = n
		}
	}
	return ts
}

// SC is a span context as data.
type SC struct {
	TID    string     `json:"tid"` // 32 hex digits, may be all zero
	SID    string     `json:"sid"` // 16 hex digits, may be all zero
	Flags  uint8      `json:"flags"`
	TS     []TSMember `json:"ts,omitempty"`
	Remote bool       `json:"remote"`
}

func (s SC) build() trace.SpanContext {
	return trace.NewSpanContext(trace.SpanContextConfig{
		TraceID:    parseTID(s.TID),
		SpanID:     parseSID(s.SID),
		TraceFlags: trace.TraceFlags(s.Flags),
		TraceState: buildTS(s.TS),
		Remote:     s.Remote,
	})
}

// ctxWith puts sc into a fresh context the way a propagator (remote) or an
// in-process caller (local) would.
func ctxWith(sc trace.SpanContext) context.Context {
	if sc.IsRemote() {
		return trace.ContextWithRemoteSpanContext(context.Background(), sc)
	}
	return trace.ContextWithSpanContext(context.Background(), sc)
}

var flagChoices = []uint8{0, 1, 0, 1, 2, 3, 0xfe, 0xff, 0x80, 0x81}

// boundaryLows are low-half values around the places a threshold on the low
// 8 bytes (or on any 63/64-bit prefix of them) would sit.
var boundaryLows = []uint64{
	0, 1, 2, 3,
	1<<62 - 1, 1 << 62, 1<<62 + 1,
	1<<63 - 2, 1<<63 - 1, 1 << 63, 1<<63 + 1, 1<<63 + 2,
	math.MaxUint64 - 2, math.MaxUint64 - 1, math.MaxUint64,
	1 << 32, 1<<32 - 1, 1 << 61, 3 << 61, 1 << 53,
}

// genTIDHex draws a trace ID: uniformly mixed 128 bits or one of the
// structured shapes. allowZero admits the all-zero (invalid) ID.
func genTIDHex(t *rapid.T, allowZero bool, label string) string {
	k := rapid.IntRange(0, 9).Draw(t, label+"_kind")
	u := func(l string) uint64 { return rapid.Uint64().Draw(t, label+"_"+l) }
	mixed := func(l string) uint64 { return splitmix64(u(l)) }
	switch k {
	case 0, 1, 2: // all 128 bits pseudo-random
		return tidHex(mixed("hi"), mixed("lo"))
	case 3: // low half zero
		hi := mixed("hi")
		if hi == 0 {
			hi = 1
		}
		return tidHex(hi, 0)
	case 4: // high half zero
		lo := mixed("lo")
		if lo == 0 {
			lo = 1
		}
		return tidHex(0, lo)
	case 5: // all ones
		return tidHex(math.MaxUint64, math.MaxUint64)
	case 6, 7: // boundary value in the low half
		lo := rapid.SampledFrom(boundaryLows).Draw(t, label+"_blo")
		hi := rapid.SampledFrom([]uint64{0, 1, math.MaxUint64, 0x0123456789abcdef}).Draw(t, label+"_bhi")
		if rapid.Bool().Draw(t, label+"_bhimix") {
			hi = mixed("hi")
		}
		if hi == 0 && lo == 0 && !allowZero {
			hi = 1
		}
		return tidHex(hi, lo)
	case 8: // 2^k, 2^k-1, 2^k+1 in the low half
		kk := rapid.IntRange(0, 63).Draw(t, label+"_pow")
		lo := uint64(1)<<uint(kk) + uint64(rapid.IntRange(-1, 1).Draw(t, label+"_off"))
		hi := mixed("hi")
		if hi == 0 && lo == 0 && !allowZero {
			hi = 1
		}
		return tidHex(hi, lo)
	default: // raw (rapid biases these towards small / boundary magnitudes)
		hi, lo := u("hi"), u("lo")
		if hi == 0 && lo == 0 && !allowZero {
			lo = 1
		}
		return tidHex(hi, lo)
	}
}
