package c09

// delivery: "it reaches exporters exactly when sampled", read for every stock
// way of attaching an exporter and for every way a span's hand-over can be
// triggered.
//
// The pipeline check looks at the exporter of ONE processor and, for the batch
// processor, always calls ForceFlush first. Here a provider carries 1..3
// processors (SimpleSpanProcessor, WithSyncer, NewBatchSpanProcessor,
// WithBatcher; attached by option or by RegisterSpanProcessor), each with its
// own exporter (prompt, slow, or failing every k-th call), the batch processors
// with generated BatchTimeout / MaxExportBatchSize / MaxQueueSize /
// ExportTimeout / WithBlocking (given as options or through OTEL_BSP_*), and
// the program decides what triggers the hand-over: nothing but the processor's
// own schedule ("timer": nobody calls ForceFlush or Shutdown before the harness
// has seen the span), a full batch, ForceFlush, or Shutdown. Idle periods of a
// generated number of BatchTimeouts lie between the operations, so the
// schedule timer fires on empty and on non-empty batches in every order.
//
// Readings (conservative):
//
//   - A sampled span that has ended "reaches" the exporter of a batch
//     processor without anybody flushing: WithBatchTimeout documents "the
//     maximum delay allowed for a BatchSpanProcessor before it will export any
//     held span". Only EVENTUALLY is asserted: the harness polls, and gives up
//     after max(15 s, 3000 x BatchTimeout) - a hang watchdog, not a
//     performance bound (BatchTimeout is 1..5 ms).
//   - The non-blocking batch processor documents that it drops spans when its
//     queue is full; the generator never lets that happen (an explicit
//     MaxQueueSize of a non-blocking processor is at least the number of spans
//     of the program).
//   - "exactly": a span that is not sampled, or has not ended, is never held by
//     any exporter; a sampled ended span is held exactly once by an exporter
//     that never fails and at least once by one that does (a retry after a
//     failed export would not contradict the statement).
//   - An exporter "is reached" when its ExportSpans is called with the span,
//     whatever it returns and however long it takes.

import (
	"context"
	"errors"
	"fmt"
	"os"
	"strconv"
	"sync"
	"testing"
	"time"

	"go.opentelemetry.io/otel/sdk/resource"
	sdktrace "go.opentelemetry.io/otel/sdk/trace"
	"go.opentelemetry.io/otel/trace"
	"go.opentelemetry.io/otel/verif/internal/vk"
	"pgregory.net/rapid"
)

// ProcSpec is one span processor with its exporter.
type ProcSpec struct {
	Kind   string `json:"kind"`   // simple | syncer | batch | batcher
	Attach string `json:"attach"` // option | register (simple and batch only)
	// batch kinds:
	TimeoutMs       int    `json:"timeout_ms,omitempty"`        // BatchTimeout
	MaxBatch        int    `json:"max_batch,omitempty"`         // 0: not configured
	MaxQueue        int    `json:"max_queue,omitempty"`         // -1: not configured
	ExportTimeoutMs int    `json:"export_timeout_ms,omitempty"` // -1: not configured, 0: disabled
	Blocking        bool   `json:"blocking,omitempty"`
	Via             string `json:"via,omitempty"` // option | env: how the numeric settings are given
	// exporter:
	SlowQuarters int `json:"slow_quarters,omitempty"` // every ExportSpans call takes this many quarter BatchTimeouts
	FailEvery    int `json:"fail_every,omitempty"`    // every k-th ExportSpans call returns an error (0: never)
}

func (p ProcSpec) isBatch() bool { return p.Kind == "batch" || p.Kind == "batcher" }

// DStep is one step of the delivery program.
type DStep struct {
	Op       string `json:"op"`                 // start | end | idle | flush | await
	Decision int    `json:"decision,omitempty"` // start: what the sampler answers (0 Drop, 1 RecordOnly, 2 RecordAndSample)
	Child    bool   `json:"child,omitempty"`    // start: child of span Of instead of a root
	Of       int    `json:"of,omitempty"`       // start (Child) / end: span index modulo the spans started so far
	Quarters int    `json:"quarters,omitempty"` // idle: sleep this many quarter BatchTimeouts
	StartTS  TSpec  `json:"start_ts"`
	EndTS    TSpec  `json:"end_ts"`
}

// DCase is one generated input of the delivery check.
type DCase struct {
	Procs []ProcSpec `json:"procs"`
	// UnitMs: the BatchTimeout of the case's batch processors unless a
	// processor says otherwise; idle periods and exporter delays are counted in
	// quarters of it.
	UnitMs int     `json:"unit_ms"`
	Final  string  `json:"final"` // timer | flush | shutdown
	Steps  []DStep `json:"steps"`
}

const hourMs = 3600_000

func genProc(t *rapid.T, unit int, longTimeout bool, nspans int) ProcSpec {
	p := ProcSpec{Kind: rapid.SampledFrom([]string{"batch", "batch", "batch", "batcher", "simple", "syncer"}).Draw(t, "pkind"), Attach: "option", MaxQueue: -1, ExportTimeoutMs: -1}
	if p.Kind == "simple" || p.Kind == "batch" {
		p.Attach = rapid.SampledFrom([]string{"option", "option", "register"}).Draw(t, "attach")
	}
	p.SlowQuarters = rapid.SampledFrom([]int{0, 0, 0, 1, 2, 4, 6}).Draw(t, "slow_quarters")
	p.FailEvery = rapid.SampledFrom([]int{0, 0, 0, 1, 2, 3}).Draw(t, "fail_every")
	if !p.isBatch() {
		return p
	}
	p.TimeoutMs = unit
	if longTimeout {
		p.TimeoutMs = hourMs
	}
	p.Via = rapid.SampledFrom([]string{"option", "option", "env"}).Draw(t, "via")
	p.Blocking = rapid.IntRange(0, 2).Draw(t, "blocking") == 0
	if rapid.Bool().Draw(t, "has_max_batch") {
		p.MaxBatch = rapid.SampledFrom([]int{1, 2, 3, 4, 8, 512, 513}).Draw(t, "max_batch")
	}
	if rapid.IntRange(0, 2).Draw(t, "has_max_queue") == 0 {
		if p.Blocking {
			p.MaxQueue = rapid.SampledFrom([]int{0, 1, 2, 4, nspans, 2048}).Draw(t, "max_queue_blocking")
		} else {
			p.MaxQueue = nspans + rapid.SampledFrom([]int{0, 1, 8, 2048}).Draw(t, "max_queue_spare")
		}
	}
	p.ExportTimeoutMs = rapid.SampledFrom([]int{-1, -1, 0, 1, 30000}).Draw(t, "export_timeout")
	return p
}

func genDelivery(t *rapid.T) DCase {
	c := DCase{UnitMs: rapid.IntRange(1, 5).Draw(t, "unit_ms")}
	c.Final = rapid.SampledFrom([]string{"timer", "timer", "timer", "flush", "shutdown"}).Draw(t, "final")
	// a case that never relies on the schedule may use a schedule that never
	// comes: ForceFlush / Shutdown / a full batch are then the only triggers
	longTimeout := c.Final != "timer" && rapid.IntRange(0, 2).Draw(t, "long_timeout") == 0

	n := rapid.IntRange(2, 16).Draw(t, "nsteps")
	started := 0
	for i := 0; i < n; i++ {
		ops := []string{"start", "start", "start", "idle", "idle"}
		if started > 0 {
			ops = append(ops, "end", "end", "end", "end", "flush")
			if !longTimeout {
				ops = append(ops, "await", "await")
			}
		}
		s := DStep{Op: rapid.SampledFrom(ops).Draw(t, "op")}
		switch s.Op {
		case "start":
			s.Decision = rapid.SampledFrom([]int{2, 2, 2, 2, 1, 0}).Draw(t, "decision")
			if started > 0 && rapid.Bool().Draw(t, "child") {
				s.Child = true
				s.Of = rapid.IntRange(0, started-1).Draw(t, "parent")
			}
			if rapid.IntRange(0, 3).Draw(t, "start_has_ts") == 0 {
				s.StartTS = genTSpec(t, startTSModes, "start_ts")
			}
			started++
		case "end":
			// mostly the most recent span, so that ends follow idle periods
			if rapid.Bool().Draw(t, "end_recent") {
				s.Of = started - 1
			} else {
				s.Of = rapid.IntRange(0, started-1).Draw(t, "end_of")
			}
			if rapid.IntRange(0, 3).Draw(t, "end_has_ts") == 0 {
				s.EndTS = genTSpec(t, endTSModes, "end_ts")
			}
		case "idle":
			s.Quarters = rapid.SampledFrom([]int{1, 2, 4, 5, 6, 8, 8, 10, 12}).Draw(t, "quarters")
		}
		c.Steps = append(c.Steps, s)
	}
	np := rapid.SampledFrom([]int{1, 1, 1, 2, 2, 3}).Draw(t, "nprocs")
	for i := 0; i < np; i++ {
		c.Procs = append(c.Procs, genProc(t, c.UnitMs, longTimeout, started))
	}
	return c
}

// ---------------------------------------------------------------------

// dExporter records what reaches it.
type dExporter struct {
	mu        sync.Mutex
	counts    map[trace.SpanID]int
	calls     int
	slow      time.Duration
	failEvery int
}

var errExportFailed = errors.New("c09: exporter fails on purpose")

func (e *dExporter) ExportSpans(_ context.Context, ss []sdktrace.ReadOnlySpan) error {
	e.mu.Lock()
	e.calls++
	call := e.calls
	for _, s := range ss {
		e.counts[s.SpanContext().SpanID()]++
	}
	e.mu.Unlock()
	if e.slow > 0 {
		time.Sleep(e.slow)
	}
	if e.failEvery > 0 && call%e.failEvery == 0 {
		return errExportFailed
	}
	return nil
}

func (e *dExporter) Shutdown(context.Context) error { return nil }

func (e *dExporter) count(id trace.SpanID) int {
	e.mu.Lock()
	defer e.mu.Unlock()
	return e.counts[id]
}

// stepSampler answers what the current start step says.
type stepSampler struct{ decision int }

func (s *stepSampler) ShouldSample(p sdktrace.SamplingParameters) sdktrace.SamplingResult {
	res := sdktrace.SamplingResult{Tracestate: trace.SpanContextFromContext(p.ParentContext).TraceState()}
	switch ((s.decision % 3) + 3) % 3 {
	case 0:
		res.Decision = sdktrace.Drop
	case 1:
		res.Decision = sdktrace.RecordOnly
	default:
		res.Decision = sdktrace.RecordAndSample
	}
	return res
}

func (s *stepSampler) Description() string { return "StepSampler" }

var bspEnvKeys = []string{"OTEL_BSP_SCHEDULE_DELAY", "OTEL_BSP_EXPORT_TIMEOUT", "OTEL_BSP_MAX_QUEUE_SIZE", "OTEL_BSP_MAX_EXPORT_BATCH_SIZE"}

// withEnv runs f with the given variables set and restores the environment.
func withEnv(kv map[string]string, f func()) {
	type saved struct {
		v  string
		ok bool
	}
	old := map[string]saved{}
	for _, k := range bspEnvKeys {
		v, ok := os.LookupEnv(k)
		old[k] = saved{v, ok}
		_ = os.Unsetenv(k)
	}
	defer func() {
		for k, s := range old {
			if s.ok {
				_ = os.Setenv(k, s.v)
			} else {
				_ = os.Unsetenv(k)
			}
		}
	}()
	for k, v := range kv {
		_ = os.Setenv(k, v)
	}
	f()
}

func clampInt(v, lo, hi int) int {
	if v < lo {
		return lo
	}
	if v > hi {
		return hi
	}
	return v
}

// batchConfig is the processor's numeric configuration as options or as
// environment variables.
func (p ProcSpec) batchConfig(timeoutMs int) (opts []sdktrace.BatchSpanProcessorOption, env map[string]string) {
	env = map[string]string{}
	viaEnv := p.Via == "env"
	if viaEnv {
		env["OTEL_BSP_SCHEDULE_DELAY"] = strconv.Itoa(timeoutMs)
	} else {
		opts = append(opts, sdktrace.WithBatchTimeout(time.Duration(timeoutMs)*time.Millisecond))
	}
	if p.MaxBatch > 0 {
		if viaEnv {
			env["OTEL_BSP_MAX_EXPORT_BATCH_SIZE"] = strconv.Itoa(p.MaxBatch)
		} else {
			opts = append(opts, sdktrace.WithMaxExportBatchSize(p.MaxBatch))
		}
	}
	if p.MaxQueue >= 0 {
		if viaEnv {
			env["OTEL_BSP_MAX_QUEUE_SIZE"] = strconv.Itoa(p.MaxQueue)
		} else {
			opts = append(opts, sdktrace.WithMaxQueueSize(p.MaxQueue))
		}
	}
	if p.ExportTimeoutMs >= 0 {
		if viaEnv {
			env["OTEL_BSP_EXPORT_TIMEOUT"] = strconv.Itoa(p.ExportTimeoutMs)
		} else {
			opts = append(opts, sdktrace.WithExportTimeout(time.Duration(p.ExportTimeoutMs)*time.Millisecond))
		}
	}
	if p.Blocking {
		opts = append(opts, sdktrace.WithBlocking())
	}
	return opts, env
}

type dSpan struct {
	span    trace.Span
	ctx     context.Context
	sc      trace.SpanContext
	sampled bool
	ended   bool
	start   time.Time
	step    int
	endStep int
	endDesc string
}

func runDelivery(c DCase) ([]vk.Violation, vk.Info) {
	var vs []vk.Violation
	var info vk.Info
	seen := map[string]int{}
	bad := func(kind, format string, a ...any) {
		if seen[kind] < 2 {
			vs = append(vs, vk.V(kind, format, a...))
		}
		seen[kind]++
	}
	if len(c.Procs) == 0 {
		return nil, info
	}
	unit := time.Duration(clampInt(c.UnitMs, 1, 50)) * time.Millisecond
	quarter := unit / 4

	// how many spans the program starts (a non-blocking queue must hold them)
	nstarts := 0
	for _, st := range c.Steps {
		if st.Op == "start" {
			nstarts++
		}
	}

	sampler := &stepSampler{decision: 2}
	opts := []sdktrace.TracerProviderOption{sdktrace.WithResource(resource.Empty()), sdktrace.WithSampler(sampler)}
	exps := make([]*dExporter, len(c.Procs))
	descs := make([]string, len(c.Procs))
	var register []sdktrace.SpanProcessor
	maxTimeoutMs := 0
	scheduled := true // every batch processor has a schedule that comes
	anyBatch := false
	for i, p := range c.Procs {
		e := &dExporter{counts: map[trace.SpanID]int{}, slow: time.Duration(clampInt(p.SlowQuarters, 0, 16)) * quarter, failEvery: p.FailEvery}
		exps[i] = e
		descs[i] = fmt.Sprintf("processor #%d (%s)", i, p.Kind)
		if !p.isBatch() {
			switch {
			case p.Kind == "syncer":
				opts = append(opts, sdktrace.WithSyncer(e))
			case p.Attach == "register":
				register = append(register, sdktrace.NewSimpleSpanProcessor(e))
			default:
				opts = append(opts, sdktrace.WithSpanProcessor(sdktrace.NewSimpleSpanProcessor(e)))
			}
			continue
		}
		anyBatch = true
		tm := p.TimeoutMs
		if tm != hourMs {
			tm = clampInt(tm, 1, 50)
		} else {
			scheduled = false
		}
		if tm != hourMs && tm > maxTimeoutMs {
			maxTimeoutMs = tm
		}
		q := p
		if !q.Blocking && q.MaxQueue >= 0 && q.MaxQueue < nstarts {
			q.MaxQueue = nstarts // hand-edited replay: keep the documented drop out of the case
		}
		bo, env := q.batchConfig(tm)
		descs[i] = fmt.Sprintf("processor #%d (%s, BatchTimeout %dms given by %s, MaxExportBatchSize %d, MaxQueueSize %d, blocking %v; 0 / -1 = not configured)", i, p.Kind, tm, p.Via, q.MaxBatch, q.MaxQueue, q.Blocking)
		withEnv(env, func() {
			switch {
			case p.Kind == "batcher":
				opts = append(opts, sdktrace.WithBatcher(e, bo...))
			case p.Attach == "register":
				register = append(register, sdktrace.NewBatchSpanProcessor(e, bo...))
			default:
				opts = append(opts, sdktrace.WithSpanProcessor(sdktrace.NewBatchSpanProcessor(e, bo...)))
			}
		})
		info.ClassIf(p.Via == "env", "batch:configured_through_OTEL_BSP_*")
		info.ClassIf(p.Blocking, "batch:blocking")
		info.ClassIf(p.MaxBatch > 0 && p.MaxBatch <= 4, "batch:max_export_batch_size<=4")
		info.ClassIf(p.Kind == "batcher", "batch:WithBatcher")
	}
	tp := sdktrace.NewTracerProvider(opts...)
	for _, sp := range register {
		tp.RegisterSpanProcessor(sp)
	}
	shut := false
	defer func() {
		if !shut {
			_ = tp.Shutdown(context.Background())
		}
	}()
	tracer := tp.Tracer("c09.delivery")

	// hang watchdog of one wait for the schedule
	watchdog := 15 * time.Second
	if w := 3000 * time.Duration(maxTimeoutMs) * time.Millisecond; w > watchdog {
		watchdog = w
	}

	var spans []*dSpan
	// missing lists what the exporters should hold by now and do not.
	missing := func() []string {
		var out []string
		for _, sp := range spans {
			if !sp.sampled || !sp.ended {
				continue
			}
			for i, e := range exps {
				if e.count(sp.sc.SpanID()) == 0 {
					out = append(out, fmt.Sprintf("span %s (started at step %d, %s) at the exporter of %s", sp.sc.SpanID(), sp.step, sp.endDesc, descs[i]))
				}
			}
		}
		return out
	}
	gaveUp := false
	// await waits until the processors' own schedule has handed over every
	// sampled span that has ended; nobody calls ForceFlush or Shutdown.
	await := func(si int) {
		if gaveUp || !scheduled {
			return
		}
		begin := time.Now()
		for {
			m := missing()
			if len(m) == 0 {
				return
			}
			if waited := time.Since(begin); waited > watchdog {
				gaveUp = true
				bad("sampled_not_exported_without_flush", "step %d: %d hand-overs are still missing after waiting %v although every batch processor has a BatchTimeout of at most %dms and nobody is obliged to call ForceFlush or Shutdown; first: %s", si, len(m), waited.Round(time.Millisecond), maxTimeoutMs, m[0])
				return
			}
			time.Sleep(200 * time.Microsecond)
		}
	}
	// now: everything that should be there must be there already.
	now := func(si int, after string) {
		if m := missing(); len(m) > 0 {
			bad("sampled_not_exported", "step %d: after %s %d hand-overs are missing; first: %s", si, after, len(m), m[0])
		}
	}
	allSimple := !anyBatch

	idleBeforeEnd, idleQuarters := false, 0
	for si, st := range c.Steps {
		switch st.Op {
		case "idle":
			q := clampInt(st.Quarters, 0, 40)
			time.Sleep(time.Duration(q) * quarter)
			idleQuarters += q
		case "flush":
			if err := tp.ForceFlush(context.Background()); err != nil {
				// A failing exporter makes ForceFlush report its error, and
				// the provider then stops at that processor without flushing
				// the ones behind it. What a ForceFlush that reports an error
				// has achieved is not C09's subject: nothing is asserted at
				// this point, the spans still have to arrive later.
				info.Class("force_flush_reported_an_error(nothing asserted at that point)")
			} else {
				now(si, "ForceFlush returned nil")
			}
			idleQuarters = 0
		case "await":
			await(si)
			info.ClassIf(scheduled && anyBatch, "await:schedule_only_hand_over_mid_program")
			idleQuarters = 0
		case "start":
			ctx := context.Background()
			if st.Child && len(spans) > 0 {
				ctx = spans[((st.Of%len(spans))+len(spans))%len(spans)].ctx
			}
			sampler.decision = st.Decision
			var so []trace.SpanStartOption
			startAt := time.Now()
			if o, ok := st.StartTS.option(startAt); ok {
				so = append(so, o)
				if st.StartTS.Mode == "abs" {
					startAt = time.Unix(0, st.StartTS.N)
				}
			}
			sctx, span := tracer.Start(ctx, "d", so...)
			d := ((st.Decision % 3) + 3) % 3
			rec := &dSpan{span: span, ctx: sctx, sc: span.SpanContext(), sampled: d == 2, start: startAt, step: si}
			if ro, ok := span.(sdktrace.ReadOnlySpan); ok && span.IsRecording() {
				rec.start = ro.StartTime()
			}
			if rec.sc.IsSampled() != rec.sampled {
				bad("sampled_flag_mismatch", "step %d: sampler answered decision %d, span flags %s", si, d, rec.sc.TraceFlags())
			}
			if span.IsRecording() != (d != 0) {
				bad("recording_mismatch", "step %d: sampler answered decision %d, IsRecording() = %v", si, d, span.IsRecording())
			}
			spans = append(spans, rec)
			info.ClassIf(d == 1, "start:record_only")
			info.ClassIf(d == 0, "start:dropped")
		case "end":
			if len(spans) == 0 {
				continue
			}
			sp := spans[((st.Of%len(spans))+len(spans))%len(spans)]
			if sp.ended {
				continue
			}
			var eo []trace.SpanEndOption
			if o, ok := st.EndTS.option(sp.start); ok {
				eo = append(eo, o)
			}
			sp.span.End(eo...)
			sp.ended, sp.endStep = true, si
			sp.endDesc = fmt.Sprintf("ended at step %d", si)
			if ro, ok := sp.span.(sdktrace.ReadOnlySpan); ok && sp.sampled {
				sp.endDesc += fmt.Sprintf(", start time %s, end time %s", ro.StartTime().UTC().Format(time.RFC3339Nano), ro.EndTime().UTC().Format(time.RFC3339Nano))
				info.ClassIf(!ro.EndTime().After(ro.StartTime()), "end:sampled_span_end_time_not_after_start_time")
			}
			if sp.sampled && idleQuarters >= 4 {
				idleBeforeEnd = true
				info.Class("end:sampled_span_after_idle>=1_BatchTimeout")
			}
			info.ClassIf(sp.sampled && idleQuarters >= 8, "end:sampled_span_after_idle>=2_BatchTimeouts")
			if allSimple {
				now(si, "End returned (simple processors only)")
			}
		}
	}

	// ---- the final trigger ----
	switch c.Final {
	case "flush":
		if err := tp.ForceFlush(context.Background()); err == nil {
			now(len(c.Steps), "the final ForceFlush returned nil")
		} else {
			info.Class("force_flush_reported_an_error(nothing asserted at that point)")
		}
	case "shutdown":
		_ = tp.Shutdown(context.Background())
		shut = true
		now(len(c.Steps), "Shutdown returned")
	default:
		if scheduled {
			await(len(c.Steps))
		}
	}
	if !shut {
		_ = tp.Shutdown(context.Background())
		shut = true
	}
	// ---- exactly ----
	for _, sp := range spans {
		want := 0
		if sp.sampled && sp.ended {
			want = 1
		}
		for i, e := range exps {
			n := e.count(sp.sc.SpanID())
			switch {
			case want == 0 && n != 0 && sp.sampled:
				bad("exported_not_ended", "span %s (started at step %d) never ended but reached the exporter of %s %d times", sp.sc.SpanID(), sp.step, descs[i], n)
			case want == 0 && n != 0:
				bad("exported_not_sampled", "span %s (started at step %d, not sampled) reached the exporter of %s %d times", sp.sc.SpanID(), sp.step, descs[i], n)
			case want == 1 && n == 0:
				bad("sampled_not_exported", "span %s (started at step %d, %s) is sampled and did not reach the exporter of %s even after Shutdown", sp.sc.SpanID(), sp.step, sp.endDesc, descs[i])
			case want == 1 && n > 1 && c.Procs[i].FailEvery == 0:
				bad("exported_twice", "span %s (started at step %d, %s) reached the never-failing exporter of %s %d times", sp.sc.SpanID(), sp.step, sp.endDesc, descs[i], n)
			}
		}
	}

	scheduleOnly := c.Final != "flush" && c.Final != "shutdown" && scheduled && anyBatch
	info.NonTrivial = anyBatch && len(spans) > 0
	info.Class("final:" + c.Final)
	info.ClassIf(scheduleOnly, "schedule_is_the_only_trigger_at_the_end")
	info.ClassIf(scheduleOnly && idleBeforeEnd, "schedule_only+sampled_end_after_idle_period")
	info.ClassIf(!scheduled, "batch_timeout_one_hour(flush/shutdown/full batch only)")
	info.ClassIf(len(c.Procs) >= 2, "two_or_more_processors")
	info.ClassIf(allSimple, "simple_processors_only")
	for _, p := range c.Procs {
		info.Class("proc:" + p.Kind + "/" + p.Attach)
		info.ClassIf(p.SlowQuarters > 0, "exporter:slow")
		info.ClassIf(p.FailEvery > 0, "exporter:failing")
	}
	return vs, info
}

func TestDelivery(t *testing.T) {
	vk.Run(t, vk.Spec[DCase]{
		Property: "C09", Check: "delivery",
		Rule: "a provider with 1..3 span processors, each with its own exporter (prompt / slow by 0.25..1.5 BatchTimeouts per call / failing every k-th call): SimpleSpanProcessor, WithSyncer, NewBatchSpanProcessor or WithBatcher (BatchTimeout 1..5 ms, or one hour when the case ends with ForceFlush/Shutdown; MaxExportBatchSize 1..513 or default; MaxQueueSize default or explicit, never smaller than the program's span count unless WithBlocking; ExportTimeout default/0/1ms/30s; numbers given as options or as OTEL_BSP_*; attached by option or RegisterSpanProcessor); " +
			"a program of 2..16 steps {start root/child whose sampler answer (Drop / RecordOnly / RecordAndSample) the step names, optional explicit start timestamp; end a span, optional explicit end timestamp; idle 0.25..3 BatchTimeouts; ForceFlush; await = wait for the processors' own schedule}; final trigger: the schedule alone (60%), ForceFlush or Shutdown; " +
			"every wait for the schedule is polled and bounded only by a hang watchdog of max(15 s, 3000 BatchTimeouts); non-trivial = a batch processor is present and a span is started; distinct = distinct case encodings",
		Quick: 600, Thorough: 8000,
		Gen: genDelivery, Run: runDelivery,
		ShrinkTime: 2 * time.Second,
	})
}
