package c09

// Samplers configured THROUGH THE ENVIRONMENT (OTEL_TRACES_SAMPLER /
// OTEL_TRACES_SAMPLER_ARG, no WithSampler option). The six documented names
// always_on, always_off, traceidratio, parentbased_always_on,
// parentbased_always_off and parentbased_traceidratio denote AlwaysSample,
// NeverSample, TraceIDRatioBased(r), ParentBased(AlwaysSample),
// ParentBased(NeverSample) and ParentBased(TraceIDRatioBased(r)); r is the
// number the argument text denotes. For a text that denotes a number in [0,1]
// the statement's ratio clauses apply to that number whatever its spelling
// (decimal / exponent forms, signs, leading zeros; blanks around name and
// argument and the letter case of the name, which the pinned parser trims /
// folds). Texts that are unparsable, denote NaN or a number outside [0,1], and
// a missing argument belong to C20 (configuration fallbacks): here they are
// only run for "does not panic".

import (
	"os"
	"strconv"
	"strings"
	"sync"

	"go.opentelemetry.io/otel"
	"pgregory.net/rapid"
)

const (
	envSamplerKey    = "OTEL_TRACES_SAMPLER"
	envSamplerArgKey = "OTEL_TRACES_SAMPLER_ARG"
)

// errSink receives what the SDK reports through otel.Handle while a case
// configures a provider from the environment (the default handler would only
// print it). It is installed once for the test binary.
type errSink struct {
	mu   sync.Mutex
	on   bool
	errs []string
}

func (s *errSink) Handle(err error) {
	s.mu.Lock()
	defer s.mu.Unlock()
	if s.on && err != nil && len(s.errs) < 8 {
		s.errs = append(s.errs, err.Error())
	}
}

func (s *errSink) collect(f func()) []string {
	s.mu.Lock()
	s.on, s.errs = true, nil
	s.mu.Unlock()
	defer func() {
		s.mu.Lock()
		s.on = false
		s.mu.Unlock()
	}()
	f()
	s.mu.Lock()
	defer s.mu.Unlock()
	return append([]string(nil), s.errs...)
}

var sink = &errSink{}

func init() { otel.SetErrorHandler(sink) }

// withSamplerEnv runs f with the two variables set (arg == nil: unset) and
// restores the previous environment; it returns what the SDK reported through
// the global error handler meanwhile. Cases run sequentially in one process.
func withSamplerEnv(name string, arg *string, f func()) []string {
	type saved struct {
		v  string
		ok bool
	}
	old := map[string]saved{}
	for _, k := range []string{envSamplerKey, envSamplerArgKey} {
		v, ok := os.LookupEnv(k)
		old[k] = saved{v, ok}
	}
	defer func() {
		for k, s := range old {
			if s.ok {
				_ = os.Setenv(k, s.v)
			} else {
				_ = os.Unsetenv(k)
			}
		}
	}()
	_ = os.Setenv(envSamplerKey, name)
	if arg != nil {
		_ = os.Setenv(envSamplerArgKey, *arg)
	} else {
		_ = os.Unsetenv(envSamplerArgKey)
	}
	return sink.collect(f)
}

// denotedRatio is the number an argument text denotes; ok only when it is a
// number in [0,1] (the domain this property speaks about).
func denotedRatio(arg string) (float64, bool) {
	v, err := strconv.ParseFloat(strings.TrimSpace(arg), 64)
	if err != nil || !(v >= 0 && v <= 1) {
		return v, false
	}
	return v, true
}

func canonName(s string) string { return strings.ToLower(strings.TrimSpace(s)) }

// styleName spells a sampler name: 0 canonical, 1 upper case, 2 mixed case,
// 3 blanks around, 4 blanks + upper case.
func styleName(base string, style int) string {
	switch ((style % 5) + 5) % 5 {
	case 1:
		return strings.ToUpper(base)
	case 2:
		b := []byte(base)
		for i := 0; i < len(b); i += 2 {
			b[i] = strings.ToUpper(string(b[i]))[0]
		}
		return string(b)
	case 3:
		return "  " + base + "\t"
	case 4:
		return "\t" + strings.ToUpper(base) + " "
	}
	return base
}

func genNameStyle(t *rapid.T, label string) int {
	return rapid.SampledFrom([]int{0, 0, 0, 0, 1, 2, 3, 4}).Draw(t, label)
}

var zeroSpellings = []string{"0", "0.0", "0e0", "-0", "-0.0", "0.", ".0", "00", "0E+00", "+0", "0.000", "-0e-5", "1e-400"}
var oneSpellings = []string{"1", "1.0", "1e0", "01", "1.", "10e-1", "0.1e1", "+1", "1.000", "1E0", "100e-2"}

// genRatioText spells r (a finite number): for 0 and 1 one of the listed
// forms, otherwise strconv's shortest exact 'g' / 'e' / 'f' / 'G' / 'E'
// rendering, optionally with an explicit plus sign or a leading zero, and
// optionally with blanks around.
func genRatioText(t *rapid.T, r float64, label string) string {
	var s string
	switch {
	case r == 0:
		s = rapid.SampledFrom(zeroSpellings).Draw(t, label+"_zero")
	case r == 1:
		s = rapid.SampledFrom(oneSpellings).Draw(t, label+"_one")
	default:
		f := rapid.SampledFrom([]byte{'g', 'f', 'e', 'G', 'E'}).Draw(t, label+"_fmt")
		s = strconv.FormatFloat(r, f, -1, 64)
		switch rapid.IntRange(0, 5).Draw(t, label+"_deco") {
		case 4:
			if r > 0 {
				s = "+" + s
			}
		case 5:
			if r > 0 {
				s = "0" + s
			}
		}
	}
	switch rapid.IntRange(0, 7).Draw(t, label+"_blank") {
	case 4:
		s = " " + s
	case 5:
		s = s + " "
	case 6:
		s = "  " + s + "\t"
	case 7:
		s = "\t" + s + " \n"
	}
	return s
}

// notAssertedArgs are argument texts outside this property's domain.
var notAssertedArgs = []string{"-0.5", "2", "1.0000000000000002", "-1e-300", "abc", "", "NaN", "1e400", "Inf", "-Inf", "0,5", "0.5f", "50%"}

// genEnvRatio draws a ratio for an environment-configured sampler, with the
// end points over-represented.
func genEnvRatio(t *rapid.T, label string) float64 {
	switch rapid.IntRange(0, 9).Draw(t, label+"_class") {
	case 0, 1, 2:
		return 0
	case 3:
		return 1
	case 4:
		return 0.5
	}
	for i := 0; i < 4; i++ {
		if r := float64(genRatio(t, false, label)); r >= 0 && r <= 1 {
			return r
		}
	}
	return 0.25
}
