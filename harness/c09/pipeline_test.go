package c09

import (
	"context"
	"errors"
	"fmt"
	"io"
	"math"
	rtrace "runtime/trace"
	"strings"
	"sync"
	"testing"
	"time"

	"go.opentelemetry.io/otel/attribute"
	"go.opentelemetry.io/otel/codes"
	"go.opentelemetry.io/otel/sdk/resource"
	sdktrace "go.opentelemetry.io/otel/sdk/trace"
	"go.opentelemetry.io/otel/trace"
	"go.opentelemetry.io/otel/verif/internal/vk"
	"pgregory.net/rapid"
)

// ---------------------------------------------------------------------
// the case

// Script is one scripted answer of a custom sampler.
type Script struct {
	Decision int        `json:"decision"` // 0 Drop, 1 RecordOnly, 2 RecordAndSample
	Attrs    []vk.KV    `json:"attrs,omitempty"`
	TSMode   string     `json:"ts_mode"` // parent | replace | empty
	TS       []TSMember `json:"ts,omitempty"`
}

// Node is one node of the sampler grammar.
type Node struct {
	Kind   string   `json:"kind"` // always | never | ratio | scripted | parent | default (top level only: no WithSampler)
	Ratio  vk.F64   `json:"ratio"`
	Script []Script `json:"script,omitempty"`
	Root   *Node    `json:"root,omitempty"`
	RS     *Node    `json:"remote_sampled,omitempty"`
	RN     *Node    `json:"remote_not_sampled,omitempty"`
	LS     *Node    `json:"local_sampled,omitempty"`
	LN     *Node    `json:"local_not_sampled,omitempty"`
}

// Step is one step of the span-tree program.
type Step struct {
	Op      string  `json:"op"` // root | child | ctx | end
	Of      int     `json:"of"` // child: parent span index; end: span index (both modulo the spans started so far)
	PSC     SC      `json:"psc"`
	NewRoot bool    `json:"new_root,omitempty"`
	Name    string  `json:"name,omitempty"`
	Kind    int     `json:"kind,omitempty"`
	Attrs   []vk.KV `json:"attrs,omitempty"`
	Links   []SC    `json:"links,omitempty"`
	// ViaSpan (child only): the tracer is obtained from the PARENT SPAN
	// (trace.SpanFromContext(ctx).TracerProvider().Tracer(...)) instead of from
	// the provider - the usual way of instrumentation that was only handed a
	// context. Every span the SDK hands out, recording or dropped, leads back
	// to the SDK's provider.
	ViaSpan bool `json:"via_span,omitempty"`
	// PopTID (ctx only): the supplied parent's trace ID was made like the custom
	// generator's (pseudo-random trailing half, leading half of shape IDHi):
	// a trace started elsewhere by a system with that kind of IDs.
	PopTID bool `json:"pop_tid,omitempty"`
	// StartTS (start steps) / EndTS (end steps): an explicit timestamp handed
	// to Start / End through trace.WithTimestamp. The statement's coupling of
	// decision and export holds for every started span, whatever times its
	// caller claims for it (instantaneous spans, replayed spans with skewed
	// clocks, an end before the start).
	StartTS TSpec `json:"start_ts"`
	EndTS   TSpec `json:"end_ts"`
	// Muts (end steps): what the program does to the span right before it
	// ends it (see applyMut); EndStack: End(WithStackTrace(true)).
	Muts     []string `json:"muts,omitempty"`
	EndStack bool     `json:"end_stack,omitempty"`
}

// TSpec is a caller-supplied timestamp as data.
//
//	""     none (the SDK reads the clock)
//	"abs"  time.Unix(0, N)
//	"zero" the zero time.Time, passed explicitly (documented as "not set")
//	"now"  (start) time.Now() + N nanoseconds
//	"rel"  (end) the span's start time + N nanoseconds
type TSpec struct {
	Mode string `json:"mode,omitempty"`
	N    int64  `json:"n,omitempty"`
}

var absNanos = []int64{0, 1, -1, 1_000_000_000_000_000_000, 1_715_947_200_000_000_000, 4_102_444_800_000_000_000, math.MaxInt64, math.MinInt64}
var relNanos = []int64{0, 0, 0, 1, -1, 1000, -1000, 1_000_000_000, -1_000_000_000, 3_600_000_000_000, -3_600_000_000_000}

func genTSpec(t *rapid.T, modes []string, label string) TSpec {
	ts := TSpec{Mode: rapid.SampledFrom(modes).Draw(t, label+"_mode")}
	switch ts.Mode {
	case "abs":
		if rapid.Bool().Draw(t, label+"_abs_table") {
			ts.N = rapid.SampledFrom(absNanos).Draw(t, label+"_abs")
		} else {
			ts.N = rapid.Int64().Draw(t, label+"_abs_any")
		}
	case "now", "rel":
		if rapid.IntRange(0, 3).Draw(t, label+"_rel_table") > 0 {
			ts.N = rapid.SampledFrom(relNanos).Draw(t, label+"_rel")
		} else {
			ts.N = rapid.Int64Range(-4_000_000_000_000, 4_000_000_000_000).Draw(t, label+"_rel_any")
		}
	}
	return ts
}

var startTSModes = []string{"", "", "", "", "", "abs", "abs", "now", "zero"}
var endTSModes = []string{"", "", "", "", "rel", "rel", "rel", "abs", "zero"}

// option turns the spec into the WithTimestamp option (nil: none given).
func (ts TSpec) option(spanStart time.Time) (trace.SpanEventOption, bool) {
	switch ts.Mode {
	case "abs":
		return trace.WithTimestamp(time.Unix(0, ts.N)), true
	case "zero":
		return trace.WithTimestamp(time.Time{}), true
	case "now":
		return trace.WithTimestamp(time.Now().Add(time.Duration(ts.N))), true
	case "rel":
		return trace.WithTimestamp(spanStart.Add(time.Duration(ts.N))), true
	}
	return nil, false
}

// PipeCase is one generated input of the pipeline check.
type PipeCase struct {
	Sampler Node `json:"sampler"`
	SeqIDs  bool `json:"seq_ids"` // custom sequential IDGenerator instead of the default one
	// IDHi: what the leading eight bytes of the custom generator's trace IDs
	// hold (zero padding, constant, epoch prefix, ...; "" = the constant seqHi);
	// the trailing eight bytes are a bijective hash of a counter. Supplied
	// parents with PopTID carry trace IDs of the same make.
	IDHi    HiShape `json:"id_hi"`
	TIDSeed uint64  `json:"tid_seed"`
	SIDSeed uint64  `json:"sid_seed"`
	Syncer  bool    `json:"syncer"` // WithSyncer(exp) instead of WithSpanProcessor(NewSimpleSpanProcessor(exp))
	// Batch: 0 = simple processor (or syncer), 1 = BatchSpanProcessor, 2 =
	// BatchSpanProcessor WithBlocking(); the harness calls ForceFlush before it
	// looks at the exporter, so "reaches exporters exactly when sampled" is
	// judged the same way for every stock processor.
	Batch int    `json:"batch,omitempty"`
	Steps []Step `json:"steps"`
	// ExecTrace: the Go execution tracer (runtime/trace) runs while the
	// program does; the SDK then attaches a runtime/trace task to every span.
	ExecTrace bool `json:"exec_trace,omitempty"`
	// EnvSampler: the sampler tree (which must be one of always, never,
	// ratio, parent{root: always|never|ratio} without options) is configured
	// through OTEL_TRACES_SAMPLER / OTEL_TRACES_SAMPLER_ARG instead of
	// WithSampler. EnvArg is the argument text (ratio trees only); the ratio it
	// denotes replaces the tree's ratio in the reference.
	EnvSampler   bool   `json:"env_sampler,omitempty"`
	EnvNameStyle int    `json:"env_name_style,omitempty"`
	EnvArg       string `json:"env_arg,omitempty"`
}

// expressible reports the environment name of a sampler tree and the ratio
// node the argument belongs to (nil when the name takes no argument).
func expressible(n *Node) (base string, ratio *Node, ok bool) {
	leaf := func(m *Node) (string, *Node, bool) {
		switch m.Kind {
		case "always":
			return "always_on", nil, true
		case "never":
			return "always_off", nil, true
		case "ratio":
			return "traceidratio", m, true
		}
		return "", nil, false
	}
	if n.Kind == "parent" {
		if n.Root == nil || n.RS != nil || n.RN != nil || n.LS != nil || n.LN != nil {
			return "", nil, false
		}
		b, r, ok := leaf(n.Root)
		return "parentbased_" + b, r, ok
	}
	return leaf(n)
}

func genExpressible(t *rapid.T) Node {
	leaf := Node{Kind: rapid.SampledFrom([]string{"ratio", "ratio", "ratio", "always", "never"}).Draw(t, "env_leaf")}
	if leaf.Kind == "ratio" {
		leaf.Ratio = vk.F64(genEnvRatio(t, "env_ratio"))
	}
	if rapid.Bool().Draw(t, "env_parentbased") {
		return Node{Kind: "parent", Root: &leaf}
	}
	return leaf
}

// ---------------------------------------------------------------------
// generator

var pipeRatios = []float64{0, 0.5, 0.5, 0.25, 0.75, 1, -1, 2, 1e-9, 0x1p-62, 1 - 0x1p-20}

var samplerAttrOpts = vk.KVOpts{Keys: []string{"s.a", "s.b", "s.c"}, NaN: true, MaxSlice: 2, MaxTextParts: 3}
var startAttrOpts = vk.KVOpts{Keys: []string{"a.k1", "a.k2", "a.k3"}, EmptyKey: true, Invalid: true, NaN: true, MaxSlice: 2, MaxTextParts: 3}

func genScript(t *rapid.T) []Script {
	n := rapid.IntRange(1, 6).Draw(t, "script_len")
	out := make([]Script, n)
	for i := range out {
		s := Script{Decision: rapid.IntRange(0, 2).Draw(t, "decision")}
		s.Attrs = vk.GenKVs(samplerAttrOpts, 3, 0, 1).Draw(t, "sattrs")
		s.TSMode = rapid.SampledFrom([]string{"parent", "parent", "replace", "replace", "empty"}).Draw(t, "ts_mode")
		if s.TSMode == "replace" {
			s.TS = genTS(t, 3, "sts")
		}
		out[i] = s
	}
	return out
}

func genNode(t *rapid.T, depth int, top bool) Node {
	// (rapid favours the front of the list)
	var kinds []string
	if top {
		kinds = append(kinds, "parent", "parent", "parent", "scripted")
	}
	if depth < 2 {
		kinds = append(kinds, "parent", "parent")
	}
	kinds = append(kinds, "scripted", "scripted", "ratio", "ratio", "always", "never")
	if top {
		kinds = append(kinds, "default")
	}
	n := Node{Kind: rapid.SampledFrom(kinds).Draw(t, "skind")}
	switch n.Kind {
	case "ratio":
		if rapid.Bool().Draw(t, "ratio_table") {
			n.Ratio = vk.F64(rapid.SampledFrom(pipeRatios).Draw(t, "ratio"))
		} else {
			n.Ratio = vk.F64(rapid.Float64Range(0, 1).Draw(t, "ratio_f"))
		}
	case "scripted":
		n.Script = genScript(t)
	case "parent":
		root := genNode(t, depth+1, false)
		n.Root = &root
		if rapid.IntRange(0, 2).Draw(t, "with_options") > 0 {
			for _, slot := range []**Node{&n.RS, &n.RN, &n.LS, &n.LN} {
				if rapid.Bool().Draw(t, "opt_present") {
					c := genNode(t, depth+1, false)
					*slot = &c
				}
			}
		}
	}
	return n
}

func genStartFields(t *rapid.T, s *Step) {
	s.NewRoot = rapid.IntRange(0, 7).Draw(t, "new_root") == 7
	s.Name = rapid.SampledFrom([]string{"op", "", "GET /x", "child", "名前"}).Draw(t, "name")
	s.Kind = rapid.SampledFrom([]int{0, 0, 1, 2, 3, 4, 5, -1, 9}).Draw(t, "kind")
	s.Attrs = vk.GenKVs(startAttrOpts, 3, 0, 0, 1).Draw(t, "attrs")
	if rapid.IntRange(0, 5).Draw(t, "has_link") == 5 {
		s.Links = []SC{genSC(t, "link")}
	}
	s.StartTS = genTSpec(t, startTSModes, "start_ts")
}

var spanMuts = []string{"status_error", "status_ok", "status_unset", "name_empty", "name", "event", "record_error", "attrs", "link"}

func genEndFields(t *rapid.T, s *Step) {
	s.EndTS = genTSpec(t, endTSModes, "end_ts")
	if rapid.IntRange(0, 2).Draw(t, "has_muts") == 0 {
		s.Muts = rapid.SliceOfN(rapid.SampledFrom(spanMuts), 1, 3).Draw(t, "muts")
	}
	s.EndStack = rapid.IntRange(0, 7).Draw(t, "end_stack") == 0
}

// applyMut is what instrumentation does to a span between Start and End;
// none of it changes the sampling decision, so none of it may change whether
// the span reaches the exporters.
func applyMut(sp trace.Span, m string) {
	switch m {
	case "status_error":
		sp.SetStatus(codes.Error, "boom")
	case "status_ok":
		sp.SetStatus(codes.Ok, "")
	case "status_unset":
		sp.SetStatus(codes.Unset, "ignored")
	case "name_empty":
		sp.SetName("")
	case "name":
		sp.SetName("renamed")
	case "event":
		sp.AddEvent("ev", trace.WithAttributes(attribute.Int("i", 1)))
	case "record_error":
		sp.RecordError(errors.New("recorded"), trace.WithStackTrace(true))
	case "attrs":
		sp.SetAttributes(attribute.String("m.k", "v"), attribute.Bool("m.b", true))
	case "link":
		sp.AddLink(trace.Link{SpanContext: sp.SpanContext()})
	}
}

func genPipe(t *rapid.T) PipeCase {
	c := PipeCase{}
	envPref := rapid.IntRange(0, 5).Draw(t, "env_pref") == 5
	if envPref {
		c.Sampler = genExpressible(t)
	} else {
		c.Sampler = genNode(t, 0, true)
	}
	if _, rn, ok := expressible(&c.Sampler); ok && (envPref || rapid.Bool().Draw(t, "env_sampler")) {
		c.EnvSampler = true
		c.EnvNameStyle = genNameStyle(t, "env_name_style")
		if rn != nil {
			r := float64(rn.Ratio)
			switch {
			case math.IsNaN(r) || math.IsInf(r, 0):
				c.EnvArg = rapid.SampledFrom(notAssertedArgs).Draw(t, "env_other_arg")
			case rapid.IntRange(0, 15).Draw(t, "env_outside_domain") == 15:
				c.EnvArg = rapid.SampledFrom(notAssertedArgs).Draw(t, "env_other_arg")
			default:
				c.EnvArg = genRatioText(t, r, "env_arg") // out-of-range ratios of the tree stay out of range
			}
		}
	}
	c.SeqIDs = rapid.IntRange(0, 9).Draw(t, "seq_ids") < 6
	c.IDHi = genHiShape(t, "id_hi")
	c.TIDSeed = rapid.Uint64().Draw(t, "tid_seed")
	c.SIDSeed = rapid.Uint64().Draw(t, "sid_seed")
	c.Syncer = rapid.Bool().Draw(t, "syncer")
	c.Batch = rapid.SampledFrom([]int{0, 0, 1, 2}).Draw(t, "batch")
	c.ExecTrace = rapid.IntRange(0, 4).Draw(t, "exec_trace") == 0

	pool := []string{genTIDHex(t, false, "pool0"), genTIDHex(t, false, "pool1"), genTIDHex(t, false, "pool2")}
	n := rapid.IntRange(1, 40).Draw(t, "nsteps")
	// now and then a long program with many traces (the share of a ratio
	// sampler deciding them becomes judgeable within the case)
	big := rapid.IntRange(0, 9).Draw(t, "big_program") == 0
	if big {
		n = rapid.IntRange(41, 400).Draw(t, "nsteps_big")
	}
	started := 0
	for i := 0; i < n; i++ {
		ops := []string{"root", "root", "ctx", "ctx", "ctx"}
		if started > 0 {
			ops = append(ops, "child", "child", "child", "child", "child", "end", "end", "end")
		}
		if big {
			ops = append([]string{"root", "root", "root", "root", "root", "root", "ctx", "ctx", "ctx", "ctx"}, ops...)
		}
		s := Step{Op: rapid.SampledFrom(ops).Draw(t, "op")}
		switch s.Op {
		case "root":
			genStartFields(t, &s)
			started++
		case "child":
			// bias towards the most recent spans: deeper trees
			if rapid.Bool().Draw(t, "recent") {
				s.Of = started - 1 - rapid.IntRange(0, min(2, started-1)).Draw(t, "back")
			} else {
				s.Of = rapid.IntRange(0, started-1).Draw(t, "of")
			}
			genStartFields(t, &s)
			s.ViaSpan = rapid.IntRange(0, 3).Draw(t, "via_span") == 0
			started++
		case "ctx":
			psc := SC{
				Flags:  rapid.SampledFrom(flagChoices).Draw(t, "pflags"),
				TS:     genTS(t, 3, "pts"),
				Remote: rapid.IntRange(0, 4).Draw(t, "premote") > 0,
			}
			switch k := rapid.IntRange(0, 9).Draw(t, "ptid"); {
			case k == 9:
				psc.TID = tidHex(0, 0)
			case k <= 2 || (big && k <= 5):
				tid := popTID(c.IDHi, ^c.TIDSeed, i)
				psc.TID = tidHex(tidHi(tid), tidLo(tid))
				s.PopTID = true
			case k >= 7:
				psc.TID = genTIDHex(t, false, "ptid_new")
			default:
				psc.TID = rapid.SampledFrom(pool).Draw(t, "ptid_pool")
			}
			if rapid.IntRange(0, 6).Draw(t, "psid_zero") == 6 {
				psc.SID = sidHex(0)
			} else {
				psc.SID = sidHex(splitmix64(rapid.Uint64().Draw(t, "psid")) | 1)
			}
			s.PSC = psc
			genStartFields(t, &s)
			started++
		case "end":
			s.Of = rapid.IntRange(0, started-1).Draw(t, "end_of")
			genEndFields(t, &s)
		}
		c.Steps = append(c.Steps, s)
	}
	return c
}

// ---------------------------------------------------------------------
// the instrumented sampler tree

type probeRec struct {
	node int
	p    sdktrace.SamplingParameters
	res  sdktrace.SamplingResult
}

type pipeRun struct {
	log    []probeRec
	nextID int
}

// probe is the recording decorator: it stores, per ShouldSample call, the
// parameters and the result of the sampler it wraps. Inner samplers return
// (and are logged) before outer ones.
type probe struct {
	r     *pipeRun
	id    int
	inner sdktrace.Sampler
}

func (p *probe) ShouldSample(sp sdktrace.SamplingParameters) sdktrace.SamplingResult {
	res := p.inner.ShouldSample(sp)
	p.r.log = append(p.r.log, probeRec{node: p.id, p: sp, res: res})
	return res
}

func (p *probe) Description() string { return fmt.Sprintf("probe#%d{%s}", p.id, p.inner.Description()) }

// scripted is the custom sampler of the grammar: its k-th call answers
// script[k mod len].
type scripted struct {
	script []Script
	calls  int
}

func (s *scripted) ShouldSample(sp sdktrace.SamplingParameters) sdktrace.SamplingResult {
	st := s.script[s.calls%len(s.script)]
	s.calls++
	res := sdktrace.SamplingResult{Attributes: vk.ToAttrs(st.Attrs)}
	switch ((st.Decision % 3) + 3) % 3 {
	case 0:
		res.Decision = sdktrace.Drop
	case 1:
		res.Decision = sdktrace.RecordOnly
	default:
		res.Decision = sdktrace.RecordAndSample
	}
	switch st.TSMode {
	case "replace":
		res.Tracestate = buildTS(st.TS)
	case "empty":
	default:
		res.Tracestate = trace.SpanContextFromContext(sp.ParentContext).TraceState()
	}
	return res
}

func (s *scripted) Description() string { return "Scripted" }

type cnode struct {
	id             int
	kind           string
	ratio          float64
	root           *cnode
	rs, rn, ls, ln *cnode
	sampler        sdktrace.Sampler
}

func (r *pipeRun) compile(n *Node) *cnode {
	c := &cnode{id: r.nextID, kind: n.Kind, ratio: float64(n.Ratio)}
	r.nextID++
	var inner sdktrace.Sampler
	switch n.Kind {
	case "never":
		inner = sdktrace.NeverSample()
	case "ratio":
		inner = sdktrace.TraceIDRatioBased(c.ratio)
	case "scripted":
		sc := n.Script
		if len(sc) == 0 {
			sc = []Script{{Decision: 2, TSMode: "parent"}}
		}
		inner = &scripted{script: sc}
	case "parent":
		rn := n.Root
		if rn == nil {
			rn = &Node{Kind: "always"}
		}
		c.root = r.compile(rn)
		var opts []sdktrace.ParentBasedSamplerOption
		if n.RS != nil {
			c.rs = r.compile(n.RS)
			opts = append(opts, sdktrace.WithRemoteParentSampled(c.rs.sampler))
		}
		if n.RN != nil {
			c.rn = r.compile(n.RN)
			opts = append(opts, sdktrace.WithRemoteParentNotSampled(c.rn.sampler))
		}
		if n.LS != nil {
			c.ls = r.compile(n.LS)
			opts = append(opts, sdktrace.WithLocalParentSampled(c.ls.sampler))
		}
		if n.LN != nil {
			c.ln = r.compile(n.LN)
			opts = append(opts, sdktrace.WithLocalParentNotSampled(c.ln.sampler))
		}
		inner = sdktrace.ParentBased(c.root.sampler, opts...)
	default: // always (and a misplaced "default")
		c.kind = "always"
		inner = sdktrace.AlwaysSample()
	}
	c.sampler = &probe{r: r, id: c.id, inner: inner}
	return c
}

// expectation is what the documented composition rules say about one call.
type expectation struct {
	path     []int  // probed nodes from the top down to the deciding one
	leaf     *cnode // deciding explicit node, nil when a ParentBased default decides
	implicit int    // when leaf == nil: the decision the ParentBased default gives
	slot     string // which ParentBased case applied last ("" for non-ParentBased tops)
}

func scValid(sc trace.SpanContext) bool {
	return sc.TraceID() != (trace.TraceID{}) && sc.SpanID() != (trace.SpanID{})
}

// model walks the tree the way the ParentBased documentation describes: no
// (valid) parent -> root; otherwise remote/local x sampled/not sampled, with
// AlwaysSample / NeverSample where no option was given.
func (c *cnode) model(psc trace.SpanContext, e *expectation) {
	e.path = append(e.path, c.id)
	if c.kind != "parent" {
		e.leaf = c
		return
	}
	if !scValid(psc) {
		e.slot = "root"
		c.root.model(psc, e)
		return
	}
	sampled := psc.TraceFlags()&trace.FlagsSampled != 0
	var next *cnode
	switch {
	case psc.IsRemote() && sampled:
		e.slot, next, e.implicit = "remote_sampled", c.rs, 2
	case psc.IsRemote():
		e.slot, next, e.implicit = "remote_not_sampled", c.rn, 0
	case sampled:
		e.slot, next, e.implicit = "local_sampled", c.ls, 2
	default:
		e.slot, next, e.implicit = "local_not_sampled", c.ln, 0
	}
	if next == nil {
		e.leaf = nil
		return
	}
	next.model(psc, e)
}

// ---------------------------------------------------------------------
// ID generator and exporter

const seqHi = 0x5e9c0900c09c095e

// seqGen is the optional custom IDGenerator: IDs are a bijective hash of a
// counter, so they never repeat within a run.
type seqGen struct {
	mu               sync.Mutex
	hi               HiShape
	tidSeed, sidSeed uint64
	nt, ns           uint64
}

func (g *seqGen) nextSID() trace.SpanID {
	for {
		g.ns++
		if x := splitmix64(g.sidSeed + g.ns); x != 0 {
			return sidFromU64(x)
		}
	}
}

func (g *seqGen) NewIDs(context.Context) (trace.TraceID, trace.SpanID) {
	g.mu.Lock()
	defer g.mu.Unlock()
	g.nt++
	return g.tid(g.nt), g.nextSID()
}

// tid is the k-th trace ID the generator hands out.
func (g *seqGen) tid(k uint64) trace.TraceID {
	if g.hi.Style == "" {
		return tidFromHalves(seqHi, splitmix64(g.tidSeed+k))
	}
	return popTID(g.hi, g.tidSeed, int(k))
}

func (g *seqGen) NewSpanID(context.Context, trace.TraceID) trace.SpanID {
	g.mu.Lock()
	defer g.mu.Unlock()
	return g.nextSID()
}

type memExporter struct {
	mu    sync.Mutex
	spans []sdktrace.ReadOnlySpan
}

func (e *memExporter) ExportSpans(_ context.Context, ss []sdktrace.ReadOnlySpan) error {
	e.mu.Lock()
	defer e.mu.Unlock()
	e.spans = append(e.spans, ss...)
	return nil
}

func (e *memExporter) Shutdown(context.Context) error { return nil }

func (e *memExporter) bySpanID(id trace.SpanID) []sdktrace.ReadOnlySpan {
	e.mu.Lock()
	defer e.mu.Unlock()
	var out []sdktrace.ReadOnlySpan
	for _, s := range e.spans {
		if s.SpanContext().SpanID() == id {
			out = append(out, s)
		}
	}
	return out
}

// ---------------------------------------------------------------------
// run + oracle

type spanRec struct {
	span     trace.Span
	ctx      context.Context
	sc       trace.SpanContext
	psc      trace.SpanContext // expected parent span context (zero for roots / WithNewRoot)
	decision int               // -1 unknown
	sampled  bool              // what "sampled" means for the export clause
	ended    bool
	attrs    []attribute.KeyValue // sampler-provided
	depth    int
	start    time.Time // the span's start time as far as the harness knows it
	how      string    // how it ended (for messages)
}

func decisionName(d sdktrace.SamplingDecision) string {
	switch d {
	case sdktrace.Drop:
		return "Drop"
	case sdktrace.RecordOnly:
		return "RecordOnly"
	case sdktrace.RecordAndSample:
		return "RecordAndSample"
	}
	return fmt.Sprintf("Decision(%d)", d)
}

func sameResult(a, b sdktrace.SamplingResult) bool {
	if a.Decision != b.Decision || a.Tracestate.String() != b.Tracestate.String() || len(a.Attributes) != len(b.Attributes) {
		return false
	}
	for i := range a.Attributes {
		if a.Attributes[i].Key != b.Attributes[i].Key || vk.ValueKey(a.Attributes[i].Value) != vk.ValueKey(b.Attributes[i].Value) {
			return false
		}
	}
	return true
}

func describeParent(psc trace.SpanContext, newRoot bool) string {
	switch {
	case newRoot:
		return "WithNewRoot"
	case psc.TraceID() == (trace.TraceID{}) && psc.SpanID() == (trace.SpanID{}) && psc.TraceFlags() == 0 && psc.TraceState().Len() == 0:
		return "no parent"
	}
	k := "local"
	if psc.IsRemote() {
		k = "remote"
	}
	v := "valid"
	if !scValid(psc) {
		v = "invalid"
	}
	return fmt.Sprintf("%s %s parent %s-%s flags %s tracestate %q", v, k, psc.TraceID(), psc.SpanID(), psc.TraceFlags(), psc.TraceState().String())
}

func runPipe(c PipeCase) ([]vk.Violation, vk.Info) {
	var vs []vk.Violation
	var info vk.Info
	seenKind := map[string]int{}
	bad := func(kind, format string, a ...any) {
		if seenKind[kind] < 2 {
			vs = append(vs, vk.V(kind, format, a...))
		}
		seenKind[kind]++
	}

	if c.ExecTrace {
		if err := rtrace.Start(io.Discard); err == nil {
			defer rtrace.Stop()
		}
	}
	info.ClassIf(c.ExecTrace, "go_execution_tracer_running")
	r := &pipeRun{}
	exp := &memExporter{}
	opts := []sdktrace.TracerProviderOption{sdktrace.WithResource(resource.Empty())}
	var top *cnode
	// envMode: the provider reads its sampler from the environment; the
	// compiled tree is then only the REFERENCE (asked by the harness about
	// every started span) and is not installed.
	envMode, envAsserted, envHow, envName := false, false, "", ""
	var envArg *string
	samplerTree := c.Sampler
	if c.EnvSampler {
		if base, rn, ok := expressible(&c.Sampler); ok {
			envMode, envAsserted = true, true
			envName = styleName(base, c.EnvNameStyle)
			envHow = fmt.Sprintf("%s=%q", envSamplerKey, envName)
			if rn != nil {
				a := c.EnvArg
				envArg = &a
				envHow += fmt.Sprintf(" %s=%q", envSamplerArgKey, a)
				if v, ok := denotedRatio(a); ok {
					// the reference uses the ratio the text denotes
					leaf := Node{Kind: "ratio", Ratio: vk.F64(v)}
					if samplerTree.Kind == "parent" {
						samplerTree = Node{Kind: "parent", Root: &leaf}
					} else {
						samplerTree = leaf
					}
					envHow += fmt.Sprintf(" (denotes %v)", v)
					info.ClassIf(v == 0, "env:ratio_zero")
					info.ClassIf(v == 1, "env:ratio_one")
					info.ClassIf(v > 0 && v < 1, "env:ratio_interior")
				} else {
					envAsserted = false // unparsable / NaN / outside [0,1]: C20's business
				}
			}
			info.Class("env:" + base)
			info.ClassIf(!envAsserted, "env:arg_outside_domain(no panic only)")
			info.ClassIf(envName != base || (envArg != nil && strings.TrimSpace(*envArg) != *envArg), "env:blanks_or_case_in_spelling")
		}
	}
	if c.Sampler.Kind != "default" {
		top = r.compile(&samplerTree)
		if !envMode {
			opts = append(opts, sdktrace.WithSampler(top.sampler))
		}
	}
	switch {
	case c.Batch == 1:
		opts = append(opts, sdktrace.WithSpanProcessor(sdktrace.NewBatchSpanProcessor(exp, sdktrace.WithBatchTimeout(time.Hour))))
	case c.Batch == 2:
		opts = append(opts, sdktrace.WithSpanProcessor(sdktrace.NewBatchSpanProcessor(exp, sdktrace.WithBatchTimeout(time.Hour), sdktrace.WithBlocking())))
	case c.Syncer:
		opts = append(opts, sdktrace.WithSyncer(exp))
	default:
		opts = append(opts, sdktrace.WithSpanProcessor(sdktrace.NewSimpleSpanProcessor(exp)))
	}
	// the trace IDs the custom generator can hand out in this run: supplied
	// parents must not carry one of them (they would not be "fresh" later)
	genTIDs := map[trace.TraceID]bool{}
	if c.SeqIDs {
		g := &seqGen{hi: c.IDHi, tidSeed: c.TIDSeed, sidSeed: c.SIDSeed}
		opts = append(opts, sdktrace.WithIDGenerator(g))
		for k := 1; k <= len(c.Steps)+1; k++ {
			genTIDs[g.tid(uint64(k))] = true
		}
	}
	procName := "simple"
	switch {
	case c.Batch == 1:
		procName = "batch (flushed)"
	case c.Batch == 2:
		procName = "batch, blocking (flushed)"
	case c.Syncer:
		procName = "simple (WithSyncer)"
	}
	var tp *sdktrace.TracerProvider
	if envMode {
		if reported := withSamplerEnv(envName, envArg, func() { tp = sdktrace.NewTracerProvider(opts...) }); len(reported) > 0 {
			envHow += fmt.Sprintf(" (SDK reported %q)", reported)
		}
	} else {
		tp = sdktrace.NewTracerProvider(opts...)
	}
	defer func() { _ = tp.Shutdown(context.Background()) }()
	tracer := tp.Tracer("c09")
	ends := 0
	flush := func() {
		if c.Batch != 0 {
			_ = tp.ForceFlush(context.Background())
		}
	}

	var spans []*spanRec
	spanIDs := map[trace.SpanID]int{}
	seenTIDs := map[trace.TraceID]bool{}
	type ratioObs struct {
		r       float64
		sampled bool
	}
	ratioSeen := map[trace.TraceID][]ratioObs{}
	// shareSeen: per ratio r (float bits) the traces a TraceIDRatioBased(r)
	// leaf decided whose trace IDs have a pseudo-random trailing half by
	// construction (custom generator, PopTID parents) -> the span's sampled flag
	shareSeen := map[uint64]map[trace.TraceID]bool{}
	decisions := map[int]bool{}
	hasEdge := false

	for si, st := range c.Steps {
		if st.Op == "end" {
			if len(spans) == 0 {
				continue
			}
			sp := spans[((st.Of%len(spans))+len(spans))%len(spans)]
			if sp.ended {
				continue
			}
			for _, m := range st.Muts {
				applyMut(sp.span, m)
			}
			info.ClassIf(len(st.Muts) > 0, "end:span_mutated_before_end")
			var eo []trace.SpanEndOption
			if o, ok := st.EndTS.option(sp.start); ok {
				eo = append(eo, o)
				info.Class("end:explicit_timestamp_" + st.EndTS.Mode)
			}
			if st.EndStack {
				eo = append(eo, trace.WithStackTrace(true))
			}
			sp.span.End(eo...)
			sp.ended = true
			if ro, ok := sp.span.(sdktrace.ReadOnlySpan); ok && sp.decision != 0 {
				stt, ett := ro.StartTime(), ro.EndTime()
				sp.how = fmt.Sprintf("start time %s, end time %s, mutations before End %v, processor %s", stt.UTC().Format(time.RFC3339Nano), ett.UTC().Format(time.RFC3339Nano), st.Muts, procName)
				info.ClassIf(sp.sampled && ett.Equal(stt), "end:sampled_span_end_time_equals_start_time")
				info.ClassIf(sp.sampled && ett.Before(stt), "end:sampled_span_end_time_before_start_time")
			}
			info.ClassIf(sp.decision == 1, "end:record_only_span")
			info.ClassIf(sp.decision == 0, "end:dropped_span")
			if c.Batch != 0 {
				// a ForceFlush per End is expensive: do it for every fifth
				// End only, the final accounting covers the rest
				ends++
				if ends%5 != 1 {
					continue
				}
				flush()
			}
			got := exp.bySpanID(sp.sc.SpanID())
			switch {
			case sp.sampled && len(got) != 1:
				bad("sampled_not_exported", "step %d: span %s is sampled and was ended (%s), the exporter holds %d copies of it", si, sp.sc.SpanID(), sp.how, len(got))
			case !sp.sampled && len(got) != 0:
				bad("exported_not_sampled", "step %d: span %s (decision %d) is not sampled but reached the exporter %d times", si, sp.sc.SpanID(), sp.decision, len(got))
			}
			for _, ro := range got {
				if !ro.SpanContext().Equal(sp.sc) || !ro.Parent().Equal(sp.psc) {
					bad("exported_identity_mismatch", "step %d: exported span has context %s parent %s, started span had %s parent %s", si, scStr(ro.SpanContext()), scStr(ro.Parent()), scStr(sp.sc), scStr(sp.psc))
				}
				if sp.sampled {
					checkSamplerAttrs(ro.Attributes(), sp.attrs, func(m string) { bad("sampler_attrs_missing", "step %d: exported span %s: %s", si, sp.sc.SpanID(), m) })
				}
			}
			info.ClassIf(sp.decision == 1, "end:record_only_span")
			info.ClassIf(sp.decision == 0, "end:dropped_span")
			continue
		}

		// ---- a start step ----
		ctx := context.Background()
		var inCtx trace.SpanContext // what the context carries
		depth := 0
		popParent := false // the supplied parent's trace ID is of the population make
		switch st.Op {
		case "child":
			if len(spans) == 0 {
				break
			}
			p := spans[((st.Of%len(spans))+len(spans))%len(spans)]
			ctx, inCtx, depth = p.ctx, p.sc, p.depth+1
			info.ClassIf(p.ended, "parent:already_ended")
			info.ClassIf(p.decision == 0, "parent:dropped_local_span")
			info.ClassIf(p.decision == 1, "parent:record_only_local_span")
		case "ctx":
			sc := st.PSC.build()
			popParent = st.PopTID
			if tid := sc.TraceID(); genTIDs[tid] {
				// keep supplied trace IDs apart from the sequential generator's
				for bit := 0; genTIDs[tid] && bit < 64; bit++ {
					tid = sc.TraceID()
					tid[bit/8] ^= 0x80 >> (bit % 8)
				}
				sc = sc.WithTraceID(tid)
				popParent = false
			}
			ctx, inCtx, depth = ctxWith(sc), sc, 1
		}
		psc := inCtx
		if st.NewRoot {
			psc = trace.SpanContext{}
			depth = 0
		}
		var so []trace.SpanStartOption
		if st.NewRoot {
			so = append(so, trace.WithNewRoot())
		}
		if st.Kind != 0 {
			so = append(so, trace.WithSpanKind(trace.SpanKind(st.Kind)))
		}
		if len(st.Attrs) > 0 {
			so = append(so, trace.WithAttributes(vk.ToAttrs(st.Attrs)...))
		}
		for _, l := range st.Links {
			so = append(so, trace.WithLinks(trace.Link{SpanContext: l.build()}))
		}
		startAt := time.Now()
		if o, ok := st.StartTS.option(startAt); ok {
			so = append(so, o)
			if st.StartTS.Mode == "abs" {
				startAt = time.Unix(0, st.StartTS.N)
			}
			info.Class("start:explicit_timestamp_" + st.StartTS.Mode)
		}

		logBefore := len(r.log)
		startTracer := tracer
		if st.Op == "child" && st.ViaSpan && inCtx.IsValid() {
			startTracer = trace.SpanFromContext(ctx).TracerProvider().Tracer("c09")
			info.Class("child_started_through_the_parent_span's_TracerProvider")
		}
		sctx, span := startTracer.Start(ctx, st.Name, so...)
		sc := span.SpanContext()
		if envMode {
			// ask the reference tree what the configured sampler has to
			// answer for this span (same parent, the span's trace ID)
			pctx := ctx
			if st.NewRoot {
				pctx = trace.ContextWithSpanContext(ctx, trace.SpanContext{})
			}
			cfg := trace.NewSpanStartConfig(so...)
			_ = top.sampler.ShouldSample(sdktrace.SamplingParameters{
				ParentContext: pctx, TraceID: sc.TraceID(), Name: st.Name,
				Kind: cfg.SpanKind(), Attributes: cfg.Attributes(), Links: cfg.Links(),
			})
		}
		seg := r.log[logBefore:]
		rec := &spanRec{span: span, ctx: sctx, sc: sc, psc: psc, decision: -1, depth: depth, start: startAt}
		if ro, ok := span.(sdktrace.ReadOnlySpan); ok && span.IsRecording() {
			rec.start = ro.StartTime()
		}
		spans = append(spans, rec)

		pTIDValid := psc.TraceID() != (trace.TraceID{})
		halfValid := pTIDValid && psc.SpanID() == (trace.SpanID{})
		pValid := scValid(psc)
		where := fmt.Sprintf("step %d (%s, %s)", si, st.Op, describeParent(inCtx, st.NewRoot))
		if envMode {
			where += " [sampler from the environment: " + envHow + "; \"sampler answered\" = the reference sampler it denotes]"
		}

		// ---- identity ----
		if sc.SpanID() == (trace.SpanID{}) {
			bad("invalid_span_id", "%s: started span has the zero span ID", where)
		} else if prev, dup := spanIDs[sc.SpanID()]; dup {
			bad("duplicate_span_id", "%s: span ID %s was already handed out to span #%d", where, sc.SpanID(), prev)
		}
		spanIDs[sc.SpanID()] = len(spans) - 1
		tid := sc.TraceID()
		fresh := tid != (trace.TraceID{}) && !seenTIDs[tid] && tid != inCtx.TraceID()
		switch {
		case pValid:
			if tid != psc.TraceID() {
				bad("child_traceid_mismatch", "%s: started span has trace ID %s", where, tid)
			}
		case halfValid:
			if tid != psc.TraceID() && !fresh {
				bad("root_traceid_not_fresh", "%s: started span has trace ID %s, neither the supplied one nor a fresh valid one", where, tid)
			}
		default:
			if !fresh {
				bad("root_traceid_not_fresh", "%s: started root span has trace ID %s, which is invalid or was used before in this run", where, tid)
			}
		}
		if inCtx.TraceID() != (trace.TraceID{}) {
			seenTIDs[inCtx.TraceID()] = true
		}
		seenTIDs[tid] = true

		// ---- what the sampler answered ----
		var result sdktrace.SamplingResult
		haveResult, haveTS := false, false
		if top != nil {
			ncalls := 0
			for _, e := range seg {
				if e.node == top.id {
					ncalls++
					result = e.res
				}
			}
			if ncalls != 1 {
				bad("sampler_call_count", "%s: the provider's sampler was called %d times for one Start", where, ncalls)
			}
			if envMode && ncalls >= 1 {
				// not observed but derived: keep to what the statement fixes
				haveResult = envAsserted && !(halfValid && samplerTree.Kind == "parent")
				haveTS = haveResult && pValid
			} else if ncalls >= 1 {
				haveResult, haveTS = true, true
				last := seg[len(seg)-1]
				if last.p.TraceID != tid {
					bad("sampler_traceid_mismatch", "%s: sampler was asked about trace ID %s, the span got %s", where, last.p.TraceID, tid)
				}
				if got := trace.SpanContextFromContext(last.p.ParentContext); !got.Equal(psc) {
					bad("sampler_parent_mismatch", "%s: sampler saw parent %s, expected %s", where, scStr(got), scStr(psc))
				}
			}
		} else {
			// no WithSampler: documented default ParentBased(AlwaysSample)
			haveResult = true
			result.Decision = sdktrace.RecordAndSample
			if pValid && psc.TraceFlags()&trace.FlagsSampled == 0 {
				result.Decision = sdktrace.Drop
			}
			if halfValid {
				haveResult = false
			}
			if pValid {
				haveTS = true
				result.Tracestate = psc.TraceState()
			}
		}

		// ---- composition rules (documented ParentBased dispatch, stock leaves) ----
		if top != nil && haveResult && !halfValid {
			var e expectation
			top.model(psc, &e)
			gotPath := make([]int, 0, len(seg))
			for i := len(seg) - 1; i >= 0; i-- {
				gotPath = append(gotPath, seg[i].node)
			}
			pathOK := len(gotPath) == len(e.path)
			for i := 0; pathOK && i < len(gotPath); i++ {
				pathOK = gotPath[i] == e.path[i]
			}
			if !pathOK {
				bad("parentbased_dispatch", "%s: ParentBased case %q expected sampler nodes %v to be consulted, got %v", where, e.slot, e.path, gotPath)
			} else {
				for _, en := range seg[1:] {
					if !sameResult(en.res, seg[0].res) {
						bad("parentbased_alters_result", "%s: node %d returned %+v, its delegate returned %+v", where, en.node, en.res, seg[0].res)
					}
				}
				leafRes := seg[0].res
				stock := false
				switch {
				case e.leaf == nil:
					stock = true
					if int(leafRes.Decision) != e.implicit {
						bad("default_parentbased_decision", "%s: ParentBased without an option for case %q answered %s", where, e.slot, decisionName(leafRes.Decision))
					}
				case e.leaf.kind == "always":
					stock = true
					if leafRes.Decision != sdktrace.RecordAndSample {
						bad("stock_decision", "%s: AlwaysSample answered %s", where, decisionName(leafRes.Decision))
					}
				case e.leaf.kind == "never":
					stock = true
					if leafRes.Decision != sdktrace.Drop {
						bad("stock_decision", "%s: NeverSample answered %s", where, decisionName(leafRes.Decision))
					}
				case e.leaf.kind == "ratio":
					stock = true
					rr := e.leaf.ratio
					s := leafRes.Decision == sdktrace.RecordAndSample
					switch {
					case math.IsNaN(rr):
					case rr <= 0 && s:
						bad("ratio_le_zero_sampled", "%s: TraceIDRatioBased(%v) sampled trace ID %s", where, rr, tid)
					case rr >= 1 && !s:
						bad("ratio_ge_one_not_sampled", "%s: TraceIDRatioBased(%v) answered %s for trace ID %s", where, rr, decisionName(leafRes.Decision), tid)
					}
					if !math.IsNaN(rr) {
						for _, o := range ratioSeen[tid] {
							if (o.r <= rr && o.sampled && !s) || (rr <= o.r && s && !o.sampled) {
								bad("ratio_inconsistent_within_trace", "%s: trace ID %s: ratio %v sampled=%v, ratio %v sampled=%v", where, tid, o.r, o.sampled, rr, s)
							}
						}
						ratioSeen[tid] = append(ratioSeen[tid], ratioObs{rr, s})
						ofPop := false
						switch {
						case pValid:
							ofPop = st.Op == "ctx" && popParent && tid == psc.TraceID()
						case !pTIDValid:
							// a root: its trace ID comes from the custom generator or
							// from the SDK's default one ("from a randomly-chosen
							// sequence")
							ofPop = !c.SeqIDs || genTIDs[tid]
						}
						if ofPop && rr > 0 && rr < 1 {
							m := shareSeen[math.Float64bits(rr)]
							if m == nil {
								m = map[trace.TraceID]bool{}
								shareSeen[math.Float64bits(rr)] = m
							}
							if _, dup := m[tid]; !dup {
								m[tid] = sc.IsSampled()
							}
						}
						info.ClassIf(rr > 0 && rr < 1, "leaf:ratio_interior")
					}
				}
				if stock && pValid && leafRes.Tracestate.String() != psc.TraceState().String() {
					bad("stock_sampler_tracestate", "%s: stock sampler returned tracestate %q", where, leafRes.Tracestate.String())
				}
				info.ClassIf(e.slot != "" && e.slot != "root" && e.leaf == nil, "parentbased:default_for_"+e.slot)
				info.ClassIf(e.slot != "" && e.slot != "root" && e.leaf != nil, "parentbased:option_for_"+e.slot)
				info.ClassIf(e.slot == "root", "parentbased:root")
			}
		}

		// ---- coupling of the span with the answer ----
		isRec := span.IsRecording()
		if haveResult {
			rec.decision = int(result.Decision)
			rec.sampled = result.Decision == sdktrace.RecordAndSample
			rec.attrs = result.Attributes
			decisions[rec.decision] = true
			if sc.IsSampled() != (result.Decision == sdktrace.RecordAndSample) {
				bad("sampled_flag_mismatch", "%s: sampler answered %s, span flags %s", where, decisionName(result.Decision), sc.TraceFlags())
			}
			if isRec != (result.Decision != sdktrace.Drop) {
				bad("recording_mismatch", "%s: sampler answered %s, IsRecording() = %v", where, decisionName(result.Decision), isRec)
			}
			if haveTS && sc.TraceState().String() != result.Tracestate.String() {
				bad("span_tracestate_mismatch", "%s: sampler returned tracestate %q, span carries %q", where, result.Tracestate.String(), sc.TraceState().String())
			}
		} else {
			rec.sampled = sc.IsSampled()
		}
		if ro, ok := span.(sdktrace.ReadOnlySpan); ok && isRec {
			if !ro.Parent().Equal(psc) {
				bad("parent_mismatch", "%s: span.Parent() = %s, expected %s", where, scStr(ro.Parent()), scStr(psc))
			}
			if !ro.SpanContext().Equal(sc) {
				bad("parent_mismatch", "%s: ReadOnlySpan.SpanContext() = %s, Span.SpanContext() = %s", where, scStr(ro.SpanContext()), scStr(sc))
			}
			if haveResult {
				checkSamplerAttrs(ro.Attributes(), result.Attributes, func(m string) { bad("sampler_attrs_missing", "%s: %s", where, m) })
			}
		}
		if len(exp.bySpanID(sc.SpanID())) != 0 {
			bad("exported_before_end", "%s: span %s is in the exporter before End", where, sc.SpanID())
		}

		if st.Op == "child" && !st.NewRoot && len(spans) > 1 {
			hasEdge = true
		}
		info.ClassIf(st.NewRoot && inCtx.TraceID() != (trace.TraceID{}), "start:new_root_over_parent")
		info.ClassIf(st.Op == "ctx" && pValid && psc.IsRemote() && psc.IsSampled(), "start:remote_valid_sampled")
		info.ClassIf(st.Op == "ctx" && pValid && psc.IsRemote() && !psc.IsSampled(), "start:remote_valid_unsampled")
		info.ClassIf(st.Op == "ctx" && pValid && !psc.IsRemote(), "start:local_spancontext_parent")
		info.ClassIf(st.Op == "ctx" && !st.NewRoot && !pValid && !halfValid, "start:invalid_parent(zero trace ID)")
		info.ClassIf(halfValid, "start:half_valid_parent(zero span ID)")
		info.ClassIf(st.Op == "ctx" && popParent && pValid, "start:parent_trace_id_of_the_generator's_make")
		info.ClassIf(pValid && psc.TraceFlags()&^trace.FlagsSampled != 0, "start:parent_with_extra_flag_bits")
		info.ClassIf(pValid && psc.TraceState().Len() > 0, "start:parent_with_tracestate")
		info.ClassIf(haveResult && result.Decision == sdktrace.RecordOnly, "decision:record_only")
		info.ClassIf(haveTS && pValid && result.Tracestate.String() != psc.TraceState().String(), "sampler_replaces_tracestate")
		info.ClassIf(haveResult && len(result.Attributes) > 0 && isRec, "sampler_attributes_on_recording_span")
		info.ClassIf(depth >= 3, "depth>=3")
	}

	// ---- final export accounting ----
	flush()
	info.ClassIf(c.Batch == 1, "batch_span_processor")
	info.ClassIf(c.Batch == 2, "batch_span_processor_blocking")
	known := map[trace.SpanID]*spanRec{}
	for _, sp := range spans {
		known[sp.sc.SpanID()] = sp
		n := len(exp.bySpanID(sp.sc.SpanID()))
		want := 0
		if sp.sampled && sp.ended {
			want = 1
		}
		if n != want {
			kind := "sampled_not_exported"
			if want == 0 {
				kind = "exported_not_sampled"
				if sp.sampled {
					kind = "exported_not_ended"
				}
			}
			bad(kind, "span %s (decision %d, sampled %v, ended %v; %s) is held %d times by the exporter, expected %d", sp.sc.SpanID(), sp.decision, sp.sampled, sp.ended, sp.how, n, want)
		}
	}
	exp.mu.Lock()
	for _, ro := range exp.spans {
		if _, ok := known[ro.SpanContext().SpanID()]; !ok {
			bad("exported_unknown_span", "exporter holds span %s which was never started", ro.SpanContext().SpanID())
		}
	}
	exp.mu.Unlock()

	// ---- the sampled share of the traces a ratio sampler decided ----
	idSource := "default IDGenerator"
	if c.SeqIDs {
		idSource = "custom IDGenerator, leading eight bytes: " + c.IDHi.String()
	}
	for bits, m := range shareSeen {
		rr := math.Float64frombits(bits)
		n, count := len(m), 0
		for _, s := range m {
			if s {
				count++
			}
		}
		want, tol := float64(n)*rr, shareTol(n, rr)
		if math.Abs(float64(count)-want) > tol {
			bad("ratio_share_off_in_program", "TraceIDRatioBased(%v) decided %d traces of this program whose trace IDs have a (pseudo-)random trailing half (%s; supplied parents' leading eight bytes: %s): %d are sampled, expected %.1f +- %.1f", rr, n, idSource, c.IDHi, count, want, tol)
		}
		info.ClassIf(n >= 64, "share:ratio_leaf_decided>=64_traces")
		info.ClassIf(tol < want || tol < float64(n)-want, "share:judgeable_in_program")
	}

	mixed := len(decisions) >= 2
	info.NonTrivial = hasEdge && mixed
	info.Class("top:" + c.Sampler.Kind)
	info.ClassIf(c.SeqIDs, "idgen:custom_sequential")
	info.ClassIf(c.SeqIDs, "idgen:leading_half_"+c.IDHi.Style)
	info.ClassIf(len(c.Steps) > 40, "program:41..400_steps")
	info.ClassIf(!c.SeqIDs, "idgen:default_random")
	info.ClassIf(c.Sampler.Kind == "parent" && c.Sampler.RS == nil && c.Sampler.RN == nil && c.Sampler.LS == nil && c.Sampler.LN == nil, "top:parent_without_options")
	info.ClassIf(hasEdge && mixed, "tree_with_mixed_decisions")
	info.ClassIf(envMode, "env:sampler_from_environment")
	return vs, info
}

// scStr renders a span context for messages.
func scStr(sc trace.SpanContext) string {
	k := "local"
	if sc.IsRemote() {
		k = "remote"
	}
	return fmt.Sprintf("{%s-%s flags %s tracestate %q %s}", sc.TraceID(), sc.SpanID(), sc.TraceFlags(), sc.TraceState().String(), k)
}

func tidLo(t trace.TraceID) uint64 {
	var x uint64
	for _, b := range t[8:] {
		x = x<<8 | uint64(b)
	}
	return x
}

func tidHi(t trace.TraceID) uint64 {
	var x uint64
	for _, b := range t[:8] {
		x = x<<8 | uint64(b)
	}
	return x
}

// checkSamplerAttrs: every key the sampler supplied is on the span with the
// last value supplied for it (the program's own attributes use other keys).
func checkSamplerAttrs(have, supplied []attribute.KeyValue, report func(string)) {
	want := map[attribute.Key]attribute.Value{}
	for _, kv := range supplied {
		if kv.Valid() {
			want[kv.Key] = kv.Value
		}
	}
	got := map[attribute.Key]attribute.Value{}
	for _, kv := range have {
		got[kv.Key] = kv.Value
	}
	for _, kv := range supplied {
		w, ok := want[kv.Key]
		if !ok {
			continue
		}
		g, present := got[kv.Key]
		if !present {
			report(fmt.Sprintf("sampler attribute %q is not on the span", kv.Key))
		} else if vk.ValueKey(g) != vk.ValueKey(w) {
			report(fmt.Sprintf("sampler attribute %q has value %s on the span, sampler supplied %s", kv.Key, vk.ValueKey(g), vk.ValueKey(w)))
		}
		delete(want, kv.Key)
	}
}

func TestPipeline(t *testing.T) {
	vk.Run(t, vk.Spec[PipeCase]{
		Property: "C09", Check: "pipeline",
		Rule: "a sampler from the grammar {AlwaysSample, NeverSample, TraceIDRatioBased(r), ParentBased(root, 0..4 options, nested to depth 2), Scripted(Drop/RecordOnly/RecordAndSample + attributes + parent/replaced/empty tracestate), none configured}, every node behind a recording decorator; trees expressible as OTEL_TRACES_SAMPLER (always_on, always_off, traceidratio, parentbased_*) are, in about half of their cases, configured through the environment instead of WithSampler (ratio spelled in 'g'/'f'/'e' forms, signs, leading zeros, blanks; name in any letter case) and judged against the programmatic tree for the denoted ratio; " +
			"a program of 1..40 (one in ten: 41..400, mostly new traces) steps {start root, start child of a started span, start under a supplied span context (remote or local, valid / zero trace ID / zero span ID, sampled or not, extra flag bits, tracestate), each optionally WithNewRoot and optionally with an explicit start timestamp (any int64 unix nanos, the zero time, now +- up to 4000 s); end a span, optionally with an explicit end timestamp (start + {0, +-1ns .. +-1h}, any int64 unix nanos, the zero time), after 0..3 mutations {SetStatus, SetName, AddEvent, RecordError, SetAttributes, AddLink} and optionally WithStackTrace}; simple processor, WithSyncer, or BatchSpanProcessor (blocking or not, flushed by the harness before every look at the exporter) + in-memory exporter; default or custom sequential ID generator whose trace IDs have a pseudo-random trailing half and a leading half of a drawn shape (zero = 64-bit IDs, ones, constant, epoch prefix, counter, single bit, copy, random), supplied parents partly with trace IDs of that make; the traces each TraceIDRatioBased(r) leaf decided (generator roots, such parents) are also judged for their sampled share (Bernstein bound, only decisive from some dozens of traces on); " +
			"non-trivial = some span is the child of a started span and at least two different sampling decisions occur; distinct = distinct case encodings",
		Quick: 2000, Thorough: 100000,
		Gen: genPipe, Run: runPipe,
	})
}
