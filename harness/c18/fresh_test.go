package c18

import (
	"context"
	"encoding/json"
	"errors"
	"fmt"
	"os"
	"os/exec"
	"path/filepath"
	"sort"
	"strings"
	"sync"
	"sync/atomic"
	"syscall"
	"testing"
	"time"

	dto "github.com/prometheus/client_model/go"
	"pgregory.net/rapid"

	"go.opentelemetry.io/otel"
	"go.opentelemetry.io/otel/sdk/metric/metricdata"
	"go.opentelemetry.io/otel/verif/internal/vk"
)

// ---------------------------------------------------------------------
// fresh_process: the FIRST scrapes of a process
//
// "concurrent scrapes and measurements are race free" has a region no case of
// a long-lived test process can reach: whatever the exporter (or the SDK
// below it) settles once per PROCESS - a warning emitted once, a lazily built
// table, a pool - is settled by the first case and every later case finds it
// done, with a happens-before edge to everything that follows. So each case
// of this sub-check is run in Procs fresh child processes (this test binary
// re-executed, built with -race by the driver):
//
//	the generated registry (options, scheme, resource, scopes, instruments)
//	is built on FirstReps exporters, each with its own registry and provider;
//	the measurements of the first round are made; then FirstScrapers Gather
//	calls per exporter - and, with FirstLive, one goroutine per further round
//	of measurements per exporter - are released TOGETHER: the first scrapes of
//	the process, of unrelated exporters and of the same one, with nothing
//	ordered between them. With Rendezvous the first observable callback of
//	each exporter's first collection waits until every exporter is being
//	collected (a collaborator that takes its time), so that all collections
//	reach the exporter's own code side by side.
//
// Oracle: the race detector stays silent (a report ends the child with exit
// code 66 = violation data_race), the child does not die (panic) or hang, and
// the scrapes are held to what concurrent_scrapes asserts: every one accepted
// by the registry with legal names and one type per family, the quiescent
// scrape afterwards exact against the ManualReader.

const (
	freshEnv     = "VERIF_C18_FRESH"
	freshTimeout = 5 * time.Minute // a child needs well under a second
)

type freshResult struct {
	Violations []vk.Violation `json:"violations"`
	Classes    []string       `json:"classes"`
}

// rendezvous lets the first arrival of each of n parties wait for the others.
type rendezvous struct {
	n       int32
	arrived atomic.Int32
	open    chan struct{}
}

func (r *rendezvous) party() func() {
	var first sync.Once
	return func() {
		first.Do(func() {
			if r.arrived.Add(1) == r.n {
				close(r.open)
			}
			select {
			case <-r.open:
			case <-time.After(20 * time.Second): // liveness only: go on alone
			}
		})
	}
}

// firstUse is the program of one child process.
func firstUse(c *Case) freshResult {
	p := newPlan(c)
	k := &checker{p: p}
	defer setScheme(c)()
	errs := &vk.ErrCapture{}
	otel.SetErrorHandler(errs)

	n := c.FirstReps
	if n < 1 {
		n = 1
	}
	scrapers := c.FirstScrapers
	if scrapers < 1 {
		scrapers = 1
	}
	rv := &rendezvous{n: int32(n), open: make(chan struct{})}
	worlds := make([]*world, 0, n)
	for i := 0; i < n; i++ {
		w, err := build(c)
		if err != nil {
			k.bad("setup_error", "%v", err)
			return freshResult{Violations: k.vs}
		}
		defer w.close()
		if c.Rendezvous {
			w.onObserve = rv.party()
		}
		if c.Early {
			k.unregistered(fmt.Sprintf("exporter %d scrape before registration", i+1), w.early, w.earlyErr)
		}
		pre := len(c.Rounds)
		if c.FirstLive {
			pre = 1
		}
		for r := 0; r < pre && r < len(c.Rounds); r++ {
			w.apply(r, c.Rounds[r])
		}
		worlds = append(worlds, w)
	}
	writers := 0
	if c.FirstLive && len(c.Rounds) > 1 {
		writers = len(c.Rounds) - 1
	}
	k.longExemplar = anyLongExemplar(c, len(c.Rounds))
	type scrape struct {
		mfs []*dto.MetricFamily
		err error
	}
	per := scrapers + writers
	res := make([][]scrape, n)
	for i := range res {
		res[i] = make([]scrape, scrapers)
	}
	vk.Parallel(n*per, func(g int) {
		wi, j := g/per, g%per
		w := worlds[wi]
		if j >= scrapers {
			r := j - scrapers + 1
			w.apply(r, c.Rounds[r])
			return
		}
		if j < len(c.FirstPerturb) {
			vk.Perturb(c.FirstPerturb[j])
		}
		res[wi][j].mfs, res[wi][j].err = w.reg.Gather()
	})
	for wi, w := range worlds {
		for j, r := range res[wi] {
			k.firstScrape(fmt.Sprintf("fresh process, exporter %d of %d, concurrent first scrape %d of %d", wi+1, n, j+1, scrapers), r.mfs, r.err)
		}
		tag := fmt.Sprintf("fresh process, exporter %d of %d, quiescent scrape", wi+1, n)
		mfs, gerr := w.reg.Gather()
		var rm metricdata.ResourceMetrics
		cerr := w.mr.Collect(context.Background(), &rm)
		k.firstScrape(tag, mfs, gerr)
		if p.strong() {
			if p.readerFailed(cerr) {
				k.bad("manual_reader_error", "%s: ManualReader.Collect: %v", tag, cerr)
			} else {
				k.exact(tag, mfs, gerr, &rm, opt{upto: len(c.Rounds), skipSyncGauge: writers >= 2})
			}
		}
		if p.accepted() {
			k.handled(tag, errs)
		} else {
			errs.Reset()
		}
		if len(k.vs) > 0 {
			break
		}
	}
	out := freshResult{Violations: k.vs}
	for cl := range k.classes {
		out.Classes = append(out.Classes, cl)
	}
	sort.Strings(out.Classes)
	return out
}

// TestFreshChild is the child side.
func TestFreshChild(t *testing.T) {
	dir := os.Getenv(freshEnv)
	if dir == "" {
		t.Skip("child mode only")
	}
	b, err := os.ReadFile(filepath.Join(dir, "case.json"))
	if err != nil {
		t.Fatal(err)
	}
	var c Case
	if err := json.Unmarshal(b, &c); err != nil {
		t.Fatal(err)
	}
	out, _ := json.Marshal(firstUse(&c))
	if err := os.WriteFile(filepath.Join(dir, "result.json"), out, 0o644); err != nil {
		t.Fatal(err)
	}
}

// raceReport returns the head of the first race report written into dir.
func raceReport(dir string) string {
	files, _ := filepath.Glob(filepath.Join(dir, "race.*"))
	sort.Strings(files)
	for _, f := range files {
		b, _ := os.ReadFile(f)
		lines := strings.Split(string(b), "\n")
		var keep []string
		for _, l := range lines {
			l = strings.TrimRight(l, " ")
			if l == "" || strings.HasPrefix(strings.TrimSpace(l), "/") {
				continue // keep the function names, drop the file positions
			}
			keep = append(keep, strings.TrimSpace(l))
			if len(keep) >= 14 {
				break
			}
		}
		if len(keep) > 0 {
			return strings.Join(keep, " | ")
		}
	}
	return "(no report file)"
}

func tail(s string, n int) string {
	ls := strings.Split(strings.TrimSpace(s), "\n")
	if len(ls) > n {
		ls = ls[len(ls)-n:]
	}
	return strings.Join(ls, "\n")
}

// spawn runs the case in one fresh process.
func spawn(enc []byte, i int) (freshResult, *vk.Violation) {
	dir, err := os.MkdirTemp("", "c18fresh")
	if err != nil {
		v := vk.V("setup_error", "temp dir: %v", err)
		return freshResult{}, &v
	}
	defer os.RemoveAll(dir)
	if err := os.WriteFile(filepath.Join(dir, "case.json"), enc, 0o644); err != nil {
		v := vk.V("setup_error", "case file: %v", err)
		return freshResult{}, &v
	}
	ctx, cancel := context.WithTimeout(context.Background(), freshTimeout)
	defer cancel()
	self, err := os.Executable()
	if err != nil {
		self = os.Args[0]
	}
	cmd := exec.CommandContext(ctx, self, "-test.run", "^TestFreshChild$", "-test.count", "1", "-test.timeout", "0")
	cmd.Dir = dir
	cmd.Env = []string{
		freshEnv + "=" + dir, "PATH=" + os.Getenv("PATH"), "HOME=" + os.Getenv("HOME"), "TMPDIR=" + os.TempDir(),
		"GORACE=halt_on_error=1 exitcode=66 atexit_sleep_ms=0 log_path=" + filepath.Join(dir, "race"),
	}
	// a child that does not end is asked for its goroutines first
	cmd.Cancel = func() error { return cmd.Process.Signal(syscall.SIGQUIT) }
	cmd.WaitDelay = 20 * time.Second
	outb, err := cmd.CombinedOutput()
	var res freshResult
	if err == nil {
		b, rerr := os.ReadFile(filepath.Join(dir, "result.json"))
		if rerr == nil {
			rerr = json.Unmarshal(b, &res)
		}
		if rerr != nil {
			v := vk.V("setup_error", "fresh process %d ended without a result: %v; output: %s", i+1, rerr, tail(string(outb), 20))
			return res, &v
		}
		return res, nil
	}
	var ee *exec.ExitError
	switch {
	case !errors.As(err, &ee) && ctx.Err() == nil:
		// the process could not be started at all (resource shortage of the
		// machine): says nothing about the code under test
		return freshResult{Classes: []string{"fresh_process_could_not_be_started(not counted)"}}, nil
	case ctx.Err() == nil && ee.ExitCode() == -1 && strings.Contains(ee.Error(), "killed"):
		// killed from outside (out of memory): likewise
		return freshResult{Classes: []string{"fresh_process_killed_from_outside(not counted)"}}, nil
	case ctx.Err() != nil:
		v := vk.V("hang", "fresh process %d did not end within %v; goroutines: %s", i+1, freshTimeout, tail(string(outb), 80))
		return res, &v
	case errors.As(err, &ee) && ee.ExitCode() == 66:
		v := vk.V("data_race", "fresh process %d: the race detector reported a data race among the first scrapes / measurements of the process: %s", i+1, raceReport(dir))
		return res, &v
	default:
		v := vk.V("process_died", "fresh process %d died during its first scrapes (%v): %s", i+1, err, tail(string(outb), 40))
		return res, &v
	}
}

func runFresh(c Case) ([]vk.Violation, vk.Info) {
	var info vk.Info
	p := newPlan(&c)
	classify(&c, p, &info)
	enc, err := json.Marshal(c)
	if err != nil {
		return []vk.Violation{vk.V("setup_error", "case does not serialise: %v", err)}, info
	}
	procs := c.Procs
	if procs < 1 {
		procs = 1
	}
	results := make([]freshResult, procs)
	fails := make([]*vk.Violation, procs)
	vk.Parallel(procs, func(i int) { results[i], fails[i] = spawn(enc, i) })
	var vs []vk.Violation
	classes := map[string]bool{}
	for i := range results {
		if fails[i] != nil {
			vs = append(vs, *fails[i])
		}
		for _, v := range results[i].Violations {
			v.Msg = fmt.Sprintf("fresh process %d: %s", i+1, v.Msg)
			vs = append(vs, v)
		}
		for _, cl := range results[i].Classes {
			classes[cl] = true
		}
		if len(vs) > 0 {
			break
		}
	}
	names := make([]string, 0, len(classes))
	for cl := range classes {
		names = append(names, cl)
	}
	sort.Strings(names)
	for _, cl := range names {
		info.Class(cl)
	}
	observable := false
	for _, in := range c.Insts {
		observable = observable || isObservable(in.Kind)
	}
	info.Class(fmt.Sprintf("fresh_process_exporters_%d", c.FirstReps))
	info.ClassIf(c.FirstScrapers >= 2, "fresh_process_several_first_scrapes_per_exporter")
	info.ClassIf(c.FirstLive && len(c.Rounds) > 1, "fresh_process_measurements_concurrent_with_first_scrapes")
	info.ClassIf(c.Rendezvous && observable, "fresh_process_collections_rendezvous_in_callback")
	info.ClassIf(c.Legacy && c.Namespace == "", "fresh_process_first_legacy_name_built_by_the_concurrent_scrapes")
	info.ClassIf(c.Legacy && c.Namespace != "", "fresh_process_legacy_namespace_option_first")
	info.NonTrivial = c.FirstReps*c.FirstScrapers >= 2
	return vs, info
}

func genFresh(t *rapid.T) Case {
	c := genCase(true, 20)(t)
	c.FirstReps = rapid.IntRange(2, 4).Draw(t, "freshexporters")
	c.FirstScrapers = rapid.IntRange(1, 3).Draw(t, "freshscrapers")
	c.FirstPerturb = rapid.SliceOfN(rapid.SampledFrom([]int{0, 0, 0, 0, 1, 1, 2}), c.FirstScrapers, c.FirstScrapers).Draw(t, "freshperturb")
	c.FirstLive = rapid.Bool().Draw(t, "freshlive")
	c.Rendezvous = rapid.IntRange(0, 2).Draw(t, "rendezvous") != 0
	c.Procs = rapid.IntRange(2, 3).Draw(t, "procs")
	// the sequential program of concurrent_scrapes is not run here
	c.Gatherers, c.ScrapesEach, c.Reps = 0, 0, 0
	return c
}

func TestFreshProcess(t *testing.T) {
	if os.Getenv(freshEnv) != "" {
		t.Skip("child mode")
	}
	vk.Run(t, vk.Spec[Case]{
		Property: "C18", Check: "fresh_process",
		Rule: "the same registries; each case runs in 2..3 FRESH child processes (race detector on): 2..4 exporters with own registries and providers are built, the first round is measured, then 1..3 Gather calls per exporter (and, in half of the cases, one measuring goroutine per further round) are released together as the first scrapes of the process, in two thirds of the cases with a rendezvous in the first observable callback of every exporter; then one quiescent scrape per exporter compared exactly; " +
			"non-trivial = at least two concurrent first scrapes in the process; distinct = distinct case encodings",
		Quick: 60, Thorough: 900,
		Gen: genFresh, Run: runFresh,
		CaseTimeout: 2 * freshTimeout,
		ShrinkTime:  15 * time.Second,
		Repeat:      5,
	})
}
