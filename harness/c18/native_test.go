package c18

import (
	"fmt"
	"math"
	"strings"

	dto "github.com/prometheus/client_model/go"

	"go.opentelemetry.io/otel/attribute"
	"go.opentelemetry.io/otel/sdk/metric/metricdata"
	"go.opentelemetry.io/otel/verif/internal/vk"
)

// ---------------------------------------------------------------------
// exponential histograms -> Prometheus native (sparse) histograms
//
// OpenTelemetry (data model): at scale s, base = 2^(2^-s); the bucket with
// index i covers (base^i, base^(i+1)]; DataPoint.{Positive,Negative}Bucket is
// Offset + dense Counts, i = Offset+k.
//
// Prometheus (native histogram definition): at schema n, base = 2^(2^-n); the
// bucket with index j has the UPPER bound base^j, i.e. covers
// (base^(j-1), base^j] ("index 0 is for an upper bound of 1"); negative
// buckets mirror that. Hence scale == schema and j = i+1. Only schemas
// -4..8 exist. A point with a larger scale can be shown exactly at schema 8 by
// merging 2^(s-8) neighbours: base_8 = base_s^(2^d), so OTel index i becomes
// i>>d (arithmetic). A point with scale < -4 cannot be shown at all (buckets
// cannot be split); nothing is asserted for it.
//
// The sparse encoding: spans of (offset, length), the first offset is the
// absolute index of the first bucket, later offsets are the gap to the end of
// the previous span; deltas are the differences of consecutive bucket counts
// (the first against 0).

const (
	promSchemaMin = -4
	promSchemaMax = 8
)

type expPoint struct {
	scale         int32
	zeroCount     uint64
	zeroThreshold float64
	posOff        int32
	pos           []uint64
	negOff        int32
	neg           []uint64
}

func expOf[N int64 | float64](dp metricdata.ExponentialHistogramDataPoint[N]) *expPoint {
	return &expPoint{
		scale: dp.Scale, zeroCount: dp.ZeroCount, zeroThreshold: dp.ZeroThreshold,
		posOff: dp.PositiveBucket.Offset, pos: dp.PositiveBucket.Counts,
		negOff: dp.NegativeBucket.Offset, neg: dp.NegativeBucket.Counts,
	}
}

func (e *expPoint) unrepresentable() bool { return e.scale < promSchemaMin }
func (e *expPoint) needsDownscale() bool  { return e.scale > promSchemaMax }

// wantNative is the native histogram content that shows the point.
func (e *expPoint) wantNative() (schema int32, pos, neg map[int]int64) {
	d := uint(0)
	schema = e.scale
	if schema > promSchemaMax {
		d = uint(schema - promSchemaMax)
		schema = promSchemaMax
	}
	conv := func(off int32, counts []uint64) map[int]int64 {
		m := map[int]int64{}
		for k, c := range counts {
			if c == 0 {
				continue
			}
			i := int(off) + k
			m[(i>>d)+1] += int64(c)
		}
		return m
	}
	return schema, conv(e.posOff, e.pos), conv(e.negOff, e.neg)
}

// decodeSpans turns spans+deltas into index -> count (empty buckets left out).
func decodeSpans(spans []*dto.BucketSpan, deltas []int64) (map[int]int64, error) {
	out := map[int]int64{}
	idx, k := 0, 0
	var cur int64
	for si, sp := range spans {
		if si > 0 && sp.GetOffset() < 0 {
			return nil, fmt.Errorf("span %d has negative offset %d", si, sp.GetOffset())
		}
		idx += int(sp.GetOffset())
		for l := uint32(0); l < sp.GetLength(); l++ {
			if k >= len(deltas) {
				return nil, fmt.Errorf("spans describe more buckets than the %d deltas", len(deltas))
			}
			cur += deltas[k]
			k++
			if cur < 0 {
				return nil, fmt.Errorf("bucket %d has negative count %d", idx, cur)
			}
			if cur != 0 {
				out[idx] = cur
			}
			idx++
		}
	}
	if k != len(deltas) {
		return nil, fmt.Errorf("%d deltas but the spans describe %d buckets", len(deltas), k)
	}
	return out, nil
}

func sameBuckets(a, b map[int]int64) bool {
	if len(a) != len(b) {
		return false
	}
	for i, c := range a {
		if b[i] != c {
			return false
		}
	}
	return true
}

func total(m map[int]int64) int64 {
	var n int64
	for _, c := range m {
		n += c
	}
	return n
}

// promIndex is the range of Prometheus bucket indexes whose bucket
// (base^(j-1), base^j] may hold |v| at the schema: exact for powers of two,
// one index otherwise unless |v| is within rounding of a boundary.
func promIndex(abs float64, schema int32) (lo, hi int) {
	frac, exp := math.Frexp(abs)
	if frac == 0.5 { // abs == 2^(exp-1)
		kk := exp - 1
		if schema >= 0 {
			j := kk << uint(schema)
			return j, j
		}
		j := int(math.Ceil(float64(kk) / float64(int(1)<<uint(-schema))))
		return j, j
	}
	x := math.Log2(abs) * math.Ldexp(1, int(schema))
	j := int(math.Ceil(x))
	if math.Abs(x-math.Round(x)) < 1e-9 {
		return j - 1, j + 1
	}
	return j, j
}

type obsExp struct {
	Inst  int   `json:"inst"`
	Scale int32 `json:"sdk_scale"`
}

// native compares one scraped native histogram with the SDK's data point and,
// independently, with the values that were recorded.
func (k *checker) native(tag, fam string, want map[string]string, h *dto.Histogram, pt point, vals []float64) {
	e := pt.exp
	at := fmt.Sprintf("%s: %q%v", tag, clip(fam), want)
	if h.Schema == nil {
		k.bad("native_schema_missing", "%s carries no schema: not a native histogram (SDK scale %d)", at, e.scale)
		return
	}
	schema, wpos, wneg := e.wantNative()
	k.class(true, "native_histogram_compared")
	k.class(len(h.GetPositiveSpan()) > 1 || len(h.GetNegativeSpan()) > 1, "native_histogram_several_spans")
	k.class(len(wpos) > 1 || len(wneg) > 1, "native_histogram_several_buckets_of_a_sign")
	if h.GetSchema() != schema {
		k.bad("native_schema", "%s has schema %d, want %d (SDK scale %d)", at, h.GetSchema(), schema, e.scale)
	}
	if h.GetZeroCount() != e.zeroCount {
		k.bad("native_zero_count", "%s has zero count %d, the SDK aggregated %d", at, h.GetZeroCount(), e.zeroCount)
	}
	if h.GetZeroThreshold() != e.zeroThreshold {
		k.bad("native_zero_threshold", "%s has zero threshold %v, the SDK has %v", at, h.GetZeroThreshold(), e.zeroThreshold)
	}
	if h.GetSampleCount() != pt.count {
		k.bad("histogram_count", "%s _count = %d, the SDK aggregated %d", at, h.GetSampleCount(), pt.count)
	}
	if h.GetSampleSum() != pt.value {
		k.bad("histogram_sum", "%s _sum = %v, the SDK aggregated %v", at, h.GetSampleSum(), pt.value)
	}
	gpos, err := decodeSpans(h.GetPositiveSpan(), h.GetPositiveDelta())
	if err != nil {
		k.bad("native_encoding", "%s positive buckets: %v", at, err)
		return
	}
	gneg, err := decodeSpans(h.GetNegativeSpan(), h.GetNegativeDelta())
	if err != nil {
		k.bad("native_encoding", "%s negative buckets: %v", at, err)
		return
	}
	if !sameBuckets(gpos, wpos) {
		k.bad("native_positive_buckets", "%s positive buckets (index:count) %v, want %v (SDK scale %d offset %d counts %v)", at, gpos, wpos, e.scale, e.posOff, e.pos)
	}
	if !sameBuckets(gneg, wneg) {
		k.bad("native_negative_buckets", "%s negative buckets (index:count) %v, want %v (SDK scale %d offset %d counts %v)", at, gneg, wneg, e.scale, e.negOff, e.neg)
	}
	if uint64(total(gpos)+total(gneg))+h.GetZeroCount() != h.GetSampleCount() {
		k.bad("native_population", "%s: buckets %d + %d + zero %d do not add up to _count %d", at, total(gpos), total(gneg), h.GetZeroCount(), h.GetSampleCount())
	}
	// independent of the SDK's aggregation: where the recorded values must be
	if vals == nil || h.GetSchema() < promSchemaMin || h.GetSchema() > promSchemaMax {
		return
	}
	var np, nn, nz int64
	for _, v := range vals {
		m, sign := gpos, "positive"
		switch {
		case v == 0:
			nz++
			continue
		case v > 0:
			np++
		default:
			nn++
			m, sign = gneg, "negative"
		}
		lo, hi := promIndex(math.Abs(v), h.GetSchema())
		found := false
		for j := lo; j <= hi; j++ {
			found = found || m[j] > 0
		}
		if !found {
			k.bad("native_value_not_in_bucket", "%s: recorded value %v belongs into %s bucket %d at schema %d, populated %s buckets: %v", at, v, sign, lo, h.GetSchema(), sign, m)
			break
		}
	}
	if total(gpos) != np || total(gneg) != nn || int64(h.GetZeroCount()) != nz {
		k.bad("native_sign_totals", "%s: %d positive / %d negative / %d zero observations exposed, recorded were %d / %d / %d", at, total(gpos), total(gneg), h.GetZeroCount(), np, nn, nz)
	}
}

// recorded lists the values instrument i has recorded for the attribute set
// in the first upto rounds.
func recorded(c *Case, i int, set attribute.Set, upto int) []float64 {
	in := &c.Insts[i]
	out := []float64{}
	for r := 0; r < upto && r < len(c.Rounds); r++ {
		for _, m := range c.Rounds[r] {
			if m.I != i {
				continue
			}
			s := in.attrSet(m.T)
			if s.Equivalent() != set.Equivalent() {
				continue
			}
			v := float64(m.V)
			if isFloat(in.Kind) {
				v /= 8
			}
			out = append(out, v)
		}
	}
	return out
}

// knownScaleAbove8 recognises the open finding "an exponential histogram data
// point whose scale is above 8 (the SDK default MaxScale is 20) is handed to
// NewConstNativeHistogram as it is, which rejects the schema; the error goes
// to otel.Handle and the series is missing instead of being shown at schema
// 8": exactly the missing series / family of an instrument aggregated with
// MaxScale > 8 for a point the SDK holds at scale > 8, and the handled error.
// (no longer registered: the defect is repaired)
func knownScaleAbove8(c Case, v vk.Violation) bool {
	switch v.Kind {
	case "native_histogram_missing":
		o, ok := v.Observed.(obsExp)
		return ok && o.Scale > promSchemaMax && o.Inst >= 0 && o.Inst < len(c.Insts) && c.Insts[o.Inst].ExpSize != 0 && c.Insts[o.Inst].ExpScale > promSchemaMax
	case "error_handled_during_scrape":
		if !strings.Contains(v.Msg, "first: invalid native histogram schema") {
			return false
		}
		for i := range c.Insts {
			if c.Insts[i].ExpSize != 0 && c.Insts[i].ExpScale > promSchemaMax {
				return true
			}
		}
	}
	return false
}

var _ = knownScaleAbove8
