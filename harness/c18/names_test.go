package c18

import (
	"regexp"
	"sort"
	"strings"
	"unicode/utf8"

	"go.opentelemetry.io/otel/attribute"
)

// ---------------------------------------------------------------------
// reference model of names and labels (independent of the exporter)

var (
	legacyMetricRe = regexp.MustCompile(`^[a-zA-Z_:][a-zA-Z0-9_:]*$`)
	legacyLabelRe  = regexp.MustCompile(`^[a-zA-Z_][a-zA-Z0-9_]*$`)
)

func legalMetricName(s string, legacy bool) bool {
	if legacy {
		return legacyMetricRe.MatchString(s)
	}
	return s != "" && utf8.ValidString(s)
}

func legalLabelName(s string, legacy bool) bool {
	if legacy {
		return legacyLabelRe.MatchString(s)
	}
	return s != "" && utf8.ValidString(s)
}

func alnum(b byte) bool {
	return (b >= 'a' && b <= 'z') || (b >= 'A' && b <= 'Z') || (b >= '0' && b <= '9')
}

// underscore is the documented underscore escaping: every character that is
// not legal in a legacy name becomes '_' (one for one).
func underscore(s string, colonOK bool) string {
	b := []byte(s)
	for i, ch := range b {
		ok := alnum(ch) || ch == '_' || (colonOK && ch == ':')
		if i == 0 && ch >= '0' && ch <= '9' {
			ok = false
		}
		if !ok {
			b[i] = '_'
		}
	}
	return string(b)
}

// delimClass maps every non-alphanumeric byte to '_': names are compared
// modulo WHICH legal delimiter an illegal character was replaced by.
func delimClass(s string) string {
	b := []byte(s)
	for i, ch := range b {
		if !alnum(ch) {
			b[i] = '_'
		}
	}
	return string(b)
}

// carries reports whether s ends with word as a delimited suffix (or is the word).
func carries(s, word string) bool {
	if !strings.HasSuffix(s, word) {
		return false
	}
	return len(s) == len(word) || !alnum(s[len(s)-len(word)-1])
}

func nsPrefix(c *Case) string {
	if c.Namespace == "" {
		return ""
	}
	ns := c.Namespace
	if c.Legacy {
		ns = underscore(ns, true)
	}
	if !strings.HasSuffix(ns, "_") {
		ns += "_"
	}
	return ns
}

type nameRef struct {
	cands      []string // acceptable family names
	ambiguous  bool     // the statement does not pin one name down
	escaped    bool     // legacy scheme had to escape the instrument name
	wantTotal  bool     // the _total rule applies
	unitWord   string   // the unit rule applies with this word ("" = not)
	totalWhole bool     // counter literally named "total"
}

// refName computes the family names the property statement allows for an
// instrument: [namespace_]stem[_unitword][_total] where a suffix the
// instrument name already carries as a delimited suffix is not repeated.
// Where the statement is silent (the name ends with the word without a
// delimiter or in another letter case, or IS the word "total") both readings
// are accepted.
func refName(c *Case, in *Inst) nameRef {
	r := nameRef{}
	e := in.Name
	if c.Legacy {
		e = underscore(in.Name, true)
		r.escaped = e != in.Name
	}
	r.wantTotal = isCounter(in.Kind) && !c.NoCounterSuffix
	if w, ok := unitWords[in.Unit]; ok && !c.NoUnits {
		r.unitWord = w
	}
	stemsOf := []string{e}
	if r.wantTotal {
		switch {
		case e == "total":
			r.totalWhole, r.ambiguous = true, true
			stemsOf = []string{"total", ""}
		case carries(e, "total"):
			stemsOf = []string{e[:len(e)-len("total")-1]}
		case strings.HasSuffix(strings.ToLower(e), "total"):
			r.ambiguous = true
			p := e[:len(e)-len("total")]
			if p != "" && !alnum(p[len(p)-1]) {
				p = p[:len(p)-1]
			}
			stemsOf = []string{e, p}
		}
	}
	if r.wantTotal {
		// "the trailing delimiter is replaced by the _ of _total" and "the
		// stem is kept as it is" are both accepted (a_ -> a_total | a__total).
		for _, st := range append([]string{}, stemsOf...) {
			if st != "" && !alnum(st[len(st)-1]) {
				r.ambiguous = true
				stemsOf = append(stemsOf, st[:len(st)-1])
			}
		}
	}
	ns := nsPrefix(c)
	seen := map[string]bool{}
	add := func(s string) {
		if r.wantTotal {
			s += "_total"
		}
		if !seen[s] {
			seen[s] = true
			r.cands = append(r.cands, s)
		}
	}
	var full []string
	for _, st := range stemsOf {
		full = append(full, ns+st)
		if st == "" && ns != "" {
			full = append(full, strings.TrimSuffix(ns, "_")) // nothing but the namespace is left
		}
	}
	for _, s := range full {
		switch {
		case r.unitWord == "":
			add(s)
		case s != "" && carries(s, r.unitWord):
			add(s)
		case strings.HasSuffix(strings.ToLower(s), r.unitWord):
			r.ambiguous = true
			add(s)
			add(s + "_" + r.unitWord)
		default:
			add(s + "_" + r.unitWord)
		}
	}
	return r
}

// matches reports whether an observed family name is one of the candidates.
func (r nameRef) matches(observed string) bool {
	for _, x := range r.cands {
		if observed == x || (r.escaped && delimClass(observed) == delimClass(x)) {
			return true
		}
	}
	return false
}

// clashKeys are coarse identities: instruments that share one may end up in
// the same family.
func (r nameRef) clashKeys() []string {
	out := make([]string, len(r.cands))
	for i, x := range r.cands {
		out[i] = strings.ToLower(delimClass(x))
	}
	return out
}

// refLabels is the reference translation of an attribute set: UTF-8 scheme
// keeps the keys; the legacy scheme replaces illegal characters by '_' and
// merges keys that collide into ONE label whose value is the ";"-join of the
// sorted values.
func refLabels(kvs []attribute.KeyValue, legacy bool) map[string]string {
	out := map[string]string{}
	if !legacy {
		for _, kv := range kvs {
			out[string(kv.Key)] = kv.Value.Emit()
		}
		return out
	}
	grouped := map[string][]string{}
	for _, kv := range kvs {
		k := underscore(string(kv.Key), false)
		grouped[k] = append(grouped[k], kv.Value.Emit())
	}
	for k, vs := range grouped {
		sort.Strings(vs)
		out[k] = strings.Join(vs, ";")
	}
	return out
}

func labelKey(m map[string]string) string {
	ks := make([]string, 0, len(m))
	for k := range m {
		ks = append(ks, k)
	}
	sort.Strings(ks)
	var sb strings.Builder
	for _, k := range ks {
		sb.WriteString(k)
		sb.WriteByte(0)
		sb.WriteString(m[k])
		sb.WriteByte(1)
	}
	return sb.String()
}

func toKVs(as []Attr) []attribute.KeyValue {
	out := make([]attribute.KeyValue, len(as))
	for i, a := range as {
		out[i] = kvOf(a.K, a.V)
	}
	return out
}
