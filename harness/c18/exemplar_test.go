package c18

import (
	"errors"
	"fmt"
	"math"
	"sort"
	"strings"

	dto "github.com/prometheus/client_model/go"

	"go.opentelemetry.io/otel/attribute"
	sdkmetric "go.opentelemetry.io/otel/sdk/metric"
	"go.opentelemetry.io/otel/verif/internal/vk"
)

// ---------------------------------------------------------------------
// scrapes of an exporter no MeterProvider knows (yet)

// unregistered is the oracle for a scrape of an exporter that has not been
// handed to a MeterProvider: it has no instruments, no scopes and no resource,
// so it may expose no series of any instrument, no otel_scope_info and no
// resource attribute. (On the unchanged tree the collector reports
// ErrReaderNotRegistered through otel.Handle and exposes nothing. A
// target_info WITHOUT labels would claim nothing and is not held against it.)
func (k *checker) unregistered(tag string, mfs []*dto.MetricFamily, err error) {
	k.legality(tag, mfs)
	if err != nil {
		k.bad("gather_error", "%s: Gather returned an error: %v", tag, err)
	}
	for _, mf := range mfs {
		if mf.GetName() == "target_info" {
			for _, m := range mf.GetMetric() {
				if len(m.GetLabel()) > 0 {
					k.bad("unregistered_exporter_exposes_resource", "%s: an exporter without a MeterProvider exposes target_info with labels %v", tag, labelMap(m))
				}
			}
			continue
		}
		k.bad("unregistered_exporter_exposes_series", "%s: an exporter without a MeterProvider exposes family %q (%d series, first labels %v)", tag, clip(mf.GetName()), len(mf.GetMetric()), seriesLabels(mf))
	}
}

// tolerated reports whether a handled error is one the case is entitled to.
func (k *checker) tolerated(e error) bool {
	c := k.p.c
	switch {
	case k.tolerateSchemaErr && e.Error() == "invalid native histogram schema":
		return true
	case (c.Early || c.Ghost) && errors.Is(e, sdkmetric.ErrReaderNotRegistered):
		return true
	case k.longExemplar && strings.Contains(e.Error(), "exemplar labels have") && strings.Contains(e.Error(), "exceeding the limit"):
		// Prometheus' documented 128 rune limit: the exemplar cannot be attached
		return true
	case k.p.obsFail && errors.Is(e, errCallback):
		// the collaborator's own failure, passed on by the reader
		return true
	case k.p.unrep && (strings.Contains(e.Error(), "is not valid UTF-8") || strings.Contains(e.Error(), "is not a valid label name")):
		// client_golang's refusal of a label the case made unrepresentable on purpose
		return true
	}
	return false
}

// ---------------------------------------------------------------------
// exemplars

type exMeas struct {
	r, k int
	m    Meas
	val  float64
}

// sampledOn lists the measurements of instrument i on the attribute set that
// were made in a sampled span context during the first upto rounds.
func sampledOn(c *Case, i int, set attribute.Set, upto int) (out []exMeas, long bool) {
	in := &c.Insts[i]
	for r := 0; r < upto && r < len(c.Rounds); r++ {
		for k, m := range c.Rounds[r] {
			if m.I != i || m.Ex == 0 {
				continue
			}
			if s := in.attrSet(m.T); s.Equivalent() != set.Equivalent() {
				continue
			}
			v := float64(m.V)
			if isFloat(in.Kind) {
				v /= 8
			}
			out = append(out, exMeas{r: r, k: k, m: m, val: v})
			long = long || (m.Ex == 3 && in.ExDrop)
		}
	}
	return out, long
}

// anyLongExemplar: has a measurement with an over-long filtered attribute been
// offered to a counter / explicit histogram reservoir so far?
func anyLongExemplar(c *Case, upto int) bool {
	for r := 0; r < upto && r < len(c.Rounds); r++ {
		for _, m := range c.Rounds[r] {
			if m.Ex == 3 && c.Insts[m.I].ExDrop {
				return true
			}
		}
	}
	return false
}

// exemplar checks one exposed exemplar: it must be THE record of one sampled
// measurement of this series (ids, value, filtered attribute), and for a
// histogram sit on the bucket (lo, hi] the value belongs to.
func (k *checker) exemplar(at string, ex *dto.Exemplar, cand []exMeas, in *Inst, lo, hi float64) {
	labels := map[string]string{}
	for _, lp := range ex.GetLabel() {
		labels[lp.GetName()] = lp.GetValue()
	}
	var hit *exMeas
	for j := range cand {
		tid, sid := exIDs(cand[j].r, cand[j].k)
		if labels["trace_id"] == tid.String() && labels["span_id"] == sid.String() {
			hit = &cand[j]
		}
	}
	if hit == nil {
		k.bad("exemplar_foreign", "%s: exemplar %v (value %v) is not the trace/span of any sampled measurement made on this series", at, labels, ex.GetValue())
		return
	}
	k.class(true, "exemplar_verified")
	if ex.GetValue() != hit.val {
		k.bad("exemplar_value", "%s: exemplar of trace %s has value %v, the measurement was %v", at, labels["trace_id"], ex.GetValue(), hit.val)
	}
	if !(ex.GetValue() > lo && ex.GetValue() <= hi) {
		k.bad("exemplar_wrong_bucket", "%s: exemplar with value %v sits on bucket (%v, %v]", at, ex.GetValue(), lo, hi)
	}
	wantLabels := 2
	if hit.m.Ex == 2 && in.ExDrop {
		wantLabels = 3
		if labels["ex.url"] != exShort && labels["ex_url"] != exShort {
			k.bad("exemplar_filtered_attribute", "%s: exemplar %v lacks the filtered attribute %s=%q", at, labels, exKey, exShort)
		}
		k.class(true, "exemplar_with_filtered_attribute_verified")
	}
	if len(labels) != wantLabels {
		k.bad("exemplar_labels", "%s: exemplar has labels %v, want trace_id, span_id and %d filtered attribute(s)", at, labels, wantLabels-2)
	}
}

// counterExemplar / histogramExemplars: every EXPOSED exemplar is verified.
// The statement does not promise that exemplars are exposed at all (that is
// the exemplar filter's / reservoir's business), so their absence is only
// recorded as a class, never asserted.
func (k *checker) counterExemplar(at string, m *dto.Metric, cand []exMeas, long bool, in *Inst) {
	ex := m.GetCounter().GetExemplar()
	k.class(long, "exemplar_overlong_on_series")
	if ex != nil {
		k.exemplar(at, ex, cand, in, math.Inf(-1), math.Inf(1))
	} else if len(cand) > 0 && !long {
		k.class(true, "exemplar_absent_although_sampled(not asserted)")
	}
}

func (k *checker) histogramExemplars(at string, bks []*dto.Bucket, cand []exMeas, long bool, in *Inst) {
	k.class(long, "exemplar_overlong_on_series")
	lo := math.Inf(-1)
	for _, b := range bks {
		if ex := b.GetExemplar(); ex != nil {
			k.exemplar(fmt.Sprintf("%s bucket le=%v", at, b.GetUpperBound()), ex, cand, in, lo, b.GetUpperBound())
		}
		lo = b.GetUpperBound()
	}
	if long {
		return
	}
	for _, cm := range cand {
		i := sort.Search(len(bks), func(i int) bool { return bks[i].GetUpperBound() >= cm.val })
		if i >= len(bks) || bks[i].GetExemplar() == nil {
			k.class(true, "exemplar_absent_although_sampled(not asserted)")
			return
		}
	}
}

// knownEmptyFirstHelp recognises the open finding "description conflict whose
// FIRST seen description is empty": validateMetrics returns the existing help
// "" and Collect only replaces the description when that is non-empty, so the
// later instrument keeps its own help and the registry rejects the scrape
// ('has help "x" but should have ""'). Exactly: a Gather error ALL of whose
// parts are that complaint, in a case where an instrument without description
// may share a family with one that has a description.
func knownEmptyFirstHelp(c Case, v vk.Violation) bool {
	if v.Kind != "gather_error" {
		return false
	}
	// "<tag>: Gather returned an error: <err>" with <err> either one error or
	// "N error(s) occurred:\n* e1\n* e2"
	msg := v.Msg
	if i := strings.Index(msg, "returned an error: "); i >= 0 {
		msg = msg[i+len("returned an error: "):]
	}
	if i := strings.Index(msg, "error(s) occurred:"); i >= 0 {
		msg = msg[i+len("error(s) occurred:"):]
	}
	p := newPlan(&c)
	n := 0
	for _, part := range strings.Split(msg, "\n* ") {
		part = strings.TrimSpace(part)
		if part == "" {
			continue
		}
		// a help complaint about a family one of whose instruments has no
		// description (which, once it is the exporter's first definition, is
		// never applied to the others)
		if !strings.HasPrefix(part, "collected metric ") || !strings.Contains(part, " has help ") || !strings.Contains(part, " but should have ") {
			return false
		}
		fam := strings.TrimPrefix(part, "collected metric ")
		if j := strings.IndexByte(fam, ' '); j >= 0 {
			fam = fam[:j]
		}
		fam = strings.Trim(fam, `"`)
		empty, other := false, false
		for i := range c.Insts {
			if p.refs[i].matches(fam) {
				empty = empty || c.Insts[i].Desc == ""
				other = other || c.Insts[i].Desc != ""
			}
		}
		if !empty || !other {
			return false
		}
		n++
	}
	return n > 0
}
