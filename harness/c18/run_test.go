package c18

import (
	"context"
	"errors"
	"fmt"
	"math"
	"sort"
	"strings"
	"sync/atomic"
	"unicode/utf8"

	"github.com/go-logr/logr"
	"github.com/prometheus/client_golang/prometheus"
	dto "github.com/prometheus/client_model/go"
	"github.com/prometheus/common/model"

	"go.opentelemetry.io/otel"
	"go.opentelemetry.io/otel/attribute"
	otelprom "go.opentelemetry.io/otel/exporters/prometheus"
	"go.opentelemetry.io/otel/metric"
	"go.opentelemetry.io/otel/sdk/instrumentation"
	sdkmetric "go.opentelemetry.io/otel/sdk/metric"
	"go.opentelemetry.io/otel/sdk/metric/metricdata"
	"go.opentelemetry.io/otel/sdk/resource"
	"go.opentelemetry.io/otel/trace"
	"go.opentelemetry.io/otel/verif/internal/vk"
)

func init() {
	// The exporter logs its whole input at debug level; nothing of it is an
	// observation of this check.
	otel.SetLogger(logr.Discard())
}

// ---------------------------------------------------------------------
// static analysis of a case

type plan struct {
	c     *Case
	refs  []nameRef
	clash bool // two instruments may map to one family (or share an SDK identity)
	odd   bool // an instrument has attribute sets with different key sets
	alias bool // two attribute sets of one instrument merge into the same label set
	// two scopes of the case merge into the same otel_scope_info label set
	// (attribute keys that differ only in characters the legacy scheme replaces)
	scopeAlias bool
	// clash, but every two instruments that may share a family (or an SDK
	// identity) live in scopes with different (name, version) pairs and the
	// scope labels are on: their series differ, a later definition of another
	// type is dropped, a later help text replaced - a registry Prometheus accepts
	clashSafe bool
	// a View (addressed by instrument name, kind, scope name and version)
	// would also match another instrument of the case
	viewAmbiguous bool
	// what the conflict is about (classes)
	typeConflict, helpConflict bool
	// same instrument name and unit, another data shape (classes)
	twins, twinsSameScope bool
	// elements Prometheus cannot represent (see unrep_test.go)
	badResource bool   // the resource as target_info labels
	badConst    bool   // the resource attributes kept as constant labels
	badScope    []bool // per scope: its otel_scope_info labels (false when scope info is off)
	badTuple    bool   // an attribute set of an instrument
	unrep       bool   // any of them
	// an observable callback of the case returns an error (Inst.ObsFail)
	obsFail bool
}

// readerFailed: did the ManualReader fail for a reason other than the
// callback failures the case contains (which it passes on after collecting)?
func (p *plan) readerFailed(err error) bool {
	return err != nil && !(p.obsFail && errors.Is(err, errCallback))
}

// shape is the kind of data an instrument produces.
func shape(kind string) string {
	switch {
	case isCounter(kind):
		return "monotonic_sum"
	case isHist(kind):
		return "histogram"
	case isGauge(kind):
		return "gauge"
	}
	return "sum"
}

func dataShape(a metricdata.Aggregation) string {
	switch d := a.(type) {
	case metricdata.Sum[int64]:
		if d.IsMonotonic {
			return "monotonic_sum"
		}
		return "sum"
	case metricdata.Sum[float64]:
		if d.IsMonotonic {
			return "monotonic_sum"
		}
		return "sum"
	case metricdata.Gauge[int64], metricdata.Gauge[float64]:
		return "gauge"
	case metricdata.Histogram[int64], metricdata.Histogram[float64], metricdata.ExponentialHistogram[int64], metricdata.ExponentialHistogram[float64]:
		return "histogram"
	}
	return ""
}

// representableKeys: every key is valid UTF-8.
func (p *plan) representableKeys(as []Attr) bool {
	for _, a := range as {
		if !utf8.ValidString(dec(a.K)) {
			return false
		}
	}
	return true
}

func (p *plan) strong() bool {
	return !p.clash && !p.odd && !p.alias && !p.scopeAlias && !p.viewAmbiguous
}

// accepted: the registry must accept every scrape (Gather returns no error).
// That is every strong case and every case whose only weakness is a clash
// between instruments of different scopes.
func (p *plan) accepted() bool {
	return !p.odd && !p.alias && !p.scopeAlias && !p.viewAmbiguous && (!p.clash || p.clashSafe)
}

func (in *Inst) attrSet(t int) attribute.Set {
	keys, vals := in.Keys, []string(nil)
	if t < len(in.Tuples) {
		vals = in.Tuples[t]
	} else {
		keys, vals = in.OddKeys, in.OddVals
	}
	kvs := make([]attribute.KeyValue, len(keys))
	for i, k := range keys {
		kvs[i] = kvOf(k, vals[i])
	}
	return attribute.NewSet(kvs...)
}

func newPlan(c *Case) *plan {
	p := &plan{c: c}
	p.badResource = !representable(refLabels(toKVs(c.Resource), c.Legacy), c.Legacy)
	p.badConst = !representable((&checker{p: p}).constLabels(), c.Legacy)
	p.badScope = make([]bool, len(c.Scopes))
	for si, sc := range c.Scopes {
		p.badScope[si] = !c.NoScopeInfo && !representable(scopeInfoLabels(sc, c.Legacy), c.Legacy)
		p.unrep = p.unrep || p.badScope[si]
	}
	for i := range c.Insts {
		p.obsFail = p.obsFail || c.Insts[i].obsFails() > 0
		for t := 0; t < c.Insts[i].ntuples(); t++ {
			set := c.Insts[i].attrSet(t)
			p.badTuple = p.badTuple || !representable(refLabels(set.ToSlice(), c.Legacy), c.Legacy)
		}
	}
	p.unrep = p.unrep || (p.badResource && !c.NoTargetInfo) || p.badConst || p.badTuple
	// two scopes whose info series would carry the same label set
	infos := map[string]bool{}
	for _, sc := range c.Scopes {
		lk := labelKey(scopeInfoLabels(sc, c.Legacy))
		if infos[lk] {
			p.scopeAlias = true
		}
		infos[lk] = true
	}
	seen := map[string]int{}
	lower := map[string]int{}
	p.clashSafe = !c.NoScopeInfo
	for i := range c.Insts {
		in := &c.Insts[i]
		r := refName(c, in)
		p.refs = append(p.refs, r)
		for j := 0; j < i; j++ {
			o := &c.Insts[j]
			may := strings.EqualFold(o.Name, in.Name)
			for _, a := range p.refs[j].clashKeys() {
				for _, b := range r.clashKeys() {
					may = may || a == b
				}
			}
			if !may {
				continue
			}
			si, sj := c.Scopes[in.Scope], c.Scopes[o.Scope]
			if si.Name == sj.Name && si.Version == sj.Version {
				p.clashSafe = false
			}
			wt := func(k string) int {
				switch {
				case isCounter(k):
					return 0
				case isHist(k):
					return 2
				}
				return 1
			}
			p.typeConflict = p.typeConflict || wt(o.Kind) != wt(in.Kind)
			p.helpConflict = p.helpConflict || (wt(o.Kind) == wt(in.Kind) && o.Desc != in.Desc)
			if o.Name == in.Name && !isObservable(o.Kind) && !isObservable(in.Kind) && instrumentKind(o.Kind) == instrumentKind(in.Kind) &&
				(o.hasView() || in.hasView()) {
				p.viewAmbiguous = true
			}
		}
		for _, k := range r.clashKeys() {
			if j, ok := seen[k]; ok && j != i {
				p.clash = true
			}
			seen[k] = i
		}
		// The SDK identifies instruments of one scope by lower-cased name and
		// kind. Two instruments of ONE scope with the same spelling but another
		// data shape (monotonic sum / other sum / gauge / histogram) are
		// distinct streams the oracle can tell apart; any other coincidence
		// of names inside a scope is treated as a clash. Across scopes only
		// the exported names decide (clash keys above).
		for j := 0; j < i; j++ {
			o := &c.Insts[j]
			if o.Scope == in.Scope && strings.EqualFold(o.Name, in.Name) && !(o.Name == in.Name && shape(o.Kind) != shape(in.Kind)) {
				p.clash = true
			}
			if o.Name == in.Name && o.Unit == in.Unit && shape(o.Kind) != shape(in.Kind) {
				p.twins = true
				p.twinsSameScope = p.twinsSameScope || o.Scope == in.Scope
			}
		}
		_ = lower
		if in.Odd {
			p.odd = true
		}
		// distinct attribute sets that merge into one label set
		bySet := map[attribute.Distinct]string{}
		byLabels := map[string]bool{}
		for t := range in.Tuples {
			s := in.attrSet(t)
			if _, ok := bySet[s.Equivalent()]; ok {
				continue
			}
			lk := labelKey(refLabels(s.ToSlice(), c.Legacy))
			bySet[s.Equivalent()] = lk
			if byLabels[lk] {
				p.alias = true
			}
			byLabels[lk] = true
		}
	}
	return p
}

// ---------------------------------------------------------------------
// the world: one registry + exporter + provider

type world struct {
	c     *Case
	reg   *prometheus.Registry
	mr    *sdkmetric.ManualReader
	mp    *sdkmetric.MeterProvider
	round atomic.Int32
	rec   []func(ctx context.Context, o metric.MeasurementOption, v int) // per instrument, nil for observables
	sets  [][3][]metric.MeasurementOption                                // per instrument: plain / +short ex.url / +long ex.url, per tuple

	early    []*dto.MetricFamily // the scrape before registration (Case.Early)
	earlyErr error
	ghostReg *prometheus.Registry // Case.Ghost
	ghost    *otelprom.Exporter

	// onObserve, when set (before the first collection), is called at the
	// start of every observable callback: a collaborator that takes its time.
	onObserve func()
}

func (w *world) close() {
	if w.mp != nil {
		_ = w.mp.Shutdown(context.Background())
	}
	if w.ghost != nil {
		_ = w.ghost.Shutdown(context.Background())
	}
}

func resFilter(c *Case) attribute.Filter {
	ks := make([]attribute.Key, len(c.ResFilterKeys))
	for i, k := range c.ResFilterKeys {
		ks[i] = attribute.Key(dec(k))
	}
	if c.ResFilter == "deny" {
		return attribute.NewDenyKeysFilter(ks...)
	}
	return attribute.NewAllowKeysFilter(ks...)
}

func resFilterKeeps(c *Case, key string) bool {
	in := false
	for _, k := range c.ResFilterKeys {
		if k == key {
			in = true
		}
	}
	if c.ResFilter == "deny" {
		return !in // a deny list without keys keeps everything
	}
	return in // an allow list without keys keeps nothing
}

func build(c *Case) (*world, error) {
	w := &world{c: c, reg: prometheus.NewRegistry()}
	opts := []otelprom.Option{otelprom.WithRegisterer(w.reg)}
	if c.NoUnits {
		opts = append(opts, otelprom.WithoutUnits())
	}
	if c.NoCounterSuffix {
		opts = append(opts, otelprom.WithoutCounterSuffixes())
	}
	if c.NoScopeInfo {
		opts = append(opts, otelprom.WithoutScopeInfo())
	}
	if c.NoTargetInfo {
		opts = append(opts, otelprom.WithoutTargetInfo())
	}
	if c.Namespace != "" {
		opts = append(opts, otelprom.WithNamespace(c.Namespace))
	}
	if c.ResFilter != "" {
		opts = append(opts, otelprom.WithResourceAsConstantLabels(resFilter(c)))
	}
	exp, err := otelprom.New(opts...)
	if err != nil {
		return nil, fmt.Errorf("prometheus.New: %w", err)
	}
	if c.Ghost {
		// same options, own registry, never handed to a provider
		w.ghostReg = prometheus.NewRegistry()
		gopts := append([]otelprom.Option{}, opts[1:]...)
		w.ghost, err = otelprom.New(append(gopts, otelprom.WithRegisterer(w.ghostReg))...)
		if err != nil {
			return nil, fmt.Errorf("prometheus.New (second exporter): %w", err)
		}
	}
	if c.Early {
		// the scrape endpoint is polled before the SDK is wired up
		w.early, w.earlyErr = w.reg.Gather()
	}
	w.mr = sdkmetric.NewManualReader()
	po := []sdkmetric.Option{
		sdkmetric.WithReader(exp),
		sdkmetric.WithReader(w.mr),
		sdkmetric.WithResource(resource.NewSchemaless(toKVs(c.Resource)...)),
	}
	for i := range c.Insts {
		in := &c.Insts[i]
		if isObservable(in.Kind) || !in.hasView() {
			continue
		}
		// ONE view per instrument (two matching views would make two
		// streams). A view applies to every reader of the provider: the
		// exporter and the ManualReader aggregate the instrument the same way.
		var st sdkmetric.Stream
		if in.ExpSize != 0 {
			st.Aggregation = sdkmetric.AggregationBase2ExponentialHistogram{MaxSize: int32(in.ExpSize), MaxScale: int32(in.ExpScale)}
		}
		if in.boundsByView() {
			// (the instrument option ignores an empty list: only a View can
			// ask for a histogram without any boundary)
			st.Aggregation = sdkmetric.AggregationExplicitBucketHistogram{Boundaries: boundsOf(in)}
		}
		if in.ExDrop {
			st.AttributeFilter = attribute.NewDenyKeysFilter(exKey)
		}
		crit := sdkmetric.Instrument{Name: in.Name, Kind: instrumentKind(in.Kind), Scope: instrumentation.Scope{Name: c.Scopes[in.Scope].Name, Version: c.Scopes[in.Scope].Version}}
		po = append(po, sdkmetric.WithView(sdkmetric.NewView(crit, st)))
	}
	w.mp = sdkmetric.NewMeterProvider(po...)
	meters := make([]metric.Meter, len(c.Scopes))
	for i, s := range c.Scopes {
		mo := []metric.MeterOption{metric.WithInstrumentationVersion(s.Version)}
		if len(s.Attrs) > 0 {
			mo = append(mo, metric.WithInstrumentationAttributes(toKVs(s.Attrs)...))
		}
		meters[i] = w.mp.Meter(s.Name, mo...)
	}
	w.rec = make([]func(ctx context.Context, o metric.MeasurementOption, v int), len(c.Insts))
	w.sets = make([][3][]metric.MeasurementOption, len(c.Insts))
	for i := range c.Insts {
		in := &c.Insts[i]
		m := meters[in.Scope]
		sets := make([]metric.MeasurementOption, in.ntuples())
		for t := range sets {
			base := in.attrSet(t)
			sets[t] = metric.WithAttributeSet(base)
			for x, val := range []string{exShort, exLong} {
				kvs := append(base.ToSlice(), attribute.String(exKey, val))
				w.sets[i][x+1] = append(w.sets[i][x+1], metric.WithAttributeSet(attribute.NewSet(kvs...)))
			}
		}
		w.sets[i][0] = sets
		obs := in.Obs
		obsRow := func() []int {
			r := int(w.round.Load())
			if r >= len(obs) {
				r = len(obs) - 1
			}
			return obs[r]
		}
		fail := in.obsFails()
		icb := func(_ context.Context, o metric.Int64Observer) error {
			if w.onObserve != nil {
				w.onObserve()
			}
			row := obsRow()
			for t, v := range row {
				if fail == 2 && t >= (len(row)+1)/2 {
					break
				}
				o.Observe(int64(v), sets[t])
			}
			if fail > 0 {
				return errCallback
			}
			return nil
		}
		fcb := func(_ context.Context, o metric.Float64Observer) error {
			if w.onObserve != nil {
				w.onObserve()
			}
			row := obsRow()
			for t, v := range row {
				if fail == 2 && t >= (len(row)+1)/2 {
					break
				}
				o.Observe(float64(v)/8, sets[t])
			}
			if fail > 0 {
				return errCallback
			}
			return nil
		}
		var err error
		switch in.Kind {
		case "i64counter":
			var x metric.Int64Counter
			x, err = m.Int64Counter(in.Name, metric.WithUnit(in.Unit), metric.WithDescription(in.Desc))
			w.rec[i] = func(ctx context.Context, o metric.MeasurementOption, v int) { x.Add(ctx, int64(v), o) }
		case "f64counter":
			var x metric.Float64Counter
			x, err = m.Float64Counter(in.Name, metric.WithUnit(in.Unit), metric.WithDescription(in.Desc))
			w.rec[i] = func(ctx context.Context, o metric.MeasurementOption, v int) { x.Add(ctx, float64(v)/8, o) }
		case "i64updown":
			var x metric.Int64UpDownCounter
			x, err = m.Int64UpDownCounter(in.Name, metric.WithUnit(in.Unit), metric.WithDescription(in.Desc))
			w.rec[i] = func(ctx context.Context, o metric.MeasurementOption, v int) { x.Add(ctx, int64(v), o) }
		case "f64updown":
			var x metric.Float64UpDownCounter
			x, err = m.Float64UpDownCounter(in.Name, metric.WithUnit(in.Unit), metric.WithDescription(in.Desc))
			w.rec[i] = func(ctx context.Context, o metric.MeasurementOption, v int) { x.Add(ctx, float64(v)/8, o) }
		case "i64hist":
			var x metric.Int64Histogram
			ho := []metric.Int64HistogramOption{metric.WithUnit(in.Unit), metric.WithDescription(in.Desc)}
			if in.customBounds() && !in.boundsByView() {
				ho = append(ho, metric.WithExplicitBucketBoundaries(boundsOf(in)...))
			}
			x, err = m.Int64Histogram(in.Name, ho...)
			w.rec[i] = func(ctx context.Context, o metric.MeasurementOption, v int) { x.Record(ctx, int64(v), o) }
		case "f64hist":
			var x metric.Float64Histogram
			ho := []metric.Float64HistogramOption{metric.WithUnit(in.Unit), metric.WithDescription(in.Desc)}
			if in.customBounds() && !in.boundsByView() {
				ho = append(ho, metric.WithExplicitBucketBoundaries(boundsOf(in)...))
			}
			x, err = m.Float64Histogram(in.Name, ho...)
			w.rec[i] = func(ctx context.Context, o metric.MeasurementOption, v int) { x.Record(ctx, float64(v)/8, o) }
		case "i64gauge":
			var x metric.Int64Gauge
			x, err = m.Int64Gauge(in.Name, metric.WithUnit(in.Unit), metric.WithDescription(in.Desc))
			w.rec[i] = func(ctx context.Context, o metric.MeasurementOption, v int) { x.Record(ctx, int64(v), o) }
		case "f64gauge":
			var x metric.Float64Gauge
			x, err = m.Float64Gauge(in.Name, metric.WithUnit(in.Unit), metric.WithDescription(in.Desc))
			w.rec[i] = func(ctx context.Context, o metric.MeasurementOption, v int) { x.Record(ctx, float64(v)/8, o) }
		case "i64ocounter":
			_, err = m.Int64ObservableCounter(in.Name, metric.WithUnit(in.Unit), metric.WithDescription(in.Desc), metric.WithInt64Callback(icb))
		case "f64ocounter":
			_, err = m.Float64ObservableCounter(in.Name, metric.WithUnit(in.Unit), metric.WithDescription(in.Desc), metric.WithFloat64Callback(fcb))
		case "i64oupdown":
			_, err = m.Int64ObservableUpDownCounter(in.Name, metric.WithUnit(in.Unit), metric.WithDescription(in.Desc), metric.WithInt64Callback(icb))
		case "f64oupdown":
			_, err = m.Float64ObservableUpDownCounter(in.Name, metric.WithUnit(in.Unit), metric.WithDescription(in.Desc), metric.WithFloat64Callback(fcb))
		case "i64ogauge":
			_, err = m.Int64ObservableGauge(in.Name, metric.WithUnit(in.Unit), metric.WithDescription(in.Desc), metric.WithInt64Callback(icb))
		case "f64ogauge":
			_, err = m.Float64ObservableGauge(in.Name, metric.WithUnit(in.Unit), metric.WithDescription(in.Desc), metric.WithFloat64Callback(fcb))
		default:
			err = fmt.Errorf("harness: unknown kind %q", in.Kind)
		}
		if err != nil {
			w.close()
			return nil, fmt.Errorf("instrument %d (%s %q): %w", i, in.Kind, in.Name, err)
		}
	}
	return w, nil
}

// errCallback is what a failing observable callback (Inst.ObsFail) returns.
var errCallback = errors.New("c18: observable callback failed on purpose")

func (in *Inst) obsFails() int {
	if isObservable(in.Kind) {
		return in.ObsFail
	}
	return 0
}

func (in *Inst) customBounds() bool {
	return in.HasBounds && isHist(in.Kind) && !isObservable(in.Kind) && in.ExpSize == 0
}

// boundsByView: the boundaries are set by a View (always when there are none:
// the instrument option ignores an empty list), else by the instrument option.
func (in *Inst) boundsByView() bool {
	return in.customBounds() && (len(in.Bounds) == 0 || in.BoundsView)
}

// hasView: the case registers a View for this instrument.
func (in *Inst) hasView() bool {
	return !isObservable(in.Kind) && (in.ExpSize != 0 || in.ExDrop || in.boundsByView())
}

func boundsOf(in *Inst) []float64 {
	out := make([]float64, len(in.Bounds))
	for i, b := range in.Bounds {
		out[i] = float64(b)
	}
	return out
}

// the attribute a View filter drops (Inst.ExDrop) and its two values: with
// trace_id (8+32 runes) and span_id (7+16) the long one exceeds the 128 runes
// Prometheus allows for the labels of one exemplar.
const exKey = "ex.url"

var (
	exShort = "http://shop/o?a=1"
	exLong  = "http://shop/orders?" + strings.Repeat("x", 70)
)

// exIDs derives the span context of the measurement at position k of round r.
func exIDs(r, k int) (trace.TraceID, trace.SpanID) {
	return trace.TraceID{0xc1, byte(r + 1), byte(k >> 8), byte(k), 0, 0, 0, 0, 0, 0, 0, 0, 0, 0, 0, 0x18},
		trace.SpanID{0x5a, byte(r + 1), byte(k >> 8), byte(k), 0, 0, 0, 0x18}
}

// apply makes the measurements of round r.
func (w *world) apply(r int, ms []Meas) {
	for k, m := range ms {
		f := w.rec[m.I]
		if f == nil {
			continue
		}
		ctx := context.Background()
		if m.Ex > 0 {
			tid, sid := exIDs(r, k)
			ctx = trace.ContextWithSpanContext(ctx, trace.NewSpanContext(trace.SpanContextConfig{TraceID: tid, SpanID: sid, TraceFlags: trace.FlagsSampled}))
		}
		x := 0
		if m.Ex >= 2 && w.c.Insts[m.I].ExDrop {
			x = m.Ex - 1
		}
		f(ctx, w.sets[m.I][x][m.T], m.V)
	}
}

// ---------------------------------------------------------------------
// oracle

type checker struct {
	p  *plan
	vs []vk.Violation
	// a data point with a scale below -4 was seen: Prometheus has no schema
	// for it, the exporter's "invalid native histogram schema" is not held
	// against it
	tolerateSchemaErr bool
	// a measurement whose exemplar cannot fit Prometheus' 128 runes was made
	longExemplar bool
	classes      map[string]bool // observed while checking (per case)
}

func (k *checker) class(cond bool, name string) {
	if cond {
		if k.classes == nil {
			k.classes = map[string]bool{}
		}
		k.classes[name] = true
	}
}

func (k *checker) flushClasses(info *vk.Info) {
	names := make([]string, 0, len(k.classes))
	for n := range k.classes {
		names = append(names, n)
	}
	sort.Strings(names)
	for _, n := range names {
		info.Class(n)
	}
}

// handled reports the errors that went to otel.Handle during a scrape.
func (k *checker) handled(tag string, errs *vk.ErrCapture) {
	var es []error
	for _, e := range errs.Errors() {
		if k.tolerated(e) {
			continue
		}
		es = append(es, e)
	}
	errs.Reset()
	if len(es) > 0 {
		k.bad("error_handled_during_scrape", "%s: %d errors went to otel.Handle, first: %v", tag, len(es), es[0])
	}
}

func (k *checker) bad(kind, format string, a ...any) {
	if len(k.vs) < 40 {
		k.vs = append(k.vs, vk.V(kind, format, a...))
	}
}

func labelMap(m *dto.Metric) map[string]string {
	out := map[string]string{}
	for _, lp := range m.GetLabel() {
		out[lp.GetName()] = lp.GetValue()
	}
	return out
}

func labelNames(m *dto.Metric) string {
	ns := make([]string, 0, len(m.GetLabel()))
	for _, lp := range m.GetLabel() {
		ns = append(ns, lp.GetName())
	}
	sort.Strings(ns)
	return strings.Join(ns, ",")
}

// legality: every family and label name is legal for the active scheme, and
// the label names are the same on every series of a family.
func (k *checker) legality(tag string, mfs []*dto.MetricFamily) {
	legacy := k.p.c.Legacy
	for _, mf := range mfs {
		if !legalMetricName(mf.GetName(), legacy) {
			k.bad("illegal_metric_name", "%s: family name %q is not legal (legacy scheme %v)", tag, clip(mf.GetName()), legacy)
		}
		first := ""
		for i, m := range mf.GetMetric() {
			dup := map[string]bool{}
			for _, lp := range m.GetLabel() {
				if !legalLabelName(lp.GetName(), legacy) {
					k.bad("illegal_label_name", "%s: family %q has label name %q (legacy scheme %v)", tag, clip(mf.GetName()), lp.GetName(), legacy)
				}
				if dup[lp.GetName()] {
					k.bad("duplicate_label_name", "%s: family %q repeats label %q on one series", tag, clip(mf.GetName()), lp.GetName())
				}
				dup[lp.GetName()] = true
			}
			if ln := labelNames(m); i == 0 {
				first = ln
			} else if ln != first && k.p.strong() && mf.GetName() != "otel_scope_info" {
				k.bad("label_names_differ", "%s: family %q has series with label names [%s] and [%s]", tag, clip(mf.GetName()), first, ln)
			}
		}
	}
}

// histogram self-consistency of an exposed series (holds at any instant).
func (k *checker) histShape(tag, fam string, h *dto.Histogram) {
	prev, prevB := uint64(0), 0.0
	for i, b := range h.GetBucket() {
		if b.GetCumulativeCount() < prev {
			k.bad("buckets_not_cumulative", "%s: %s: bucket le=%v has cumulative count %d after %d", tag, fam, b.GetUpperBound(), b.GetCumulativeCount(), prev)
		}
		if i > 0 && !(b.GetUpperBound() > prevB) {
			k.bad("bucket_bounds_unsorted", "%s: %s: bound %v after %v", tag, fam, b.GetUpperBound(), prevB)
		}
		prev, prevB = b.GetCumulativeCount(), b.GetUpperBound()
	}
	if prev > h.GetSampleCount() {
		k.bad("bucket_exceeds_count", "%s: %s: last finite bucket %d > _count %d", tag, fam, prev, h.GetSampleCount())
	}
}

func instrumentKind(kind string) sdkmetric.InstrumentKind {
	switch kind[3:] {
	case "counter":
		return sdkmetric.InstrumentKindCounter
	case "updown":
		return sdkmetric.InstrumentKindUpDownCounter
	case "hist":
		return sdkmetric.InstrumentKindHistogram
	case "gauge":
		return sdkmetric.InstrumentKindGauge
	}
	return 0
}

func sameScope(s instrumentation.Scope, sc Scope) bool {
	want := attribute.NewSet(toKVs(sc.Attrs)...)
	return s.Name == sc.Name && s.Version == sc.Version && s.Attributes.Equals(&want)
}

// scopeInfoLabels is the reference label set of a scope's otel_scope_info
// series: the scope attributes as a set in which the reserved keys hold the
// REAL name and version, translated by the general rule.
func scopeInfoLabels(sc Scope, legacy bool) map[string]string {
	kvs := append(toKVs(sc.Attrs), attribute.String("otel_scope_name", sc.Name), attribute.String("otel_scope_version", sc.Version))
	set := attribute.NewSet(kvs...) // a later value replaces an earlier one of the same key
	return refLabels(set.ToSlice(), legacy)
}

func (k *checker) constLabels() map[string]string {
	c := k.p.c
	if c.ResFilter == "" {
		return map[string]string{}
	}
	var kept []attribute.KeyValue
	for _, a := range c.Resource {
		if resFilterKeeps(c, a.K) {
			kept = append(kept, kvOf(a.K, a.V))
		}
	}
	return refLabels(kept, c.Legacy)
}

type opt struct {
	upto          int  // measurement rounds applied so far
	skipSyncGauge bool // the final value of a gauge written by several goroutines is schedule dependent per reader
}

// exact is the full oracle for a quiescent scrape: mfs (Gather) against rm
// (the ManualReader of the same provider, collected right after).
func (k *checker) exact(tag string, mfs []*dto.MetricFamily, gerr error, rm *metricdata.ResourceMetrics, o opt) {
	c := k.p.c
	if gerr != nil {
		k.bad("gather_error", "%s: Gather returned an error: %v", tag, gerr)
	}
	fams := map[string]*dto.MetricFamily{}
	for _, mf := range mfs {
		if _, dup := fams[mf.GetName()]; dup {
			k.bad("duplicate_family", "%s: family %q returned twice", tag, clip(mf.GetName()))
		}
		fams[mf.GetName()] = mf
	}
	used := map[string]bool{}

	lenient := false // further series of the family are not held against the exporter
	info := func(name string, want []map[string]string) {
		mf := fams[name]
		used[name] = true
		if len(want) == 0 && lenient {
			return
		}
		if len(want) == 0 {
			if mf != nil {
				k.bad(name+"_unexpected", "%s: %s is exposed (%d series) although it is disabled / has no source", tag, name, len(mf.GetMetric()))
			}
			return
		}
		if mf == nil {
			k.bad(name+"_missing", "%s: %s is not exposed; want %d series", tag, name, len(want))
			return
		}
		if mf.GetType() != dto.MetricType_GAUGE {
			k.bad(name+"_type", "%s: %s has type %v", tag, name, mf.GetType())
		}
		got := map[string]int{}
		for _, m := range mf.GetMetric() {
			got[labelKey(labelMap(m))]++
			if m.GetGauge().GetValue() != 1 {
				k.bad(name+"_value", "%s: %s has value %v, want 1", tag, name, m.GetGauge().GetValue())
			}
		}
		for _, w := range want {
			if got[labelKey(w)] != 1 {
				k.bad(name+"_labels", "%s: %s: want exactly one series with labels %v, got series %v", tag, name, w, seriesLabels(mf))
			}
		}
		if len(mf.GetMetric()) != len(want) && !lenient {
			k.bad(name+"_series", "%s: %s has %d series, want %d", tag, name, len(mf.GetMetric()), len(want))
		}
	}

	// target_info: the resource attributes, present unless disabled.
	switch {
	case c.NoTargetInfo:
		info("target_info", nil)
	case k.p.badResource:
		// a resource Prometheus cannot hold: what becomes of target_info is not
		// asserted (whatever is exposed has passed the registry)
		used["target_info"] = true
		k.class(fams["target_info"] == nil, "unrepresentable_resource:target_info_left_out")
		k.class(fams["target_info"] != nil, "unrepresentable_resource:target_info_exposed")
	default:
		info("target_info", []map[string]string{refLabels(toKVs(c.Resource), c.Legacy)})
	}
	// otel_scope_info: one series per scope that has metrics, unless disabled.
	// A scope is in use when the SDK reports metrics for it; its series is
	// described by the CASE's scope: the scope's attributes with the real name
	// and version (the reserved labels cannot be overridden by an attribute
	// of the same key), then translated like any attribute set.
	var scopes []map[string]string
	anyBadScope := false // a scope in use whose info series cannot be represented: nothing asserted about it
	if !c.NoScopeInfo {
		for _, sm := range rm.ScopeMetrics {
			found := false
			for si := range c.Scopes {
				if sameScope(sm.Scope, c.Scopes[si]) {
					if !k.p.badScope[si] {
						scopes = append(scopes, scopeInfoLabels(c.Scopes[si], c.Legacy))
					} else {
						anyBadScope = true
					}
					found = true
					break
				}
			}
			if !found {
				k.bad("sdk_scope_unknown", "%s: the SDK reports scope %q %q %s which the case does not have", tag, sm.Scope.Name, sm.Scope.Version, sm.Scope.Attributes.Encoded(attribute.DefaultEncoder()))
			}
		}
	}
	lenient = anyBadScope
	info("otel_scope_info", scopes)
	lenient = false

	constL := k.constLabels()
	// families that carry an acceptable name of some instrument
	claimed := map[string]bool{"target_info": true, "otel_scope_info": true}
	for i := range c.Insts {
		for _, f := range mfs {
			if k.p.refs[i].matches(f.GetName()) {
				claimed[f.GetName()] = true
			}
		}
	}
	for i := range c.Insts {
		in := &c.Insts[i]
		ref := k.p.refs[i]
		sc := c.Scopes[in.Scope]
		// the SDK's own view of the instrument
		var data metricdata.Aggregation
		for _, sm := range rm.ScopeMetrics {
			if !sameScope(sm.Scope, sc) {
				continue
			}
			for _, m := range sm.Metrics {
				if m.Name == in.Name && dataShape(m.Data) == shape(in.Kind) {
					data = m.Data
				}
			}
		}
		pts := points(data)
		// the family
		var mf *dto.MetricFamily
		for _, f := range mfs {
			if ref.matches(f.GetName()) {
				if mf != nil {
					k.bad("two_families", "%s: instrument %d %q maps to families %q and %q", tag, i, in.Name, clip(mf.GetName()), f.GetName())
				}
				mf = f
				used[f.GetName()] = true
			}
		}
		if k.p.badScope[in.Scope] {
			// the scope's own labels cannot be represented: nothing is asserted
			// about its instruments (the unchanged tree leaves the scope out)
			k.class(mf == nil, "unrepresentable_scope:instruments_left_out")
			k.class(mf != nil, "unrepresentable_scope:instruments_exposed")
			continue
		}
		// the labels every data point must be exposed with; a point whose labels
		// Prometheus cannot hold is not expected (and cannot be there)
		wants := make([]map[string]string, len(pts))
		canShow := make([]bool, len(pts))
		for pi, pt := range pts {
			want := refLabels(pt.attrs.ToSlice(), c.Legacy)
			if !c.NoScopeInfo {
				want["otel_scope_name"] = sc.Name
				want["otel_scope_version"] = sc.Version
			}
			for n, v := range constL {
				want[n] = v
			}
			wants[pi], canShow[pi] = want, representable(want, c.Legacy)
			k.class(!canShow[pi], "unrepresentable_series(not expected)")
		}
		if len(pts) == 0 {
			if mf != nil {
				k.bad("phantom_family", "%s: instrument %d %q has no data points in the SDK but family %q is exposed", tag, i, in.Name, clip(mf.GetName()))
			}
			continue
		}
		// exponential histogram points: scale < -4 cannot be shown (nothing
		// asserted), scale > 8 must be shown at schema 8
		required, above8 := 0, int32(0)
		for pi, pt := range pts {
			if !canShow[pi] {
				continue
			}
			if e := pt.exp; e != nil {
				k.class(e.unrepresentable(), "exp_point_scale_below_-4(not representable, nothing asserted)")
				k.class(e.needsDownscale(), "exp_point_scale_above_8(want schema 8)")
				k.class(!e.unrepresentable() && !e.needsDownscale(), "exp_point_scale_-4..8")
				k.class(e.scale < 0 && !e.unrepresentable(), "exp_point_negative_scale")
				k.class(int(e.scale) < in.ExpScale, "exp_point_rescaled(scale<MaxScale)")
				k.class(len(e.pos) > 0 && len(e.neg) > 0, "exp_point_positive_and_negative_buckets")
				k.class(len(e.pos) > 0 && len(e.neg) > 0 && e.posOff != e.negOff, "exp_point_offsets_differ")
				k.class(len(e.pos) > 0 && len(e.neg) == 0, "exp_point_positive_only")
				k.class(len(e.pos) == 0 && len(e.neg) > 0, "exp_point_negative_only")
				k.class(e.zeroCount > 0, "exp_point_zero_count")
			}
			if pt.exp != nil && pt.exp.unrepresentable() {
				k.tolerateSchemaErr = true
				continue
			}
			required++
			if pt.exp != nil && pt.exp.needsDownscale() && above8 >= 0 {
				above8 = pt.exp.scale
			} else {
				above8 = -1
			}
		}
		if in.ExpSize != 0 && !isObservable(in.Kind) && pts[0].exp == nil {
			k.bad("setup_view_not_applied", "%s: instrument %d %q is not aggregated as an exponential histogram by the SDK", tag, i, clip(in.Name))
		}
		if mf == nil && required == 0 {
			continue
		}
		if mf == nil && above8 > 0 {
			v := vk.V("native_histogram_missing", "%s: instrument %d (%s %q, exponential MaxSize %d MaxScale %d): all its data points have a scale above 8 (e.g. %d) and no family %s is exposed among %v; want them at schema 8", tag, i, in.Kind, clip(in.Name), in.ExpSize, in.ExpScale, above8, strings.Join(quoteAll(ref.cands), " | "), familyNames(mfs))
			v.Observed = obsExp{Inst: i, Scale: above8}
			k.vs = append(k.vs, v)
			continue
		}
		if mf == nil {
			v := vk.V(k.nameKind(in, ref, mfs, claimed), "%s: instrument %d (%s %q unit %q): no family named %s among %v", tag, i, in.Kind, clip(in.Name), in.Unit, strings.Join(quoteAll(ref.cands), " | "), familyNames(mfs))
			v.Observed = i // the instrument, for the known-finding matcher
			k.vs = append(k.vs, v)
			continue
		}
		wantType := dto.MetricType_GAUGE
		switch {
		case isCounter(in.Kind):
			wantType = dto.MetricType_COUNTER
		case isHist(in.Kind):
			wantType = dto.MetricType_HISTOGRAM
		}
		if mf.GetType() != wantType {
			k.bad("family_type", "%s: family %q of %s %q has type %v, want %v", tag, clip(mf.GetName()), in.Kind, in.Name, mf.GetType(), wantType)
			continue
		}
		series := map[string]*dto.Metric{}
		for _, m := range mf.GetMetric() {
			lk := labelKey(labelMap(m))
			if series[lk] != nil {
				k.bad("duplicate_series", "%s: family %q has two series with labels %v", tag, clip(mf.GetName()), labelMap(m))
			}
			series[lk] = m
		}
		if len(mf.GetMetric()) > len(pts) {
			// (missing ones are reported one by one below)
			k.bad("series_count", "%s: family %q has %d series, the SDK has %d data points", tag, clip(mf.GetName()), len(mf.GetMetric()), len(pts))
		}
		for pi, pt := range pts {
			want := wants[pi]
			if !canShow[pi] {
				continue
			}
			m := series[labelKey(want)]
			if m == nil && pt.exp != nil && pt.exp.unrepresentable() {
				continue
			}
			if m == nil && pt.exp != nil && pt.exp.needsDownscale() {
				v := vk.V("native_histogram_missing", "%s: family %q: no series with labels %v for the exponential histogram data point %s of scale %d; want it at schema 8; series: %v", tag, clip(mf.GetName()), want, pt.attrs.Encoded(attribute.DefaultEncoder()), pt.exp.scale, seriesLabels(mf))
				v.Observed = obsExp{Inst: i, Scale: pt.exp.scale}
				k.vs = append(k.vs, v)
				continue
			}
			if m == nil {
				k.bad(k.labelKind(want, mf), "%s: family %q: no series with labels %v for data point %s; series: %v", tag, clip(mf.GetName()), want, pt.attrs.Encoded(attribute.DefaultEncoder()), seriesLabels(mf))
				continue
			}
			switch wantType {
			case dto.MetricType_COUNTER:
				if got := m.GetCounter().GetValue(); got != pt.value {
					k.bad("counter_value", "%s: %q%v = %v, the SDK aggregated %v", tag, clip(mf.GetName()), want, got, pt.value)
				}
				if !isObservable(in.Kind) {
					cand, long := sampledOn(c, i, pt.attrs, o.upto)
					k.counterExemplar(fmt.Sprintf("%s: %q%v", tag, clip(mf.GetName()), want), m, cand, long, in)
				}
			case dto.MetricType_GAUGE:
				if o.skipSyncGauge && isGauge(in.Kind) && !isObservable(in.Kind) {
					continue
				}
				if got := m.GetGauge().GetValue(); got != pt.value {
					k.bad("gauge_value", "%s: %q%v = %v, the SDK aggregated %v", tag, clip(mf.GetName()), want, got, pt.value)
				}
			case dto.MetricType_HISTOGRAM:
				h := m.GetHistogram()
				if pt.exp != nil {
					k.native(tag, mf.GetName(), want, h, pt, recorded(c, i, pt.attrs, o.upto))
					continue
				}
				k.histShape(tag, mf.GetName(), h)
				if h.GetSampleCount() != pt.count {
					k.bad("histogram_count", "%s: %q%v _count = %d, the SDK aggregated %d", tag, clip(mf.GetName()), want, h.GetSampleCount(), pt.count)
				}
				if h.GetSampleSum() != pt.value {
					k.bad("histogram_sum", "%s: %q%v _sum = %v, the SDK aggregated %v", tag, clip(mf.GetName()), want, h.GetSampleSum(), pt.value)
				}
				bks := h.GetBucket()
				if n := len(bks); n == len(pt.bounds)+1 && math.IsInf(bks[n-1].GetUpperBound(), 1) {
					// client_golang adds the +Inf bucket when it carries an exemplar
					if bks[n-1].GetCumulativeCount() != pt.count || bks[n-1].GetExemplar() == nil {
						k.bad("histogram_bucket", "%s: %q%v explicit +Inf bucket has count %d (exemplar %v), _count is %d", tag, clip(mf.GetName()), want, bks[n-1].GetCumulativeCount(), bks[n-1].GetExemplar() != nil, pt.count)
					}
					bks = bks[:n-1]
				}
				cand, long := sampledOn(c, i, pt.attrs, o.upto)
				k.histogramExemplars(fmt.Sprintf("%s: %q%v", tag, clip(mf.GetName()), want), h.GetBucket(), cand, long, in)
				if len(bks) != len(pt.bounds) {
					k.bad("histogram_buckets", "%s: %q%v has %d finite buckets, the SDK has %d bounds", tag, clip(mf.GetName()), want, len(bks), len(pt.bounds))
					continue
				}
				cum := uint64(0)
				for bi, b := range bks {
					cum += pt.buckets[bi]
					if b.GetUpperBound() != pt.bounds[bi] || b.GetCumulativeCount() != cum {
						k.bad("histogram_bucket", "%s: %q%v bucket %d is le=%v count=%d, want le=%v cumulative count=%d (SDK per-bucket counts %v)", tag, clip(mf.GetName()), want, bi, b.GetUpperBound(), b.GetCumulativeCount(), pt.bounds[bi], cum, pt.buckets)
						break
					}
				}
			}
		}
	}
	for _, mf := range mfs {
		if !used[mf.GetName()] {
			k.bad("unexpected_family", "%s: family %q belongs to no instrument of the case", tag, clip(mf.GetName()))
		}
	}
}

type point struct {
	attrs   attribute.Set
	value   float64 // sum / gauge value / histogram sum
	count   uint64
	bounds  []float64
	buckets []uint64
	exp     *expPoint // exponential histogram data point
}

func points(a metricdata.Aggregation) []point {
	var out []point
	switch d := a.(type) {
	case metricdata.Sum[int64]:
		for _, dp := range d.DataPoints {
			out = append(out, point{attrs: dp.Attributes, value: float64(dp.Value)})
		}
	case metricdata.Sum[float64]:
		for _, dp := range d.DataPoints {
			out = append(out, point{attrs: dp.Attributes, value: dp.Value})
		}
	case metricdata.Gauge[int64]:
		for _, dp := range d.DataPoints {
			out = append(out, point{attrs: dp.Attributes, value: float64(dp.Value)})
		}
	case metricdata.Gauge[float64]:
		for _, dp := range d.DataPoints {
			out = append(out, point{attrs: dp.Attributes, value: dp.Value})
		}
	case metricdata.Histogram[int64]:
		for _, dp := range d.DataPoints {
			out = append(out, point{attrs: dp.Attributes, value: float64(dp.Sum), count: dp.Count, bounds: dp.Bounds, buckets: dp.BucketCounts})
		}
	case metricdata.Histogram[float64]:
		for _, dp := range d.DataPoints {
			out = append(out, point{attrs: dp.Attributes, value: dp.Sum, count: dp.Count, bounds: dp.Bounds, buckets: dp.BucketCounts})
		}
	case metricdata.ExponentialHistogram[int64]:
		for _, dp := range d.DataPoints {
			out = append(out, point{attrs: dp.Attributes, value: float64(dp.Sum), count: dp.Count, exp: expOf(dp)})
		}
	case metricdata.ExponentialHistogram[float64]:
		for _, dp := range d.DataPoints {
			out = append(out, point{attrs: dp.Attributes, value: dp.Sum, count: dp.Count, exp: expOf(dp)})
		}
	}
	return out
}

func quoteAll(ss []string) []string {
	out := make([]string, len(ss))
	for i, s := range ss {
		out[i] = fmt.Sprintf("%q", clip(s))
	}
	return out
}

func clip(s string) string {
	if len(s) > 80 {
		return s[:40] + "…" + s[len(s)-30:]
	}
	return s
}

func familyNames(mfs []*dto.MetricFamily) []string {
	var out []string
	for _, mf := range mfs {
		out = append(out, fmt.Sprintf("%q", clip(mf.GetName())))
	}
	return out
}

func seriesLabels(mf *dto.MetricFamily) []map[string]string {
	var out []map[string]string
	for _, m := range mf.GetMetric() {
		out = append(out, labelMap(m))
	}
	return out
}

// nameKind names the broken naming clause when no family carries an
// acceptable name: it looks for the family that was meant and says what is
// wrong with its suffixes.
func (k *checker) nameKind(in *Inst, ref nameRef, mfs []*dto.MetricFamily, claimed map[string]bool) string {
	c := k.p.c
	stem := in.Name
	if c.Legacy {
		stem = underscore(stem, true)
	}
	for _, w := range []string{"total", ref.unitWord, "total"} {
		if w != "" && carries(stem, w) && len(stem) > len(w) {
			stem = stem[:len(stem)-len(w)-1]
		}
	}
	stem = delimClass(stem)
	for _, mf := range mfs {
		n := delimClass(mf.GetName())
		i := strings.Index(n, stem)
		if i < 0 || claimed[mf.GetName()] {
			continue
		}
		head, tail := n[:i], n[i+len(stem):]
		u, dn := ref.unitWord, delimClass(in.Name)
		body := tail
		if ref.wantTotal {
			body = strings.TrimSuffix(tail, "_total")
		}
		off := unitWords[in.Unit] // the word a disabled unit rule would have added
		switch {
		case head != delimClass(nsPrefix(c)):
			return "namespace_prefix"
		case ref.wantTotal && !strings.HasSuffix(tail, "_total"):
			return "total_suffix_missing_or_not_last"
		case ref.wantTotal && strings.HasSuffix(body, "_total") && !strings.HasSuffix(dn, "_total_total"):
			return "total_suffix_doubled"
		case !ref.wantTotal && strings.HasSuffix(tail, "_total") && !strings.HasSuffix(dn, "_total"):
			return "total_suffix_unwanted"
		case u != "" && strings.HasSuffix(body, u+"_"+u) && !strings.Contains(dn, u+"_"+u):
			return "unit_suffix_doubled"
		case u != "" && !strings.HasSuffix(stem+body, u):
			return "unit_suffix_missing_or_misplaced"
		case u == "" && off != "" && strings.HasSuffix(body, "_"+off) && !strings.Contains(dn, off):
			return "unit_suffix_unwanted"
		}
		return "family_name"
	}
	return "family_missing"
}

// labelKind names the broken label clause when a data point has no series.
func (k *checker) labelKind(want map[string]string, mf *dto.MetricFamily) string {
	wantNames := make([]string, 0, len(want))
	for n := range want {
		wantNames = append(wantNames, n)
	}
	sort.Strings(wantNames)
	wn := strings.Join(wantNames, ",")
	for _, m := range mf.GetMetric() {
		if labelNames(m) != wn {
			switch {
			case !k.p.c.NoScopeInfo && labelMap(m)["otel_scope_name"] == "":
				return "scope_labels_missing"
			case k.p.c.NoScopeInfo && labelMap(m)["otel_scope_name"] != "":
				return "scope_labels_unexpected"
			}
			return "label_names"
		}
	}
	return "label_values"
}

// ---------------------------------------------------------------------
// Run

func setScheme(c *Case) (restore func()) {
	old := model.NameValidationScheme //nolint:staticcheck // the global IS the configuration under test
	if c.Legacy {
		model.NameValidationScheme = model.LegacyValidation //nolint:staticcheck
	} else {
		model.NameValidationScheme = model.UTF8Validation //nolint:staticcheck
	}
	return func() { model.NameValidationScheme = old } //nolint:staticcheck
}

func classify(c *Case, p *plan, info *vk.Info) {
	hasWord, collide := false, false
	for i := range c.Insts {
		in := &c.Insts[i]
		ln := strings.ToLower(in.Name)
		r := p.refs[i]
		word := strings.Contains(ln, "total")
		for _, w := range unitWords {
			if strings.Contains(ln, w) {
				word = true
			}
		}
		hasWord = hasWord || word
		info.ClassIf(r.totalWhole, "counter_named_total")
		info.ClassIf(r.wantTotal && carries(ln, "total") && !r.totalWhole, "counter_name_carries_total")
		info.ClassIf(!r.wantTotal && carries(ln, "total"), "non_counter_or_disabled_name_ends_total")
		info.ClassIf(r.unitWord != "" && strings.Contains(ln, r.unitWord), "name_contains_own_unit_word")
		info.ClassIf(r.unitWord != "" && r.wantTotal && strings.HasSuffix(delimClass(ln), r.unitWord+"_total"), "name_ends_unit_total")
		info.ClassIf(r.ambiguous, "name_ambiguous(two readings accepted)")
		info.ClassIf(r.escaped, "legacy_name_escaped")
		info.ClassIf(len(in.Name) >= 254, "name_max_length")
		info.ClassIf(!alnum(in.Name[len(in.Name)-1]), "name_trailing_delimiter")
		info.ClassIf(r.unitWord != "", "known_unit")
		info.ClassIf(in.Unit != "" && unitWords[in.Unit] == "", "unknown_unit")
		info.Class("kind_" + in.Kind[3:])
		san := map[string]bool{}
		for _, key := range in.Keys {
			s := underscore(key, false)
			if san[s] {
				collide = true
			}
			san[s] = true
		}
		info.ClassIf(in.customBounds(), "histogram_with_custom_boundaries")
		info.ClassIf(in.customBounds() && len(in.Bounds) == 0, "histogram_with_no_boundaries_at_all")
		info.ClassIf(in.boundsByView(), "histogram_boundaries_set_by_view")
		info.ClassIf(in.customBounds() && len(in.Bounds) == 1, "histogram_with_one_boundary")
		info.ClassIf(in.customBounds() && len(in.Bounds) > 0 && in.Bounds[0] < 0, "histogram_with_negative_boundary")
		info.ClassIf(in.obsFails() == 1, "observable_callback_fails_after_observing")
		info.ClassIf(in.obsFails() == 2, "observable_callback_fails_half_way")
		typed := false
		for _, tu := range in.Tuples {
			for _, v := range tu {
				typed = typed || isTyped(v)
			}
		}
		info.ClassIf(typed, "instrument_attribute_value_not_a_string")
		info.ClassIf(in.ExDrop, "instrument_with_attribute_filter_view")
		info.ClassIf(in.ExpSize != 0, "exp_histogram_instrument")
		info.ClassIf(in.ExpSize != 0, fmt.Sprintf("exp_histogram_maxsize_%d_maxscale_%d", in.ExpSize, in.ExpScale))
		info.ClassIf(in.ExpSize != 0, "exp_histogram_sign_mode_"+[]string{"positive_only", "negative_only", "mixed"}[in.ExpSign%3])
		info.ClassIf(len(in.Keys) == 0, "instrument_without_attributes")
		info.ClassIf(c.Legacy && strings.Contains(strings.Join(in.Keys, ","), ":"), "legacy_key_with_colon(repaired 4beac6c)")
	}
	info.ClassIf(collide && c.Legacy, "keys_collide_after_sanitisation(legacy)")
	info.ClassIf(collide && !c.Legacy, "keys_would_collide_but_utf8")
	exs := map[int]bool{}
	for _, rd := range c.Rounds {
		for _, m := range rd {
			exs[m.Ex] = true
		}
	}
	info.ClassIf(exs[1] || exs[2] || exs[3], "measurement_in_sampled_span")
	info.ClassIf(exs[2], "exemplar_short_filtered_attribute")
	info.ClassIf(exs[3], "exemplar_overlong_filtered_attribute")
	info.ClassIf(c.Early, "scrape_before_registration")
	info.ClassIf(c.Ghost, "second_never_registered_exporter")
	info.ClassIf(c.Legacy, "scheme_legacy")
	info.ClassIf(!c.Legacy, "scheme_utf8")
	info.ClassIf(c.NoUnits, "without_units")
	info.ClassIf(c.NoCounterSuffix, "without_counter_suffixes")
	info.ClassIf(c.NoScopeInfo, "without_scope_info")
	info.ClassIf(c.NoTargetInfo, "without_target_info")
	info.ClassIf(c.Namespace != "", "namespace")
	info.ClassIf(c.ResFilter != "", "resource_as_constant_labels")
	info.ClassIf(len(c.Scopes) > 1, "two_scopes")
	info.ClassIf(len(c.Scopes) > 2, "three_scopes")
	for si, sc := range c.Scopes {
		san := map[string]bool{}
		for _, a := range sc.Attrs {
			u := underscore(dec(a.K), false)
			reserved := u == "otel_scope_name" || u == "otel_scope_version"
			info.ClassIf(dec(a.K) == u && reserved, "scope_attr_key_is_reserved_label")
			info.ClassIf(dec(a.K) != u && reserved && c.Legacy, "scope_attr_key_sanitises_to_reserved_label(legacy: merged)")
			info.ClassIf(dec(a.K) != u && reserved && !c.Legacy, "scope_attr_key_would_sanitise_to_reserved_label(utf8)")
			info.ClassIf(san[u] && c.Legacy, "scope_attr_keys_collide_after_sanitisation(legacy)")
			info.ClassIf(!reserved, "scope_attr_ordinary")
			san[u] = true
		}
		for sj := 0; sj < si; sj++ {
			o := c.Scopes[sj]
			info.ClassIf(o.Name == sc.Name, "scopes_share_name")
			info.ClassIf(o.Name == sc.Name && o.Version == sc.Version, "scopes_share_name_and_version(attributes differ)")
			for _, a := range sc.Attrs {
				info.ClassIf((a.K == "otel_scope_name" && a.V == o.Name) || (a.K == "otel_scope_version" && a.V == o.Version), "scope_attr_names_another_scope")
			}
		}
	}
	info.ClassIf(p.scopeAlias, "weak:scope_info_series_alias_after_merge")
	info.ClassIf(p.twins, "same_instrument_name_and_unit_other_kind")
	info.ClassIf(p.twins && p.strong(), "same_instrument_name_and_unit_other_kind(strong: exported names differ)")
	info.ClassIf(p.twinsSameScope && p.strong(), "same_instrument_name_and_unit_other_kind_in_one_scope(strong)")
	info.ClassIf(p.viewAmbiguous, "weak:view_matches_two_instruments")
	info.ClassIf(p.clash, "weak:instruments_may_share_family")
	info.ClassIf(p.clash && p.accepted(), "clash_across_scopes(registry must accept)")
	info.ClassIf(p.clash && p.accepted() && p.typeConflict, "clash_across_scopes_type_conflict")
	info.ClassIf(p.clash && p.accepted() && p.helpConflict, "clash_across_scopes_help_conflict")
	info.ClassIf(p.clash && !p.accepted(), "clash_not_acceptable(no panic only)")
	info.ClassIf(p.clash && !p.clashSafe && c.NoScopeInfo, "clash_not_acceptable:no_scope_labels")
	info.ClassIf(p.clash && !p.clashSafe && !c.NoScopeInfo, "clash_not_acceptable:same_scope_name_and_version")
	info.ClassIf(p.clash && p.viewAmbiguous, "clash_not_acceptable:view_matches_two_instruments")
	info.ClassIf(p.clash && (p.odd || p.alias || p.scopeAlias), "clash_not_acceptable:other_weakness")
	for _, a := range c.Resource {
		info.ClassIf(isTyped(a.V), "resource_attribute_value_not_a_string")
	}
	for _, sc := range c.Scopes {
		for _, a := range sc.Attrs {
			info.ClassIf(isTyped(a.V), "scope_attribute_value_not_a_string")
		}
	}
	info.ClassIf(p.badResource, "resource_not_valid_utf8")
	info.ClassIf(p.badResource && !c.NoTargetInfo, "resource_not_valid_utf8_and_target_info_on")
	info.ClassIf(p.badResource && !p.representableKeys(c.Resource), "resource_key_not_valid_utf8(utf8 scheme: unrepresentable)")
	info.ClassIf(p.badConst, "constant_labels_not_valid_utf8(no series representable)")
	for si := range c.Scopes {
		info.ClassIf(p.badScope[si], "scope_attributes_not_valid_utf8")
	}
	info.ClassIf(p.badTuple, "instrument_attribute_value_not_valid_utf8")
	info.ClassIf(p.unrep, "some_element_unrepresentable(registry must still accept, the rest exact)")
	info.ClassIf(p.unrep && p.strong(), "some_element_unrepresentable(strong)")
	info.ClassIf(p.odd, "weak:inconsistent_key_sets")
	info.ClassIf(p.alias, "weak:attribute_sets_alias_after_merge")
	info.ClassIf(p.strong(), "strong(exact oracle)")
	info.NonTrivial = hasWord || (collide && c.Legacy) || c.Conc
}

func runSeq(c Case) ([]vk.Violation, vk.Info) {
	var info vk.Info
	p := newPlan(&c)
	classify(&c, p, &info)
	k := &checker{p: p}
	defer setScheme(&c)()
	errs := &vk.ErrCapture{}
	otel.SetErrorHandler(errs)

	w, err := build(&c)
	if err != nil {
		k.bad("setup_error", "%v", err)
		return k.vs, info
	}
	defer w.close()
	if c.Early {
		k.unregistered("scrape before registration", w.early, w.earlyErr)
	}
	for r := range c.Rounds {
		w.round.Store(int32(r))
		w.apply(r, c.Rounds[r])
		k.longExemplar = anyLongExemplar(&c, r+1)
		tag := fmt.Sprintf("scrape %d", r+1)
		mfs, gerr := w.reg.Gather()
		var rm metricdata.ResourceMetrics
		cerr := w.mr.Collect(context.Background(), &rm)
		if c.Ghost {
			// right after the first exporter's scrape: whatever it left behind
			// in process-wide state is what the second one would pick up
			gm, ge := w.ghostReg.Gather()
			k.unregistered(fmt.Sprintf("never registered second exporter after scrape %d", r+1), gm, ge)
		}
		k.legality(tag, mfs)
		if !p.strong() {
			// soundness notes: only "no panic" and legal names - and, where the
			// clash is between instruments of different scopes, a scrape the
			// registry accepts
			if p.accepted() {
				if gerr != nil {
					k.bad("gather_error", "%s: Gather returned an error: %v", tag, gerr)
				}
				k.handled(tag, errs)
			}
			continue
		}
		if p.readerFailed(cerr) {
			k.bad("manual_reader_error", "%s: ManualReader.Collect: %v", tag, cerr)
			continue
		}
		k.exact(tag, mfs, gerr, &rm, opt{upto: r + 1})
		k.handled(tag, errs)
	}
	info.ClassIf(len(c.Rounds) > 1, "several_scrapes")
	k.flushClasses(&info)
	return k.vs, info
}

// snapshot of the monotone quantities of one scrape.
func monotone(mfs []*dto.MetricFamily) map[string]float64 {
	out := map[string]float64{}
	for _, mf := range mfs {
		for _, m := range mf.GetMetric() {
			key := mf.GetName() + "\x02" + labelKey(labelMap(m))
			switch mf.GetType() {
			case dto.MetricType_COUNTER:
				out[key] = m.GetCounter().GetValue()
			case dto.MetricType_HISTOGRAM:
				out[key+"\x02count"] = float64(m.GetHistogram().GetSampleCount())
				for _, b := range m.GetHistogram().GetBucket() {
					if math.IsInf(b.GetUpperBound(), 1) {
						continue // only there while it carries an exemplar
					}
					out[fmt.Sprintf("%s\x02le%v", key, b.GetUpperBound())] = float64(b.GetCumulativeCount())
				}
			}
		}
	}
	return out
}

func runConc(c Case) ([]vk.Violation, vk.Info) {
	var info vk.Info
	p := newPlan(&c)
	classify(&c, p, &info)
	info.ClassIf(len(c.Rounds) >= 2, "several_writers")
	k := &checker{p: p}
	defer setScheme(&c)()
	errs := &vk.ErrCapture{}
	otel.SetErrorHandler(errs)

	reps := c.Reps
	if reps < 1 {
		reps = 1
	}
	for rep := 0; rep < c.FirstReps && c.FirstScrapers > 0 && len(k.vs) == 0; rep++ {
		firstScrapes(k, &c, rep, errs)
	}
	info.ClassIf(c.FirstScrapers > 0, "concurrent_first_scrapes")
	info.ClassIf(c.FirstScrapers >= 5, "concurrent_first_scrapes_5..8")
	for rep := 0; rep < reps && len(k.vs) == 0; rep++ {
		concRun(k, &c, rep, errs)
	}
	k.flushClasses(&info)
	return k.vs, info
}

// firstScrapes: a fresh exporter, every measurement recorded, then the FIRST
// scrapes of its life released together. Whatever the exporter settles per
// family name while it sees it for the first time, every one of those scrapes
// (and the one after them) must be a set of families the registry accepts.
func firstScrapes(k *checker, c *Case, rep int, errs *vk.ErrCapture) {
	p := k.p
	w, err := build(c)
	if err != nil {
		k.bad("setup_error", "%v", err)
		return
	}
	defer w.close()
	for r := range c.Rounds {
		w.apply(r, c.Rounds[r])
	}
	k.longExemplar = anyLongExemplar(c, len(c.Rounds))
	type scrape struct {
		mfs []*dto.MetricFamily
		err error
	}
	res := make([]scrape, c.FirstScrapers)
	vk.Parallel(c.FirstScrapers, func(g int) {
		if g < len(c.FirstPerturb) {
			vk.Perturb(c.FirstPerturb[g])
		}
		res[g].mfs, res[g].err = w.reg.Gather()
	})
	after, aerr := w.reg.Gather()
	res = append(res, scrape{after, aerr})
	for g, r := range res {
		tag := fmt.Sprintf("fresh exporter %d, concurrent first scrape %d of %d", rep+1, g+1, c.FirstScrapers)
		if g == c.FirstScrapers {
			tag = fmt.Sprintf("fresh exporter %d, scrape after the concurrent first scrapes", rep+1)
		}
		k.firstScrape(tag, r.mfs, r.err)
	}
	if p.accepted() {
		k.handled(fmt.Sprintf("fresh exporter %d, first scrapes", rep+1), errs)
	} else {
		errs.Reset()
	}
}

// firstScrape: what every one of the concurrent first scrapes is held to.
func (k *checker) firstScrape(tag string, mfs []*dto.MetricFamily, err error) {
	k.legality(tag, mfs)
	if err != nil && k.p.accepted() {
		k.bad("gather_error", "%s: Gather returned an error: %v", tag, err)
	}
	// one scrape = one type per family, and every series is of that type
	for _, mf := range mfs {
		for _, m := range mf.GetMetric() {
			ok := true
			switch mf.GetType() {
			case dto.MetricType_COUNTER:
				ok = m.Counter != nil
			case dto.MetricType_GAUGE:
				ok = m.Gauge != nil
			case dto.MetricType_HISTOGRAM:
				ok = m.Histogram != nil
			}
			if !ok {
				k.bad("family_mixed_types", "%s: family %q of type %v has a series of another type: %v", tag, clip(mf.GetName()), mf.GetType(), m)
			}
		}
	}
}

// concRun runs the concurrent program of the case once on a fresh exporter.
func concRun(k *checker, c *Case, rep int, errs *vk.ErrCapture) {
	p := k.p
	{
		w, err := build(c)
		if err != nil {
			k.bad("setup_error", "%v", err)
			return
		}
		defer w.close()
		type scrape struct {
			mfs []*dto.MetricFamily
			err error
		}
		if c.Early {
			k.unregistered(fmt.Sprintf("run %d scrape before registration", rep+1), w.early, w.earlyErr)
		}
		results := make([][]scrape, c.Gatherers)
		var ghosts []scrape
		nw := len(c.Rounds)
		k.longExemplar = anyLongExemplar(c, nw)
		ng := 0
		if c.Ghost {
			ng = 1
		}
		vk.Parallel(c.Gatherers+nw+ng, func(g int) {
			if g >= c.Gatherers+nw {
				// the never registered exporter is scraped while the first one works
				for s := 0; s < c.ScrapesEach; s++ {
					mfs, err := w.ghostReg.Gather()
					ghosts = append(ghosts, scrape{mfs, err})
				}
				return
			}
			if g >= c.Gatherers {
				w.apply(g-c.Gatherers, c.Rounds[g-c.Gatherers])
				return
			}
			for s := 0; s < c.ScrapesEach; s++ {
				mfs, err := w.reg.Gather()
				results[g] = append(results[g], scrape{mfs, err})
			}
		})
		// quiescent: every measurement has returned.
		mfs, gerr := w.reg.Gather()
		var rm metricdata.ResourceMetrics
		cerr := w.mr.Collect(context.Background(), &rm)
		if c.Ghost {
			gm, ge := w.ghostReg.Gather()
			ghosts = append(ghosts, scrape{gm, ge})
			for s, r := range ghosts {
				k.unregistered(fmt.Sprintf("run %d never registered second exporter scrape %d", rep+1, s+1), r.mfs, r.err)
			}
		}
		final := monotone(mfs)
		for g, rs := range results {
			prev := map[string]float64{}
			for s, r := range rs {
				tag := fmt.Sprintf("run %d gatherer %d scrape %d", rep+1, g+1, s+1)
				k.legality(tag, r.mfs)
				if r.err != nil && p.accepted() {
					k.bad("gather_error", "%s: concurrent Gather returned an error: %v", tag, r.err)
				}
				if !p.strong() {
					continue
				}
				for _, mf := range r.mfs {
					if mf.GetType() == dto.MetricType_HISTOGRAM {
						for _, m := range mf.GetMetric() {
							k.histShape(tag, mf.GetName(), m.GetHistogram())
						}
					}
				}
				cur := monotone(r.mfs)
				for key, v := range prev {
					if nv, ok := cur[key]; !ok || nv < v {
						k.bad("not_monotone", "%s: %q went from %v to %v (present %v) between two scrapes of one goroutine", tag, strings.ReplaceAll(key, "\x02", " "), v, nv, ok)
					}
				}
				for key, v := range cur {
					if fv, ok := final[key]; !ok || fv < v {
						k.bad("exceeds_final", "%s: %q = %v but the quiescent scrape after all measurements shows %v (present %v)", tag, strings.ReplaceAll(key, "\x02", " "), v, fv, ok)
					}
				}
				prev = cur
			}
		}
		tag := fmt.Sprintf("run %d quiescent scrape", rep+1)
		k.legality(tag, mfs)
		if !p.strong() && p.accepted() {
			if gerr != nil {
				k.bad("gather_error", "%s: Gather returned an error: %v", tag, gerr)
			}
			k.handled(tag, errs)
		}
		if p.strong() {
			if p.readerFailed(cerr) {
				k.bad("manual_reader_error", "%s: ManualReader.Collect: %v", tag, cerr)
			} else {
				k.exact(tag, mfs, gerr, &rm, opt{upto: nw, skipSyncGauge: nw >= 2})
			}
			k.handled(tag, errs)
		}
	}
}
