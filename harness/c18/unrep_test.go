package c18

import (
	"encoding/hex"
	"strconv"
	"strings"
	"unicode/utf8"

	"pgregory.net/rapid"

	"go.opentelemetry.io/otel/attribute"
)

// ---------------------------------------------------------------------
// attribute data Prometheus cannot represent
//
// Prometheus label values must be valid UTF-8 (and, under the UTF-8 scheme,
// label names too). OpenTelemetry attribute values and resource / scope
// attribute keys are arbitrary Go strings: a host name taken from the
// environment, a percent-decoded OTEL_RESOURCE_ATTRIBUTES entry, a scope
// attribute filled from user input. The dimension generated here: ONE element
// of a case - a resource attribute value or key, a scope attribute value or
// key, one value of one attribute tuple of an instrument - is such a string.
//
// What the statement still says about such a registry, and what is asserted:
//
//   - "yields metric families the Prometheus registry accepts": every scrape
//     is accepted (Gather returns no error), whatever cannot be represented
//     must not reach the registry as an invalid metric;
//   - everything that CAN be represented stays exact: the instruments of the
//     other scopes, the other series of the instrument, otel_scope_info of the
//     other scopes, target_info when the resource is fine.
//
// Not asserted: whether / how the unrepresentable element itself shows up
// (target_info of an unrepresentable resource, otel_scope_info and the
// instruments of a scope whose attributes are unrepresentable - the unchanged
// tree leaves that scope out -, the series of an unrepresentable attribute
// set). The handled errors "... is not valid UTF-8" / "... is not a valid
// label name ..." are expected for such a case.

// dec decodes the JSON-safe spelling of a byte string used in cases:
// "hex:<hex digits>" stands for the decoded bytes (that is how strings that
// are not valid UTF-8 are written down), anything else for itself.
func dec(s string) string {
	if strings.HasPrefix(s, "hex:") {
		if b, err := hex.DecodeString(s[4:]); err == nil {
			return string(b)
		}
	}
	return s
}

func enc(raw string) string { return "hex:" + hex.EncodeToString([]byte(raw)) }

// byte strings that are not valid UTF-8: a lone 0xff, trailing garbage after
// text, a truncated two-byte sequence, a stray continuation byte inside text,
// a UTF-8 encoded surrogate, a five-byte form.
var badStrings = []string{
	enc("\xff"), enc("box-\xff\xfe"), enc("caf\xc3"), enc("a\x80b"), enc("\xed\xa0\x80"), enc("\xf8\x88\x80\x80\x80"),
}

// keys with one invalid byte (the legacy scheme escapes it to '_', the UTF-8
// scheme has no legal spelling for it)
var badKeys = []string{enc("res\xff"), enc("k\xfe.id")}

// genSpoil makes one element of attrs unrepresentable (see above).
func genSpoil(t *rapid.T, attrs []Attr, freshKey, label string) []Attr {
	switch d := rapid.IntRange(0, 3).Draw(t, label+"how"); {
	case d == 0:
		// a key that is not valid UTF-8
		return append(attrs, Attr{K: rapid.SampledFrom(badKeys).Draw(t, label+"key"), V: "v"})
	case d == 1 && len(attrs) > 0:
		i := rapid.IntRange(0, len(attrs)-1).Draw(t, label+"at")
		attrs[i].V = rapid.SampledFrom(badStrings).Draw(t, label+"val")
		return attrs
	}
	return append(attrs, Attr{K: freshKey, V: rapid.SampledFrom(badStrings).Draw(t, label+"val")})
}

// representable: can Prometheus hold a series with these labels?
func representable(labels map[string]string, legacy bool) bool {
	for n, v := range labels {
		if !legalLabelName(n, legacy) || !utf8.ValidString(v) {
			return false
		}
	}
	return true
}

// ---------------------------------------------------------------------
// attribute values that are not strings
//
// A case spells them "<type>:<text>": int:-7, bool:true, f64:1.5, strs:a,b,
// ints:1,2, bools:true,false, f64s:0.5,2 (an empty list is "strs:"). The
// reference label value of such an attribute is the value's canonical string
// form (attribute.Value.Emit - the rendering of the attribute package, which
// is not the code under test): "faithful series" is read as "the label says
// what the attribute says".

var typedVals = []string{
	"int:0", "int:-7", "int:9007199254740993", "bool:true", "bool:false", "f64:1.5", "f64:-0.25", "f64:1e+21",
	"strs:a,b", "strs:", "strs:x", "ints:1,2", "bools:true,false", "f64s:0.5,2",
	// strings that look like the rendering of a typed neighbour
	"true", "0", "[\"a\",\"b\"]",
}

func splitList(s string) []string {
	if s == "" {
		return []string{}
	}
	return strings.Split(s, ",")
}

// kvOf builds the attribute a case spells as (k, v).
func kvOf(k, v string) attribute.KeyValue {
	k = dec(k)
	typ, text, ok := strings.Cut(v, ":")
	if ok {
		switch typ {
		case "int":
			if n, err := strconv.ParseInt(text, 10, 64); err == nil {
				return attribute.Int64(k, n)
			}
		case "bool":
			if b, err := strconv.ParseBool(text); err == nil {
				return attribute.Bool(k, b)
			}
		case "f64":
			if f, err := strconv.ParseFloat(text, 64); err == nil {
				return attribute.Float64(k, f)
			}
		case "strs":
			return attribute.StringSlice(k, splitList(text))
		case "ints":
			var out []int64
			for _, x := range splitList(text) {
				n, _ := strconv.ParseInt(x, 10, 64)
				out = append(out, n)
			}
			return attribute.Int64Slice(k, out)
		case "bools":
			var out []bool
			for _, x := range splitList(text) {
				b, _ := strconv.ParseBool(x)
				out = append(out, b)
			}
			return attribute.BoolSlice(k, out)
		case "f64s":
			var out []float64
			for _, x := range splitList(text) {
				f, _ := strconv.ParseFloat(x, 64)
				out = append(out, f)
			}
			return attribute.Float64Slice(k, out)
		}
	}
	return attribute.String(k, dec(v))
}

func isTyped(v string) bool {
	return kvOf("k", v).Value.Type() != attribute.STRING
}
