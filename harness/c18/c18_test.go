// Package c18 decides property C18 (Prometheus scrapes never crash and
// expose valid, faithful series).
//
// One case is a whole registry: exporter options, the process-global
// model.NameValidationScheme, a resource, 1..3 scopes (names may repeat; attributes from a pool with the reserved labels otel_scope_name/version, keys sanitising to them, ordinary and mutually colliding keys), 1..6 instruments of
// every kind with names from a grammar over the API alphabet (biased to
// "total" and unit words in every position), units, descriptions, ONE
// attribute key set per instrument (keys that collide after sanitisation),
// exactly summable measurements, and 1..3 scrapes. The oracle is
//
//   - a reference model of the NAME (namespace, stem, unit word, _total; see
//     refName) and of the LABELS (sanitisation, collision merge, scope and
//     resource labels; see refLabels) that does not look at the exporter, and
//   - a differential for the VALUES: a second ManualReader on the same
//     MeterProvider, collected right after the scrape.
//
// Readings of the statement where it is ambiguous (conservative):
//
//   - "the instrument name already carries the suffix" is read as: the name
//     (after escaping) ends with the word as a DELIMITED suffix, in exactly
//     the documented lower-case spelling (a_total, a.total, foo_seconds,
//     foo.seconds) or is the unit word itself. For names that end with the word
//     without a delimiter or in another letter case (atotal, subtotal,
//     foo_Total, kilograms with unit g, fooSeconds) BOTH readings are accepted
//     (suffix treated as carried, or appended).
//
//   - a counter whose stem ends with a delimiter (a_, a__total, a._total):
//     "the trailing delimiter is replaced by the _ of the suffix" (a_total)
//     and "the stem is kept" (a__total) are both accepted.
//
//   - a monotonic counter literally named "total": only legality, "ends with
//     _total", the namespace prefix and the unit-word rule are asserted
//     ([ns_]total[_unit]_total, [ns_][_unit]_total and ns[_unit]_total are all
//     accepted); before repair 11ae005 the scrape killed the process.
//
//   - the family name is otherwise asserted exactly:
//     [namespace_]stem[_unitword][_total]. Under the legacy scheme, when the
//     instrument name needs escaping, it is compared modulo WHICH legal
//     delimiter replaced an illegal character (validity + one-for-one
//     replacement, not the exact escape).
//
//   - collision merge: the exporter documents "sorting and concatenating the
//     values"; asserted is ONE label whose value is the ";"-join of the sorted
//     values of the colliding keys, identical on every scrape. (The
//     OpenTelemetry compatibility specification orders by the original KEYS;
//     the two differ when key order and value order differ. The property
//     statement only demands determinism, so the exporter's documented
//     behaviour is the oracle.)
//
//   - instruments that may map to one family (any accepted name coincides
//     modulo case and delimiters, or equal lower-cased instrument names),
//     instruments that use two different key sets, and instruments two of
//     whose attribute sets merge into the same label set are only checked for
//     "no panic" and legal names in whatever Gather returns (soundness notes
//     of the design: Prometheus rejects those registries by design).
//
//   - concurrent cases: per scrape only Gather error == nil, legal names,
//     equal label names within a family, cumulative bucket shape and monotone
//     counters / bucket counts (per goroutine, and against the quiescent
//     scrape); exact values only for the quiescent scrape after all goroutines
//     have returned (synchronous gauges written by >= 2 goroutines excepted:
//     each reader keeps its own last value).
//
//   - histogram instruments aggregated as base-2 exponential histograms (by a
//     View, so both readers see the same aggregation) must be exposed as
//     Prometheus native histograms: schema == scale, OTel bucket index i ==
//     Prometheus index i+1 (derived from the two bucket definitions, see
//     native_test.go), zero count/threshold, count and sum equal to the
//     ManualReader's data point; independently every recorded value must lie
//     in a populated bucket of its sign and the per-sign totals must equal
//     what was recorded. Prometheus has schemas -4..8 only: a point with a
//     larger scale is expected at schema 8 with 2^(scale-8) neighbours merged
//     (exact, no information invented); a point with a scale below -4 cannot
//     be represented and nothing is asserted for it (nor is the exporter's
//     "invalid native histogram schema" error held against it).
//
// Second defect found by this check and since repaired in /repo (see
// known_findings.json, "fixed: property=C18 ... scale above 8"): the exporter
// handed dp.Scale to NewConstNativeHistogram unchanged; for scale 9..20 (the
// SDK's default MaxScale is 20) the constructor rejected the schema and the
// series was missing from the scrape. Regression replay:
// replays/regress/C18/exp_histogram_scale_above_8.json.
//
//   - instrumentation scopes: 1..3, names may repeat (versions / attributes
//     then differ); scope attributes from a pool with the exporter's reserved
//     label names otel_scope_name / otel_scope_version (exact, and keys that
//     sanitise to them), ordinary keys and keys that collide with each other.
//     Reference for the otel_scope_info series of a scope in use: the scope's
//     attributes as a SET in which the reserved keys hold the real name and
//     version (an attribute with exactly a reserved key cannot replace them),
//     translated by the general label rule; every instrument series carries
//     the real name and version. Consequence of the general rule, not asserted
//     otherwise: under the legacy scheme an attribute such as otel.scope.name
//     sanitises to the reserved label and is MERGED with the real name
//     ("sc;shadow") like any other collision - that is what the unchanged tree
//     does (reported as an observation: the info series then no longer joins
//     with otel_scope_name on the data points). Two scopes whose info series
//     would get the same label set are a registry Prometheus rejects by
//     design (weak treatment).
//   - conflicting families: instruments of DIFFERENT scopes that map to one
//     exported family name and differ in kind / description / unit are
//     generated on purpose (genConflicts). Values stay unasserted there (which
//     definition wins depends on the order in which the SDK hands the scopes
//     over), but when the scope labels are on and the partners' scopes differ
//     in (name, version) - and the case has no other weakness - the registry
//     must accept EVERY scrape: Gather returns no error (one type and one help
//     per family within a scrape) and nothing unexpected goes to otel.Handle
//     (on the unchanged tree a later definition of another type is dropped and
//     a later help text replaced, reported through the logger only). Clashes
//     inside one scope, without scope labels or with a View that would match
//     two instruments stay "no panic only".
//   - twins: instruments with the SAME instrument name and unit but another
//     data shape (monotonic sum / other sum / gauge / histogram), in another
//     scope or in the same one (the SDK keeps them apart by kind; the oracle
//     finds the ManualReader's metric by scope, name AND data shape). Whenever
//     their accepted exported names do not meet (the _total rule separates
//     jobs_total from jobs; jobs_total + unit gives jobs_seconds_total vs
//     jobs_total_seconds) they are STRONG cases: each exposed with its own
//     name, type and values. Where the names coincide (WithoutCounterSuffixes,
//     counter jobs_total vs gauge jobs_total without unit) it is a conflict as
//     above.
//   - concurrent FIRST scrapes (concurrent cases): on 2..6 fresh exporters all
//     measurements are recorded and then 2..8 Gather calls are released
//     together (with generated start perturbations) before any other scrape of
//     that exporter; each of them and the scrape after them is held to the
//     acceptance clause above.
//   - a scrape of an exporter that no MeterProvider knows (Case.Early: the
//     registry is scraped before NewMeterProvider(WithReader(exporter));
//     Case.Ghost: a second exporter with its own registry that is never
//     registered, scraped right after every scrape of the first) may expose no
//     series of any instrument, no otel_scope_info and no resource attribute
//     (a label-less target_info would claim nothing and is not held against
//     it; the handled ErrReaderNotRegistered is expected). Every scrape after
//     registration is held to the full oracle as if the early one had not
//     happened.
//   - exemplars: measurements made in a sampled span context (ids derived
//     from the position of the measurement) on instruments whose View filter
//     drops "ex.url" (it travels as the exemplar's filtered attribute), short
//     or 89 characters long. Values, counts and buckets stay exactly the
//     ManualReader's in every case. An exposed exemplar must be the record of
//     ONE sampled measurement of that very series (trace_id, span_id, value,
//     filtered attribute) and, for histograms, sit on the bucket its value
//     belongs to (client_golang: last exemplar on the counter, per bucket on
//     histograms, an explicit +Inf bucket when needed). It MUST be there
//     (counter: one; histogram: on the bucket of every sampled measurement)
//     when no sampled measurement of the series so far carries the long
//     value; which one of several is the SDK reservoir's business. The
//     handled "exemplar labels have N runes" error is tolerated only once a
//     measurement with the long value has been made.
//
//   - data Prometheus cannot represent (unrep_test.go): ONE element of a case
//     - a resource attribute value or key, a scope attribute value or key, one
//     value of one attribute set of an instrument - may be a byte string that is
//     not valid UTF-8 (resource.NewSchemaless, WithInstrumentationAttributes
//     and attribute.String accept it; Prometheus label values - and, under the
//     UTF-8 scheme, label names - must be valid UTF-8). Asserted: the registry
//     still accepts EVERY scrape (Gather returns no error; what cannot be
//     represented must not reach the registry as an invalid metric) and
//     everything that can be represented stays exact (other scopes, other
//     series of the instrument, target_info when the resource is fine). Not
//     asserted: what becomes of the unrepresentable element itself
//     (target_info of such a resource; otel_scope_info AND the instruments of
//     such a scope - the unchanged tree leaves the whole scope out -; the series
//     of such an attribute set). client_golang's "is not valid UTF-8" / "is not
//     a valid label name" going to otel.Handle is expected for such a case.
//   - attribute values that are not strings (int64, bool, float64 and the four
//     slice types, on instruments, scopes and the resource): the reference
//     label value is the value's canonical string form (attribute.Value.Emit,
//     the attribute package's rendering, not the exporter's code) - "faithful
//     series" read as "the label says what the attribute says".
//   - explicit-bucket histograms created with boundaries of the caller's
//     choosing (none at all, one, negative ones); observable callbacks that
//     return an error after all / half of their observations (both readers of
//     the provider pass the error on after collecting; the values collected
//     stay the ManualReader's).
//   - fresh_process (fresh_test.go): whatever is settled once per PROCESS can
//     only be raced by the first scrapes of a process, so each case is run in
//     2..3 fresh child processes (this test binary re-executed, -race) in which
//     the first scrapes of 2..4 unrelated exporters - optionally held together
//     by a rendezvous in their first observable callback, optionally with
//     measuring goroutines - are released at once. A race report ends the
//     child with exit code 66 = violation data_race.
//
// Defect found by this check and since repaired in /repo (9e9b55c): a
// description conflict whose first seen description is EMPTY was not resolved
// (validateMetrics returned the existing help "", Collect replaced the
// description only if that was non-empty), the later instruments kept their
// own help and the registry rejected the whole scrape ('has help "x" but should
// have ""'). Regression replay:
// replays/regress/C18/help_conflict_first_description_empty.json. (The
// predicate knownEmptyFirstHelp is kept for reference, it is not registered.)
//
// Defect found by this check and since repaired in /repo (see
// known_findings.json, "fixed: property=C18 ... ':'"): under the legacy scheme
// the exporter escaped attribute keys with the METRIC name rule, which keeps
// ':'; the label name "a:b" is illegal, NewConstMetric failed and every series
// of the instrument was silently missing from the scrape. Regression replay:
// replays/regress/C18/legacy_colon_in_attribute_key.json.
package c18

import (
	"testing"

	"go.opentelemetry.io/otel/verif/internal/vk"
)

func TestScrapeModel(t *testing.T) {
	vk.Run(t, vk.Spec[Case]{
		Property: "C18", Check: "scrape_model",
		Rule: "a registry: exporter options x {UTF-8, legacy} scheme, resource, 1..3 scopes (names may repeat; attributes from a pool with the reserved labels otel_scope_name/version, keys sanitising to them, ordinary and mutually colliding keys), 1..6 instruments (14 kinds; histograms explicit-bucket or base-2 exponential with MaxSize {160,20,4} x MaxScale {20,3,0,-2} and positive/negative/zero values) with grammar names biased to total/unit words, all table units + unknown ones, one (often colliding) key set with 1..5 tuples, exact measurements (some in sampled span contexts, with a View-filtered attribute that becomes the exemplar's, short or over-long), attribute values of every type (string, int64, bool, float64, slices) on instruments / scopes / resource, in a tenth of the cases one resource / scope / instrument attribute value or key that is not valid UTF-8 (unrepresentable in Prometheus: the registry must still accept every scrape and the rest stay exact), explicit-bucket histograms with caller-chosen boundaries (none, one, negative), observable callbacks that fail after all / half of their observations, optionally a scrape before the exporter is registered and a second never-registered exporter scraped in between, 1..3 sequential scrapes each compared with a ManualReader on the same provider; " +
			"non-trivial = some instrument name contains 'total' or a unit word, or attribute keys collide after sanitisation under the legacy scheme; distinct = distinct case encodings",
		Quick: 3000, Thorough: 40000,
		Gen: genCase(false, 20), Run: runSeq,
	})
}

func TestConcurrentScrapes(t *testing.T) {
	vk.Run(t, vk.Spec[Case]{
		Property: "C18", Check: "concurrent_scrapes",
		Rule: "the same registries (half of them with conflicting families across scopes); first 2..8 concurrent FIRST scrapes on each of 2..6 fresh exporters after all measurements, then the registry scraped by 2..4 goroutines (1..3 Gather calls each) concurrently with 1..3 measuring goroutines, on 1..3 fresh exporters, under the race detector; then one quiescent scrape compared exactly; " +
			"non-trivial = every case (>= 2 concurrent scrapes); distinct = distinct case encodings",
		Quick: 600, Thorough: 12000,
		Gen: genCase(true, 50), Run: runConc,
		Repeat: 20,
	})
}
