package c18

import (
	"strings"

	"pgregory.net/rapid"
)

// ---------------------------------------------------------------------
// the case (plain data)

// Attr is a string-valued attribute.
type Attr struct {
	K string `json:"k"`
	V string `json:"v"`
}

// Scope is one instrumentation scope (one Meter).
type Scope struct {
	Name    string `json:"name"`
	Version string `json:"version"`
	Attrs   []Attr `json:"attrs,omitempty"`
}

// Inst is one instrument.
type Inst struct {
	Kind  string `json:"kind"` // see kinds
	Name  string `json:"name"`
	Unit  string `json:"unit"`
	Desc  string `json:"desc"`
	Scope int    `json:"scope"`
	// Keys is THE attribute key set of the instrument; Tuples[i] holds one
	// value per key.
	Keys   []string   `json:"keys"`
	Tuples [][]string `json:"tuples"`
	// OddKeys/OddVals, when Odd is set, is one more attribute set with a
	// DIFFERENT key set; it is addressed as tuple index len(Tuples). Cases
	// that contain one are only checked for "no panic" (soundness note).
	Odd     bool     `json:"odd,omitempty"`
	OddKeys []string `json:"odd_keys,omitempty"`
	OddVals []string `json:"odd_vals,omitempty"`
	// ExpSize != 0: a View aggregates this (synchronous histogram) instrument
	// as AggregationBase2ExponentialHistogram{MaxSize: ExpSize, MaxScale:
	// ExpScale}; ExpSign is the sign mode its values were drawn with
	// (0 positive only, 1 negative only, 2 mixed) - documentation only.
	ExpSize  int `json:"exp_size,omitempty"`
	ExpScale int `json:"exp_scale,omitempty"`
	ExpSign  int `json:"exp_sign,omitempty"`
	// ExDrop: a View attribute filter drops the attribute "ex.url" from this
	// (synchronous) instrument's streams; a measurement that carries it
	// (Meas.Ex 2 or 3) hands it to the exemplar as a filtered attribute.
	ExDrop bool `json:"ex_drop,omitempty"`
	// HasBounds: the (synchronous, explicit-bucket) histogram is created with
	// WithExplicitBucketBoundaries(Bounds...) - possibly none at all.
	// BoundsView: the boundaries are set by a View instead (always so when
	// there are none: the instrument option ignores an empty list).
	HasBounds  bool  `json:"has_bounds,omitempty"`
	Bounds     []int `json:"bounds,omitempty"`
	BoundsView bool  `json:"bounds_view,omitempty"`
	// ObsFail (observable instruments): the callback returns an error after it
	// has reported all (1) or only the first half (2) of its observations.
	ObsFail int `json:"obs_fail,omitempty"`
	// Obs[r][t] is what the callback of an observable instrument reports in
	// round r for tuple t (same scaling as Meas.V).
	Obs [][]int `json:"obs,omitempty"`
}

// Meas is one synchronous measurement.
type Meas struct {
	I int `json:"i"` // instrument index
	T int `json:"t"` // tuple index
	V int `json:"v"` // the value for int64 instruments, value*8 for float64 instruments
	// Ex > 0: the measurement is made inside a SAMPLED span context (trace and
	// span id derived from its position), so the default trace-based exemplar
	// filter offers it to the reservoir. 1: no extra attribute; 2: plus
	// ex.url=<short value>; 3: plus ex.url=<89 characters> (exemplar labels
	// beyond Prometheus' 128 runes). 2 and 3 only on instruments with ExDrop.
	Ex int `json:"ex,omitempty"`
}

// Case is one registry: options, provider content, the measurement rounds
// and how it is scraped.
type Case struct {
	Legacy          bool     `json:"legacy"` // model.NameValidationScheme = LegacyValidation
	NoUnits         bool     `json:"no_units"`
	NoCounterSuffix bool     `json:"no_counter_suffix"`
	NoScopeInfo     bool     `json:"no_scope_info"`
	NoTargetInfo    bool     `json:"no_target_info"`
	Namespace       string   `json:"namespace"`  // "" = option not given
	ResFilter       string   `json:"res_filter"` // "" (option not given) | "allow" | "deny"
	ResFilterKeys   []string `json:"res_filter_keys,omitempty"`
	Resource        []Attr   `json:"resource"`
	Scopes          []Scope  `json:"scopes"`
	Insts           []Inst   `json:"insts"`
	// Rounds: sequential cases scrape after every round; concurrent cases run
	// every round on its own goroutine.
	Rounds [][]Meas `json:"rounds"`

	// Early: the registry is scraped once BEFORE the exporter is handed to
	// the MeterProvider. Ghost: a second exporter with its own registry that is
	// never registered with any provider is scraped after every scrape.
	Early bool `json:"early,omitempty"`
	Ghost bool `json:"ghost,omitempty"`

	// FirstScrapers > 0 (concurrent cases): before anything else, on each of
	// FirstReps fresh exporters, all measurements are recorded and then
	// FirstScrapers Gather calls are released together as the FIRST scrapes of
	// that exporter (FirstPerturb[g] perturbs the start of scraper g).
	FirstScrapers int   `json:"first_scrapers,omitempty"`
	FirstReps     int   `json:"first_reps,omitempty"`
	FirstPerturb  []int `json:"first_perturb,omitempty"`

	// fresh_process sub-check only (see fresh_test.go): Procs fresh child
	// processes each run the first-use program; FirstLive: the rounds after the
	// first are measured BY goroutines released together with the scrapers
	// instead of before them; Rendezvous: the first observable callback of each
	// exporter's first collection waits until every exporter is being collected.
	Procs      int  `json:"procs,omitempty"`
	FirstLive  bool `json:"first_live,omitempty"`
	Rendezvous bool `json:"rendezvous,omitempty"`

	Conc        bool `json:"conc"`
	Gatherers   int  `json:"gatherers,omitempty"`    // concurrent cases: goroutines calling Gather
	ScrapesEach int  `json:"scrapes_each,omitempty"` // Gather calls per such goroutine
	Reps        int  `json:"reps,omitempty"`         // concurrent cases: the program is run on this many fresh exporters
}

var kinds = []string{
	"i64counter", "f64counter", "i64updown", "f64updown", "i64hist", "f64hist", "i64gauge", "f64gauge",
	"i64ocounter", "f64ocounter", "i64oupdown", "f64oupdown", "i64ogauge", "f64ogauge",
}

func isFloat(kind string) bool      { return strings.HasPrefix(kind, "f64") }
func isObservable(kind string) bool { return kind[3] == 'o' }
func isCounter(kind string) bool    { return strings.HasSuffix(kind, "counter") }
func isHist(kind string) bool       { return strings.HasSuffix(kind, "hist") }
func isGauge(kind string) bool      { return strings.HasSuffix(kind, "gauge") }

// unitWords is the unit-suffix table of the exporter as documented by the
// OpenTelemetry Prometheus compatibility specification (UCUM unit -> word).
var unitWords = map[string]string{
	"d": "days", "h": "hours", "min": "minutes", "s": "seconds", "ms": "milliseconds", "us": "microseconds", "ns": "nanoseconds",
	"By": "bytes", "KiBy": "kibibytes", "MiBy": "mebibytes", "GiBy": "gibibytes", "TiBy": "tibibytes",
	"KBy": "kilobytes", "MBy": "megabytes", "GBy": "gigabytes", "TBy": "terabytes",
	"m": "meters", "V": "volts", "A": "amperes", "J": "joules", "W": "watts", "g": "grams",
	"Cel": "celsius", "Hz": "hertz", "1": "ratio", "%": "percent",
}

var knownUnits = []string{
	"d", "h", "min", "s", "ms", "us", "ns", "By", "KiBy", "MiBy", "GiBy", "TiBy", "KBy", "MBy", "GBy", "TBy",
	"m", "V", "A", "J", "W", "g", "Cel", "Hz", "1", "%",
}

var unknownUnits = []string{"", "", "widgets", "{request}", "km/h", "By/s", "S", "Ms", "seconds", "total", "by", "2"}

var (
	stems     = []string{"a", "b", "foo", "bar", "x", "http", "req", "Z9", "kilo", "sub", "q7", "io"}
	wholes    = []string{"total", "Total", "TOTAL", "seconds", "s", "t", "totals", "total_", "seconds_total", "total_total", "total_seconds", "bytes", "ratio", "a", "otal", "atotal", "subtotal"}
	seps      = []string{"_", "_", "_", ".", ".", "-", "/", "", "__", "._"}
	trailers  = []string{"_", ".", "-", "/"}
	descs     = []string{"", "", "help text", "other help", "line1\nline2", "größe \\ \"quoted\""}
	attrKeys  = []string{"a.b", "a_b", "a-b", "a/b", "k", "K", "http.method", "http_method", "code", "x9", "_u"}
	attrVals  = []string{"x", "y", "z", "", "p;q", "1", "ü", "a b"}
	resKeys   = []string{"service.name", "res.a", "res_a", "res-a", "host"}
	scopeNms  = []string{"scope.a", "scope/b", "sc", "go.opentelemetry.io/contrib/x"}
	scopeVers = []string{"", "v1.2.3", "0.1"}
	// reserved label names of the exporter, keys that sanitise to them,
	// ordinary keys, keys that collide with each other after sanitisation
	scopeAttrKeys = []string{
		"otel_scope_name", "otel_scope_version", "otel.scope.name", "otel-scope-name", "otel.scope.version", "otel/scope/version",
		"scope.attr", "sa", "team", "s.k", "s_k", "s-k",
	}
	scopeAttrVals = []string{"x", "y", "", "p;q", "sc", "scope.a", "scope/b", "v1.2.3", "0.1", "shadow"}
	nsChoices     = []string{"ns", "my_ns", "ns_", "n.s", "Ns9", "n-s", "total", "seconds"}
	// values around the default histogram boundaries 0,5,10,25,...,10000
	histInts = []int{0, 1, 5, 6, 10, 25, 26, 75, 100, 250, 1000, 10000, 10001}
	histF8   = []int{0, 1, 39, 40, 41, 80, 199, 200, 600, 800, 2000, 7999, 8000, 80000, 80001}
)

func genUnit(t *rapid.T) string {
	if rapid.IntRange(0, 9).Draw(t, "unitknown") < 6 {
		return rapid.SampledFrom(knownUnits).Draw(t, "unit")
	}
	return rapid.SampledFrom(unknownUnits).Draw(t, "unit")
}

// genName draws an instrument name from the grammar
//
//	name := part (sep part){0..3} [trailer] | whole | long
//
// over the API alphabet (first char a letter, then [A-Za-z0-9_.\-/], at most
// 255 chars), biased to "total" and the word of the instrument's own unit.
func genName(t *rapid.T, idx, base int, unit string) string {
	shape := rapid.IntRange(0, 19).Draw(t, "nameshape")
	switch {
	case shape < 3:
		w := append([]string{}, wholes...)
		if u, ok := unitWords[unit]; ok {
			w = append(w, u, u, u+"_total", u+"total", strings.ToUpper(u[:1])+u[1:])
		}
		return rapid.SampledFrom(w).Draw(t, "whole")
	case shape == 4 || shape == 5:
		// stem <sep> unitword [<sep> total]: the suffixes the exporter would add are already there
		own := stems[(base+idx)%len(stems)]
		u, ok := unitWords[unit]
		if !ok {
			u = rapid.SampledFrom([]string{"seconds", "bytes", "ratio"}).Draw(t, "uword")
		}
		name := own + rapid.SampledFrom(seps).Draw(t, "sep1") + u
		if rapid.Bool().Draw(t, "withtotal") {
			name += rapid.SampledFrom(seps).Draw(t, "sep2") + "total"
		}
		return name
	case shape == 3:
		// maximal length, optionally ending in the interesting suffixes
		tail := rapid.SampledFrom([]string{"", "_total", ".total", "_seconds", "_seconds_total", "total"}).Draw(t, "longtail")
		head := stems[(base+idx)%len(stems)] + "_"
		n := rapid.SampledFrom([]int{255, 255, 254, 200}).Draw(t, "len")
		return head + strings.Repeat("x", n-len(head)-len(tail)) + tail
	}
	own := stems[(base+idx)%len(stems)]
	pool := []string{own, own, "total", "total", "Total", "seconds", "Seconds", "bytes", "ratio", "count9", rapid.SampledFrom(stems).Draw(t, "otherstem")}
	if u, ok := unitWords[unit]; ok {
		pool = append(pool, u, u, u, strings.ToUpper(u[:1])+u[1:])
	}
	n := rapid.IntRange(1, 4).Draw(t, "nparts")
	var sb strings.Builder
	for i := 0; i < n; i++ {
		if i > 0 {
			sb.WriteString(rapid.SampledFrom(seps).Draw(t, "sep"))
		}
		if i == 0 && rapid.IntRange(0, 9).Draw(t, "ownfirst") < 7 {
			sb.WriteString(own)
			continue
		}
		sb.WriteString(rapid.SampledFrom(pool).Draw(t, "part"))
	}
	if rapid.IntRange(0, 7).Draw(t, "trail") == 0 {
		sb.WriteString(rapid.SampledFrom(trailers).Draw(t, "trailer"))
	}
	return sb.String()
}

// variant derives a name that is likely to map to the same family.
func variant(t *rapid.T, name string) string {
	switch rapid.IntRange(0, 6).Draw(t, "variant") {
	case 0:
		return name
	case 1:
		return strings.NewReplacer(".", "_", "-", "_", "/", "_").Replace(name)
	case 2:
		if len(name) <= 249 {
			return name + "_total"
		}
		return name
	case 3:
		for _, s := range []string{"_total", ".total", "total"} {
			if strings.HasSuffix(name, s) && len(name) > len(s) {
				return name[:len(name)-len(s)]
			}
		}
		return name
	case 4:
		if name[0] >= 'a' && name[0] <= 'z' {
			return strings.ToUpper(name[:1]) + name[1:]
		}
		return strings.ToLower(name[:1]) + name[1:]
	case 5:
		return strings.Replace(name, "_", ".", 1)
	default:
		if len(name) <= 250 {
			return name + ".x"
		}
		return name
	}
}

func genAttrs(t *rapid.T, keys, vals []string, max int, label string) []Attr {
	ks := rapid.SliceOfNDistinct(rapid.SampledFrom(keys), 0, max, rapid.ID[string]).Draw(t, label+"keys")
	out := make([]Attr, len(ks))
	for i, k := range ks {
		out[i] = Attr{K: k, V: rapid.SampledFrom(vals).Draw(t, label+"val")}
	}
	return out
}

// magnitudes for exponential histograms: exactly representable, close
// together (high scale survives) and far apart (forces rescaling); the
// float64 ones are in eighths (1/8 .. 2^37).
var (
	expInts = []int{1, 2, 3, 4, 5, 7, 8, 9, 100, 1024, 1 << 20, 1 << 30, 1 << 37}
	expF8   = []int{1, 3, 8, 9, 12, 16, 24, 56, 64, 800, 8192, 1 << 23, 1 << 33, 1 << 40}
)

func genValue(t *rapid.T, in *Inst) int {
	kind := in.Kind
	if in.ExpSize != 0 {
		if rapid.IntRange(0, 6).Draw(t, "zero") == 3 {
			return 0
		}
		tab := expInts
		if isFloat(kind) {
			tab = expF8
		}
		v := rapid.SampledFrom(tab).Draw(t, "mag")
		switch in.ExpSign {
		case 1:
			return -v
		case 2:
			if rapid.Bool().Draw(t, "neg") {
				return -v
			}
		}
		return v
	}
	switch {
	case isHist(kind) && isFloat(kind):
		return rapid.SampledFrom(histF8).Draw(t, "v")
	case isHist(kind):
		return rapid.SampledFrom(histInts).Draw(t, "v")
	case isCounter(kind):
		return rapid.IntRange(0, 40).Draw(t, "v")
	default:
		return rapid.IntRange(-40, 40).Draw(t, "v")
	}
}

func genMeas(t *rapid.T, i int, in *Inst) Meas {
	m := Meas{I: i, T: rapid.IntRange(0, in.ntuples()-1).Draw(t, "t"), V: genValue(t, in)}
	if in.ExDrop {
		m.Ex = rapid.SampledFrom([]int{0, 2, 0, 1, 2, 2, 0, 3}).Draw(t, "ex")
	} else {
		m.Ex = rapid.SampledFrom([]int{0, 0, 0, 1}).Draw(t, "ex")
	}
	return m
}

func genInst(t *rapid.T, idx, base, nscopes, rounds int, prev *Inst) Inst {
	in := Inst{}
	// histograms twice as likely as any other kind: two aggregations to cover
	in.Kind = rapid.SampledFrom(append([]string{"i64hist", "f64hist"}, kinds...)).Draw(t, "kind")
	in.Unit = genUnit(t)
	if isHist(in.Kind) && rapid.IntRange(0, 9).Draw(t, "exphist") < 6 {
		in.ExpSize = rapid.SampledFrom([]int{160, 20, 4}).Draw(t, "expsize")
		in.ExpScale = rapid.SampledFrom([]int{20, 3, 0, -2}).Draw(t, "expscale")
		in.ExpSign = rapid.SampledFrom([]int{2, 2, 0, 1}).Draw(t, "expsign")
	}
	if isHist(in.Kind) && in.ExpSize == 0 && rapid.IntRange(0, 2).Draw(t, "custombounds") == 1 {
		// boundaries of the caller's choosing: none, one, negative ones, ones
		// that sit on the generated values
		in.HasBounds = true
		in.Bounds = rapid.SampledFrom([][]int{{}, {10}, {0}, {-5, 0, 5}, {1, 5, 6, 10, 25, 26}, {0, 1}, {100, 10000, 10001}, {5, 10, 25, 50, 75, 100, 250, 500, 750, 1000, 2500, 5000, 7500, 10000, 20000, 40000}}).Draw(t, "bounds")
		in.BoundsView = rapid.IntRange(0, 2).Draw(t, "boundsview") == 0
	}
	if isObservable(in.Kind) && rapid.IntRange(0, 5).Draw(t, "obsfail") == 3 {
		in.ObsFail = rapid.IntRange(1, 2).Draw(t, "obsfailhow")
	}
	if !isObservable(in.Kind) && rapid.IntRange(0, 3).Draw(t, "exdrop") == 2 {
		in.ExDrop = true
	}
	if prev != nil && rapid.IntRange(0, 19).Draw(t, "clash") == 7 {
		in.Name = variant(t, prev.Name)
	} else {
		in.Name = genName(t, idx, base, in.Unit)
	}
	in.Desc = rapid.SampledFrom(descs).Draw(t, "desc")
	in.Scope = rapid.IntRange(0, nscopes-1).Draw(t, "scope")

	// the key set: biased to keys that collide after sanitisation
	switch rapid.IntRange(0, 5).Draw(t, "keyshape") {
	case 0:
		in.Keys = []string{}
	case 1, 2:
		in.Keys = rapid.SliceOfNDistinct(rapid.SampledFrom(attrKeys[:4]), 2, 4, rapid.ID[string]).Draw(t, "ckeys")
		if rapid.Bool().Draw(t, "morekeys") {
			in.Keys = append(in.Keys, rapid.SampledFrom(attrKeys[4:]).Draw(t, "pkey"))
		}
	default:
		in.Keys = rapid.SliceOfNDistinct(rapid.SampledFrom(attrKeys), 1, 4, rapid.ID[string]).Draw(t, "keys")
	}
	if rapid.IntRange(0, 39).Draw(t, "colonkey") == 23 {
		// legal attribute key, legal legacy METRIC name character, illegal legacy LABEL name character
		in.Keys = append(in.Keys, "a:b")
	}
	nt := 1
	if len(in.Keys) > 0 {
		nt = rapid.IntRange(1, 5).Draw(t, "ntuples")
	}
	in.Tuples = make([][]string, nt)
	for i := range in.Tuples {
		in.Tuples[i] = make([]string, len(in.Keys))
		for j := range in.Keys {
			in.Tuples[i][j] = rapid.SampledFrom(attrVals).Draw(t, "tv")
		}
	}
	if len(in.Keys) > 0 && rapid.IntRange(0, 8).Draw(t, "typedcol") == 2 {
		// one attribute of the instrument holds values that are not strings
		kj := rapid.IntRange(0, len(in.Keys)-1).Draw(t, "typedkj")
		for i := range in.Tuples {
			in.Tuples[i][kj] = rapid.SampledFrom(typedVals).Draw(t, "typedval")
		}
	}
	if len(in.Keys) > 0 && rapid.IntRange(0, 15).Draw(t, "spoiltuple") == 11 {
		// one value of one attribute set is not valid UTF-8: that series cannot
		// be represented, its neighbours can
		ti := rapid.IntRange(0, nt-1).Draw(t, "spoilti")
		kj := rapid.IntRange(0, len(in.Keys)-1).Draw(t, "spoilkj")
		in.Tuples[ti][kj] = rapid.SampledFrom(badStrings).Draw(t, "spoilval")
	}
	if rapid.IntRange(0, 39).Draw(t, "odd") == 17 {
		in.Odd = true
		in.OddKeys = rapid.SliceOfNDistinct(rapid.SampledFrom(append([]string{"odd"}, attrKeys...)), 0, 3, rapid.ID[string]).Draw(t, "oddkeys")
		if sameStringSet(in.OddKeys, in.Keys) {
			in.OddKeys = append(in.OddKeys, "odd2")
		}
		in.OddVals = make([]string, len(in.OddKeys))
		for j := range in.OddVals {
			in.OddVals[j] = rapid.SampledFrom(attrVals).Draw(t, "ov")
		}
	}
	if isObservable(in.Kind) {
		ntup := in.ntuples()
		in.Obs = make([][]int, rounds)
		for r := range in.Obs {
			in.Obs[r] = make([]int, ntup)
			for k := range in.Obs[r] {
				v := genValue(t, &in)
				if isCounter(in.Kind) && r > 0 {
					v += in.Obs[r-1][k] // cumulative: never decreases
				}
				in.Obs[r][k] = v
			}
		}
	}
	return in
}

func (in Inst) ntuples() int {
	n := len(in.Tuples)
	if in.Odd {
		n++
	}
	return n
}

// genConflicts adds 1..4 instruments that map to the exported family name of
// an existing instrument but live in ANOTHER scope and differ in kind and/or
// description and/or unit. Scope info stays on and the scopes get pairwise
// different (name, version) pairs, so the series of the partners differ in
// their scope labels: such a registry is one Prometheus accepts (a later
// definition of another type is dropped, a later help text replaced).
func genConflicts(t *rapid.T, c *Case, base, rounds int) {
	c.NoScopeInfo = false
	if len(c.Scopes) < 2 {
		c.Scopes = append(c.Scopes, Scope{Name: rapid.SampledFrom(scopeNms).Draw(t, "cscope"), Version: "c1"})
	}
	for i := range c.Scopes {
		for j := 0; j < i; j++ {
			if c.Scopes[i].Name == c.Scopes[j].Name && c.Scopes[i].Version == c.Scopes[j].Version {
				c.Scopes[i].Version = "c" + string(rune('0'+i))
			}
		}
	}
	n := rapid.IntRange(1, 4).Draw(t, "nconflicts")
	group := make([]int, len(c.Insts)) // instruments that were made to share a family
	for i := range group {
		group[i] = i
	}
	for k := 0; k < n && len(c.Insts) < 10; k++ {
		oi := rapid.IntRange(0, len(c.Insts)-1).Draw(t, "origin")
		o := c.Insts[oi]
		// a scope none of the group lives in
		var free []int
		for si := range c.Scopes {
			taken := false
			for j := range c.Insts {
				taken = taken || (group[j] == group[oi] && c.Insts[j].Scope == si)
			}
			if !taken {
				free = append(free, si)
			}
		}
		if len(free) == 0 {
			continue
		}
		p := genInst(t, len(c.Insts), base, len(c.Scopes), rounds, nil)
		p.Scope = rapid.SampledFrom(free).Draw(t, "pscope")
		group = append(group, group[oi])
		switch rapid.IntRange(0, 3).Draw(t, "pname") {
		case 0:
			p.Name = variant(t, o.Name)
		default:
			p.Name = o.Name
		}
		switch rapid.IntRange(0, 3).Draw(t, "pdiff") {
		case 0: // same kind, another description
			p.Kind, p.Unit = o.Kind, o.Unit
			p.Desc = o.Desc + " (other)"
			if isObservable(p.Kind) != (p.Obs != nil) {
				p = regenObs(t, p, rounds)
			}
		case 1: // another kind, same unit
			p.Unit = o.Unit
		}
		if !isHist(p.Kind) || isObservable(p.Kind) {
			p.ExpSize = 0
		}
		if rapid.IntRange(0, 3).Draw(t, "keepemptyhelp") != 0 {
			// mostly conflicts between two NON-empty descriptions
			if p.Desc == "" {
				p.Desc = "partner help"
			}
			if o.Desc == "" {
				c.Insts[oi].Desc = "origin help"
			}
		}
		if p.Name == o.Name {
			// a View is addressed by instrument name: keep views away from
			// instruments that share one (two matching views = two streams)
			p.ExpSize, p.ExDrop, p.HasBounds = 0, false, false
			c.Insts[oi].ExpSize, c.Insts[oi].ExDrop, c.Insts[oi].HasBounds = 0, false, false
		}
		c.Insts = append(c.Insts, p)
	}
}

// genTwins adds 1..2 instruments with the SAME instrument name and unit as an
// existing one but another data shape (monotonic sum / other sum / gauge /
// histogram), in another scope or - the SDK keeps them apart by kind - in the
// same one. Their exported names differ whenever the _total rule separates
// them; then both must be exposed, each with its own name, type and values.
func genTwins(t *rapid.T, c *Case, base, rounds int) {
	n := rapid.IntRange(1, 2).Draw(t, "ntwins")
	for k := 0; k < n && len(c.Insts) < 10; k++ {
		oi := rapid.IntRange(0, len(c.Insts)-1).Draw(t, "torigin")
		if rapid.IntRange(0, 3).Draw(t, "ttotal") == 2 && len(c.Insts[oi].Name) < 240 && !strings.HasSuffix(c.Insts[oi].Name, "total") {
			// where trimming a trailing "total" matters
			c.Insts[oi].Name += rapid.SampledFrom([]string{"_total", ".total", "_total"}).Draw(t, "ttail")
		}
		o := c.Insts[oi]
		p := genInst(t, len(c.Insts), base, len(c.Scopes), rounds, nil)
		p.Name, p.Unit = o.Name, o.Unit
		if !isCounter(o.Kind) && rapid.IntRange(0, 3).Draw(t, "tcounter") != 1 {
			// the pair the _total rule separates: a monotonic sum and something else
			p.Kind = rapid.SampledFrom([]string{"i64counter", "f64counter", "i64ocounter", "f64ocounter"}).Draw(t, "tckind")
			p = regenObs(t, p, rounds)
		} else if shape(p.Kind) == shape(o.Kind) {
			var other []string
			for _, kd := range kinds {
				if shape(kd) != shape(o.Kind) {
					other = append(other, kd)
				}
			}
			p.Kind = rapid.SampledFrom(other).Draw(t, "tkind")
			p = regenObs(t, p, rounds)
		}
		if !isHist(p.Kind) || isObservable(p.Kind) {
			p.ExpSize = 0
		}
		if rapid.IntRange(0, 2).Draw(t, "tscope") == 1 {
			p.Scope = o.Scope
		}
		c.Insts = append(c.Insts, p)
	}
}

// regenObs makes Obs consistent with a kind that was changed after genInst.
func regenObs(t *rapid.T, in Inst, rounds int) Inst {
	in.Obs = nil
	if !isObservable(in.Kind) {
		in.ObsFail = 0
	}
	if !isHist(in.Kind) || isObservable(in.Kind) {
		in.HasBounds, in.Bounds = false, nil
	}
	if isObservable(in.Kind) {
		in.ExpSize, in.ExDrop = 0, false
		in.Obs = make([][]int, rounds)
		for r := range in.Obs {
			in.Obs[r] = make([]int, in.ntuples())
			for k := range in.Obs[r] {
				v := genValue(t, &in)
				if isCounter(in.Kind) && r > 0 {
					v += in.Obs[r-1][k]
				}
				in.Obs[r][k] = v
			}
		}
	}
	return in
}

func sameScopeData(a, b Scope) bool {
	if a.Name != b.Name || a.Version != b.Version || len(a.Attrs) != len(b.Attrs) {
		return false
	}
	m := map[string]string{}
	for _, x := range a.Attrs {
		m[x.K] = x.V
	}
	for _, x := range b.Attrs {
		if v, ok := m[x.K]; !ok || v != x.V {
			return false
		}
	}
	return true
}

func sameStringSet(a, b []string) bool {
	if len(a) != len(b) {
		return false
	}
	m := map[string]bool{}
	for _, s := range a {
		m[s] = true
	}
	for _, s := range b {
		if !m[s] {
			return false
		}
	}
	return true
}

// genCase: conc = concurrent program; conflicts = percentage (tens) of cases that get
// instruments in DIFFERENT scopes mapping to one exported family name.
func genCase(conc bool, conflicts int) func(t *rapid.T) Case {
	return func(t *rapid.T) Case {
		c := Case{Conc: conc}
		c.Legacy = rapid.Bool().Draw(t, "legacy")
		c.NoUnits = rapid.IntRange(0, 3).Draw(t, "nounits") == 0
		c.NoCounterSuffix = rapid.IntRange(0, 3).Draw(t, "nocounter") == 0
		c.NoScopeInfo = rapid.IntRange(0, 3).Draw(t, "noscope") == 0
		c.NoTargetInfo = rapid.IntRange(0, 3).Draw(t, "notarget") == 0
		if rapid.IntRange(0, 2).Draw(t, "ns") == 0 {
			c.Namespace = rapid.SampledFrom(nsChoices).Draw(t, "namespace")
		}
		c.Resource = genAttrs(t, resKeys, attrVals, 4, "res")
		if rapid.IntRange(0, 5).Draw(t, "typedres") == 3 {
			c.Resource = append(c.Resource, Attr{K: "res.n", V: rapid.SampledFrom(typedVals).Draw(t, "typedresval")})
		}
		if rapid.IntRange(0, 9).Draw(t, "spoilres") == 4 {
			// a resource Prometheus cannot represent (see unrep_test.go)
			c.Resource = genSpoil(t, c.Resource, "host.name", "spoilres")
		}
		rf := rapid.IntRange(0, 9).Draw(t, "resfilter")
		if conc {
			rf += 3 // the resource label cache is the shared state of concurrent scrapes
		}
		switch {
		case rf >= 8:
			c.ResFilter = "deny"
		case rf >= 4:
			c.ResFilter = "allow"
		}
		if c.ResFilter != "" {
			pool := append([]string{"nope"}, resKeys...)
			for _, a := range c.Resource {
				known := false
				for _, k := range resKeys {
					known = known || k == a.K
				}
				if !known {
					pool = append(pool, a.K)
				}
			}
			c.ResFilterKeys = rapid.SliceOfNDistinct(rapid.SampledFrom(pool), 0, 4, rapid.ID[string]).Draw(t, "rfkeys")
		}
		// 1..3 scopes; names may repeat (then versions / attributes differ).
		// Scope attributes come from a pool with the exporter's own reserved
		// label names (exact and keys that sanitise to them), ordinary keys
		// and keys that collide with each other after sanitisation; values
		// include other scopes' names and versions.
		ns := rapid.IntRange(1, 3).Draw(t, "nscopes")
		for i := 0; i < ns; i++ {
			s := Scope{}
			if i > 0 && rapid.IntRange(0, 2).Draw(t, "samename") == 1 {
				s.Name = c.Scopes[i-1].Name
			} else {
				s.Name = rapid.SampledFrom(scopeNms).Draw(t, "scopename")
			}
			s.Version = rapid.SampledFrom(scopeVers).Draw(t, "scopever")
			if rapid.IntRange(0, 9).Draw(t, "scopeattrs") < 6 {
				keys := rapid.SliceOfNDistinct(rapid.SampledFrom(scopeAttrKeys), 1, 3, rapid.ID[string]).Draw(t, "sakeys")
				for _, k := range keys {
					s.Attrs = append(s.Attrs, Attr{K: k, V: rapid.SampledFrom(scopeAttrVals).Draw(t, "sav")})
				}
			}
			if rapid.IntRange(0, 7).Draw(t, "typedscope") == 5 {
				s.Attrs = append(s.Attrs, Attr{K: "sa.n", V: rapid.SampledFrom(typedVals).Draw(t, "typedscopeval")})
			}
			if rapid.IntRange(0, 15).Draw(t, "spoilscope") == 9 {
				s.Attrs = genSpoil(t, s.Attrs, "sa.raw", "spoilscope")
			}
			for _, prev := range c.Scopes {
				if sameScopeData(prev, s) {
					s.Version = "dup" + string(rune('0'+i)) // keep the identities distinct
				}
			}
			c.Scopes = append(c.Scopes, s)
		}
		c.Early = rapid.IntRange(0, 3).Draw(t, "early") == 1
		c.Ghost = rapid.IntRange(0, 3).Draw(t, "ghost") == 1
		rounds := rapid.IntRange(1, 3).Draw(t, "rounds")
		ni := rapid.IntRange(1, 6).Draw(t, "ninsts")
		base := rapid.IntRange(0, len(stems)-1).Draw(t, "stembase")
		for i := 0; i < ni; i++ {
			var prev *Inst
			if i > 0 {
				prev = &c.Insts[i-1]
			}
			c.Insts = append(c.Insts, genInst(t, i, base, ns, rounds, prev))
		}
		if d := rapid.IntRange(0, 9).Draw(t, "twins"); d == 3 || d == 4 || d == 6 {
			genTwins(t, &c, base, rounds)
		}
		// (rapid favours the ends of a range: count from the middle)
		if d := rapid.IntRange(0, 9).Draw(t, "conflicts"); (d+5)%10 < conflicts/10 {
			genConflicts(t, &c, base, rounds)
		}
		var sync []int
		for i, in := range c.Insts {
			if !isObservable(in.Kind) {
				sync = append(sync, i)
			}
		}
		c.Rounds = make([][]Meas, rounds)
		for r := range c.Rounds {
			c.Rounds[r] = []Meas{}
			if len(sync) == 0 {
				continue
			}
			n := rapid.IntRange(0, 10).Draw(t, "nmeas")
			if r == 0 {
				// make sure most instruments have a data point at the first scrape
				for _, i := range sync {
					if rapid.IntRange(0, 9).Draw(t, "seed") < 8 {
						in := c.Insts[i]
						c.Rounds[r] = append(c.Rounds[r], genMeas(t, i, &in))
					}
				}
			}
			// exponential histograms: several values per round so that more
			// than one bucket per sign is populated and the scale has to drop
			for _, i := range sync {
				in := c.Insts[i]
				if in.ExpSize == 0 {
					continue
				}
				for k := rapid.IntRange(0, 5).Draw(t, "expextra"); k > 0; k-- {
					c.Rounds[r] = append(c.Rounds[r], genMeas(t, i, &in))
				}
			}
			for k := 0; k < n; k++ {
				i := rapid.SampledFrom(sync).Draw(t, "mi")
				in := c.Insts[i]
				c.Rounds[r] = append(c.Rounds[r], genMeas(t, i, &in))
			}
		}
		if conc {
			c.Gatherers = rapid.IntRange(2, 4).Draw(t, "gatherers")
			c.ScrapesEach = rapid.IntRange(1, 3).Draw(t, "scrapes")
			c.Reps = rapid.IntRange(1, 3).Draw(t, "reps")
			c.FirstScrapers = rapid.IntRange(2, 8).Draw(t, "firstscrapers")
			c.FirstReps = rapid.IntRange(2, 6).Draw(t, "firstreps")
			c.FirstPerturb = rapid.SliceOfN(rapid.SampledFrom([]int{0, 0, 0, 0, 1, 1, 2}), c.FirstScrapers, c.FirstScrapers).Draw(t, "firstperturb")
		}
		return c
	}
}
