package c13

import (
	"context"
	"encoding/hex"
	"fmt"
	"math"
	"strings"
	"testing"

	"go.opentelemetry.io/otel/exporters/otlp/otlplog/otlploggrpc"
	"go.opentelemetry.io/otel/exporters/otlp/otlplog/otlploghttp"
	"go.opentelemetry.io/otel/log"
	sdklog "go.opentelemetry.io/otel/sdk/log"
	"go.opentelemetry.io/otel/sdk/log/logtest"
	"go.opentelemetry.io/otel/sdk/resource"
	"go.opentelemetry.io/otel/trace"
	"go.opentelemetry.io/otel/verif/internal/vk"
	collogpb "go.opentelemetry.io/proto/otlp/collector/logs/v1"
	logspb "go.opentelemetry.io/proto/otlp/logs/v1"
	"google.golang.org/protobuf/proto"
	"pgregory.net/rapid"
)

// LogCase is one batch of log records.
type LogCase struct {
	Res    []Res   `json:"res"`
	Scopes []Scope `json:"scopes"`
	Recs   []Rec   `json:"recs"`
	Gzip   bool    `json:"gzip,omitempty"`
}

// Rec is a logtest.RecordFactory as data. Every record carries its position
// in the batch as the first attribute ("serial"), which is the key records
// are matched by.
type Rec struct {
	Res     int    `json:"res"`
	Scope   int    `json:"scope"` // -1: nil *instrumentation.Scope
	Event   string `json:"event,omitempty"`
	Ts      int64  `json:"ts"`  // zeroTime: unset
	Obs     int64  `json:"obs"` // zeroTime: unset
	Sev     int    `json:"sev"`
	SevText string `json:"sev_text,omitempty"`
	Body    Val    `json:"body"`
	Attrs   []LKV  `json:"attrs,omitempty"`
	TraceID string `json:"tid,omitempty"` // hex; "" = zero (no trace context)
	SpanID  string `json:"sid,omitempty"`
	Flags   uint8  `json:"flags,omitempty"`
	Dropped int64  `json:"dropped,omitempty"`
}

// Val is a log.Value as data.
type Val struct {
	K string `json:"k"` // empty bool int float str bytes slice map
	B bool   `json:"b,omitempty"`
	I int64  `json:"i,omitempty"`
	F vk.F64 `json:"f"`
	S vk.Str `json:"s,omitempty"` // str (valid UTF-8) or bytes (anything)
	L []Val  `json:"l,omitempty"`
	M []LKV  `json:"m,omitempty"`
}

// LKV is a log.KeyValue as data.
type LKV struct {
	K string `json:"k"`
	V Val    `json:"v"`
}

func (v Val) build() log.Value {
	switch v.K {
	case "empty":
		return log.Value{}
	case "bool":
		return log.BoolValue(v.B)
	case "int":
		return log.Int64Value(v.I)
	case "float":
		return log.Float64Value(float64(v.F))
	case "str":
		return log.StringValue(string(v.S))
	case "bytes":
		return log.BytesValue([]byte(v.S))
	case "slice":
		vs := make([]log.Value, len(v.L))
		for i, e := range v.L {
			vs[i] = e.build()
		}
		return log.SliceValue(vs...)
	case "map":
		return log.MapValue(buildLKVs(v.M)...)
	}
	panic("harness bug: value kind " + v.K)
}

func buildLKVs(kvs []LKV) []log.KeyValue {
	out := make([]log.KeyValue, len(kvs))
	for i, kv := range kvs {
		out[i] = log.KeyValue{Key: kv.K, Value: kv.V.build()}
	}
	return out
}

func (v Val) has(kind string) bool {
	if v.K == kind {
		return true
	}
	for _, e := range v.L {
		if e.has(kind) {
			return true
		}
	}
	for _, kv := range v.M {
		if kv.V.has(kind) {
			return true
		}
	}
	return false
}

func (v Val) depth() int {
	d := 0
	for _, e := range v.L {
		if x := e.depth(); x > d {
			d = x
		}
	}
	for _, kv := range v.M {
		if x := kv.V.depth(); x > d {
			d = x
		}
	}
	if v.K == "slice" || v.K == "map" {
		return d + 1
	}
	return 0
}

var logKeys = []string{"k", "user.id", "http.status", "nested", "ü", "", "Z"}

// genLogKey draws the key of the i-th entry of an attribute list or map:
// mostly an alphabet key made unique by the position, 1 time in 8 exactly the
// empty key, 1 time in 8 a bare alphabet key (duplicates within one list
// become possible; the expected side is what the Record's accessors report
// after the SDK's own de-duplication).
func genLogKey(t *rapid.T, i int, sep string) string {
	switch rapid.IntRange(0, 7).Draw(t, "keyshape") {
	case 6:
		return rapid.SampledFrom(logKeys).Draw(t, "barekey")
	case 7:
		return ""
	}
	return fmt.Sprintf("%s%s%d", rapid.SampledFrom(logKeys).Draw(t, "key"), sep, i)
}

func (v Val) hasEmptyKey() bool {
	for _, e := range v.L {
		if e.hasEmptyKey() {
			return true
		}
	}
	for _, kv := range v.M {
		if kv.K == "" || kv.V.hasEmptyKey() {
			return true
		}
	}
	return false
}

func genVal(t *rapid.T, depth int) Val {
	kinds := []string{"empty", "bool", "int", "float", "str", "str", "bytes", "slice", "map"}
	if depth <= 0 {
		kinds = kinds[:7]
	}
	v := Val{K: rapid.SampledFrom(kinds).Draw(t, "vkind")}
	switch v.K {
	case "bool":
		v.B = rapid.Bool().Draw(t, "vb")
	case "int":
		v.I = vk.GenI64().Draw(t, "vi")
	case "float":
		v.F = vk.GenF64().Draw(t, "vf")
	case "str":
		v.S = vk.GenText(5, false).Draw(t, "vs")
	case "bytes":
		v.S = vk.Str(rapid.SliceOfN(rapid.Byte(), 0, 6).Draw(t, "vbytes"))
	case "slice":
		n := rapid.IntRange(0, 3).Draw(t, "vlen")
		for i := 0; i < n; i++ {
			v.L = append(v.L, genVal(t, depth-1))
		}
	case "map":
		n := rapid.IntRange(0, 3).Draw(t, "mlen")
		for i := 0; i < n; i++ {
			v.M = append(v.M, LKV{K: genLogKey(t, i, ""), V: genVal(t, depth-1)})
		}
	}
	return v
}

func genLogCase(t *rapid.T) LogCase {
	c := LogCase{Gzip: rapid.Bool().Draw(t, "gzip")}
	c.Res = genResources(t, 4)
	c.Scopes = genScopes(t, 4)
	n := 0
	switch rapid.IntRange(0, 9).Draw(t, "batchsize") {
	case 0:
		n = rapid.SampledFrom([]int{0, 1}).Draw(t, "tiny")
	case 1:
		n = rapid.IntRange(7, 20).Draw(t, "large")
	default:
		n = rapid.IntRange(2, 6).Draw(t, "small")
	}
	n = genSize(t, "batch", []int{n}, 80, 8, 300)
	for i := 0; i < n; i++ {
		r := Rec{
			Res:   rapid.IntRange(0, len(c.Res)-1).Draw(t, "res"),
			Scope: rapid.IntRange(0, len(c.Scopes)-1).Draw(t, "scope"),
			Ts:    genTime(true).Draw(t, "ts"),
			Obs:   genTime(true).Draw(t, "obs"),
			Body:  genVal(t, 3),
		}
		if rapid.IntRange(0, 7).Draw(t, "nilscope") == 0 {
			r.Scope = -1
		}
		if rapid.Bool().Draw(t, "hasevent") {
			r.Event = rapid.SampledFrom([]string{"device.app.lifecycle", "e", "ü.event"}).Draw(t, "event")
		}
		switch rapid.IntRange(0, 5).Draw(t, "sevkind") {
		case 0:
			r.Sev = rapid.SampledFrom([]int{-1, 25, 26, 100, math.MinInt32, math.MaxInt32, 1 << 33}).Draw(t, "sevout")
		case 1:
			r.Sev = 0
		default:
			r.Sev = rapid.IntRange(1, 24).Draw(t, "sev")
		}
		if rapid.Bool().Draw(t, "hassevtext") {
			r.SevText = rapid.SampledFrom([]string{"INFO", "warn", "Fatal!", "ü"}).Draw(t, "sevtext")
		}
		r.Attrs = []LKV{{K: "serial", V: Val{K: "int", I: int64(i)}}}
		// the Record keeps its first 5 attributes inline and the rest in a
		// slice: 4 and 5 drawn attributes (+ serial) sit on that boundary
		na := genSize(t, "nattrs", []int{0, 0, 1, 2, 4, 5}, 80, 6, 160)
		for j := 0; j < na; j++ {
			d := 2
			if na > 8 {
				d = 0
			}
			r.Attrs = append(r.Attrs, LKV{K: genLogKey(t, j, "."), V: genVal(t, d)})
		}
		switch rapid.IntRange(0, 4).Draw(t, "ctx") {
		case 0, 1:
			r.TraceID = genTraceIDHex().Draw(t, "tid")
			r.SpanID = genAnySpanIDHex().Draw(t, "sid")
			r.Flags = rapid.SampledFrom([]uint8{0, 1, 1, 3, 0xff}).Draw(t, "flags")
		case 2:
			r.TraceID = genTraceIDHex().Draw(t, "tidonly")
		}
		r.Dropped = genCount().Draw(t, "dropped")
		c.Recs = append(c.Recs, r)
	}
	return c
}

func (c LogCase) records() []sdklog.Record {
	shared := make([]*resource.Resource, len(c.Res))
	for i, r := range c.Res {
		shared[i] = r.build()
	}
	out := make([]sdklog.Record, 0, len(c.Recs))
	for i, r := range c.Recs {
		f := logtest.RecordFactory{
			EventName:         r.Event,
			Timestamp:         mkTime(r.Ts),
			ObservedTimestamp: mkTime(r.Obs),
			Severity:          log.Severity(r.Sev),
			SeverityText:      r.SevText,
			Body:              r.Body.build(),
			Attributes:        buildLKVs(r.Attrs),
			TraceFlags:        trace.TraceFlags(r.Flags),
			DroppedAttributes: int(r.Dropped),
		}
		if r.TraceID != "" {
			copy(f.TraceID[:], unhex(r.TraceID))
		}
		if r.SpanID != "" {
			copy(f.SpanID[:], unhex(r.SpanID))
		}
		f.Resource = shared[r.Res]
		if i%2 == 1 {
			f.Resource = c.Res[r.Res].build()
		}
		if r.Scope >= 0 {
			sc := c.Scopes[r.Scope].build()
			f.InstrumentationScope = &sc
		}
		out = append(out, f.NewRecord())
	}
	return out
}

// ---------------------------------------------------------------------
// expected model, from the sdk/log.Record accessors

// renderLogValue renders a log.Value; invalidForEmpty selects the
// alternative rendering that identifies the known defect (an empty value
// exported as the string "INVALID").
func renderLogValue(v log.Value, invalidForEmpty bool) string {
	switch v.Kind() {
	case log.KindEmpty:
		if invalidForEmpty {
			return renderStr("INVALID")
		}
		return "empty"
	case log.KindBool:
		return renderBool(v.AsBool())
	case log.KindInt64:
		return renderInt(v.AsInt64())
	case log.KindFloat64:
		return renderF64(v.AsFloat64())
	case log.KindString:
		return renderStr(v.AsString())
	case log.KindBytes:
		return renderBytes(v.AsBytes())
	case log.KindSlice:
		var p []string
		for _, e := range v.AsSlice() {
			p = append(p, renderLogValue(e, invalidForEmpty))
		}
		return "array:[" + strings.Join(p, ",") + "]"
	case log.KindMap:
		return "map:" + renderLogKVs(v.AsMap(), invalidForEmpty)
	}
	panic("harness bug: log value kind")
}

func renderLogKVs(kvs []log.KeyValue, invalidForEmpty bool) string {
	parts := make([]string, len(kvs))
	for i, kv := range kvs {
		parts[i] = fmt.Sprintf("%q=%s", kv.Key, renderLogValue(kv.Value, invalidForEmpty))
	}
	return renderKVList(parts)
}

// kindEmptyAsInvalid is the violation kind of the known defect.
const kindEmptyAsInvalid = "log_empty_value_exported_as_string_INVALID"

// serial is the record's key (its first attribute).
func (r Rec) serial() int64 { return r.Attrs[0].V.I }

func wantRecord(rec sdklog.Record, src Rec, serial int64) item {
	it := item{key: fmt.Sprint(serial), alt: map[string][2]string{}, loose: map[string][]string{}}
	res := rec.Resource()
	it.add("resource", renderResource(&res))
	it.add("scope", renderScope(rec.InstrumentationScope()))
	it.add("event_name", "%q", rec.EventName())
	it.add("time", "%d", unixNanos(src.Ts))
	it.add("observed_time", "%d", unixNanos(src.Obs))
	sev := int64(rec.Severity())
	it.add("severity_number", "%d", sev)
	if sev < 0 || sev > 24 {
		// numbers outside the data model's 1..24: kept or reported as unspecified
		it.loose["severity_number"] = []string{"0"}
	}
	it.add("severity_text", "%q", rec.SeverityText())
	it.add("body", renderLogValue(rec.Body(), false))
	if src.Body.has("empty") {
		it.alt["body"] = [2]string{renderLogValue(rec.Body(), true), kindEmptyAsInvalid}
	}
	var attrs []log.KeyValue
	rec.WalkAttributes(func(kv log.KeyValue) bool { attrs = append(attrs, kv); return true })
	it.add("attributes", renderLogKVs(attrs, false))
	for _, a := range src.Attrs {
		if a.V.has("empty") {
			it.alt["attributes"] = [2]string{renderLogKVs(attrs, true), kindEmptyAsInvalid}
		}
	}
	it.add("dropped_attributes", "%d", wantCount(int64(rec.DroppedAttributes())))
	if tid := rec.TraceID(); tid.IsValid() {
		it.add("trace_id", hex.EncodeToString(tid[:]))
	} else {
		it.add("trace_id", "")
	}
	if sid := rec.SpanID(); sid.IsValid() {
		it.add("span_id", hex.EncodeToString(sid[:]))
	} else {
		it.add("span_id", "")
	}
	it.add("trace_flags", "%02x", byte(rec.TraceFlags()))
	return it
}

// ---------------------------------------------------------------------
// independent decoder (opentelemetry-proto logs/v1/logs.proto)

func zeroIsAbsent(b []byte) string {
	if rapidAllZero(b) {
		return "" // all-zero IDs are invalid per the proto and mean "absent"
	}
	return hex.EncodeToString(b)
}

func decodeLogs(rls []*logspb.ResourceLogs) []item {
	var out []item
	unkeyed := 0
	for _, rl := range rls {
		res := decodeResource(rl.GetResource(), rl.GetSchemaUrl())
		for _, sl := range rl.GetScopeLogs() {
			scope := decodeScope(sl.GetScope(), sl.GetSchemaUrl())
			for _, r := range sl.GetLogRecords() {
				key := ""
				for _, kv := range r.GetAttributes() {
					if kv.GetKey() == "serial" {
						key = strings.TrimPrefix(decodeAny(kv.GetValue()), "int:")
					}
				}
				if key == "" {
					unkeyed++
					key = fmt.Sprintf("without-serial-%d", unkeyed)
				}
				it := item{key: key}
				it.add("resource", res)
				it.add("scope", scope)
				it.add("event_name", "%q", r.GetEventName())
				it.add("time", "%d", r.GetTimeUnixNano())
				it.add("observed_time", "%d", r.GetObservedTimeUnixNano())
				// SeverityNumber values are the data model's numbers 1..24
				it.add("severity_number", "%d", int64(r.GetSeverityNumber()))
				it.add("severity_text", "%q", r.GetSeverityText())
				it.add("body", decodeAny(r.GetBody()))
				it.add("attributes", decodeKVs(r.GetAttributes()))
				it.add("dropped_attributes", "%d", r.GetDroppedAttributesCount())
				it.add("trace_id", zeroIsAbsent(r.GetTraceId()))
				it.add("span_id", zeroIsAbsent(r.GetSpanId()))
				it.add("trace_flags", "%02x", byte(r.GetFlags()&0xff)) // bits 0-7 are the W3C trace flags
				out = append(out, it)
			}
		}
	}
	return out
}

func judgeLogs(prefix string, want []item, req *collogpb.ExportLogsServiceRequest) []vk.Violation {
	rt, err := wire(req, &collogpb.ExportLogsServiceRequest{})
	if err != nil {
		return []vk.Violation{vk.V(prefix+"_wire", "payload does not survive proto.Marshal/Unmarshal: %v", err)}
	}
	return compareItems(prefix, want, decodeLogs(rt.GetResourceLogs()))
}

func canonLogs(req *collogpb.ExportLogsServiceRequest) *collogpb.ExportLogsServiceRequest {
	c := proto.Clone(req).(*collogpb.ExportLogsServiceRequest)
	for _, rl := range c.ResourceLogs {
		for _, sl := range rl.ScopeLogs {
			sortByBytes(sl.LogRecords)
		}
		sortByBytes(rl.ScopeLogs)
	}
	sortByBytes(c.ResourceLogs)
	return c
}

type logExporter interface {
	Export(context.Context, []sdklog.Record) error
}

func runLogs(c LogCase) ([]vk.Violation, vk.Info) {
	var vs []vk.Violation
	var info vk.Info
	recs := c.records()
	var want []item
	for i := range recs {
		want = append(want, wantRecord(recs[i], c.Recs[i], c.Recs[i].serial()))
	}
	err := lab.use(func() {
		ctx := context.Background()
		var reqs [2]*collogpb.ExportLogsServiceRequest
		for ti, name := range []string{"grpc", "http"} {
			in := c.records() // fresh, equal records for each exporter
			var e logExporter
			var err error
			if ti == 0 {
				var g *otlploggrpc.Exporter
				if g, err = lab.logGRPC(c.Gzip); err == nil {
					e = g
				}
			} else {
				var h *otlploghttp.Exporter
				if h, err = lab.logHTTP(c.Gzip); err == nil {
					e = h
				}
			}
			if err == nil {
				err = e.Export(ctx, in)
			}
			if err != nil {
				vs = append(vs, vk.V("log_export_error", "%s Export: %v (collector: %v)", name, err, lab.httpErrs))
				continue
			}
			lab.capMu.Lock()
			got := lab.logH
			if ti == 0 {
				got = lab.logG
			}
			lab.capMu.Unlock()
			req := &collogpb.ExportLogsServiceRequest{}
			if len(got) > 0 {
				req = got[len(got)-1]
			} else if len(want) > 0 {
				vs = append(vs, vk.V("log_nothing_received", "%s collector received no request for %d records", name, len(want)))
			}
			reqs[ti] = req
			vs = append(vs, judgeLogs("log_"+name, want, req)...)
		}
		if reqs[0] != nil && reqs[1] != nil {
			a, b := canonLogs(reqs[0]), canonLogs(reqs[1])
			if !proto.Equal(a, b) {
				v := vk.V("log_grpc_http_differ", "the gRPC and the HTTP exporter sent different payloads for the same records")
				v.Observed, v.Expected = clip(fmt.Sprint(a)), clip(fmt.Sprint(b))
				vs = append(vs, v)
			}
		}
		info.ClassIf(lab.gzipSeen > 0, "http_gzip_body")
	})
	if err != nil {
		vs = append(vs, vk.V("infrastructure", "cannot start loopback collectors: %v", err))
	}

	resUsed, scopeUsed := map[int]bool{}, map[string]bool{}
	kinds := map[string]bool{}
	var boundary, sevOut, ctxSet, ctxUnset, tsUnset, bigDrop, dropped, nilScope, emptyBody, emptyNested, deep bool
	sevs := map[int]bool{}
	var emptyKeyAttr, emptyKeyMap, dupKeyAttr bool
	maxAttrs := 0
	for _, r := range c.Recs {
		maxAttrs = max(maxAttrs, len(r.Attrs))
		seen := map[string]bool{}
		for _, a := range r.Attrs {
			emptyKeyAttr = emptyKeyAttr || a.K == ""
			emptyKeyMap = emptyKeyMap || a.V.hasEmptyKey()
			dupKeyAttr = dupKeyAttr || seen[a.K]
			seen[a.K] = true
		}
		emptyKeyMap = emptyKeyMap || r.Body.hasEmptyKey()
		resUsed[r.Res] = true
		if r.Scope < 0 {
			nilScope = true
			scopeUsed[fmt.Sprint(Scope{})] = true
		} else {
			scopeUsed[fmt.Sprint(c.Scopes[r.Scope])] = true
		}
		if extremeTime(normTime(r.Ts)) || extremeTime(normTime(r.Obs)) {
			boundary = true
		}
		if r.Ts == zeroTime {
			tsUnset = true
		}
		if r.Sev < 0 || r.Sev > 24 {
			sevOut, boundary = true, true
		}
		sevs[r.Sev] = true
		if r.TraceID != "" && r.SpanID != "" {
			ctxSet = true
		} else {
			ctxUnset = true
		}
		if boundaryCount(r.Dropped) {
			boundary = true
		}
		if r.Dropped > math.MaxUint32 {
			bigDrop = true
		}
		if r.Dropped > 0 {
			dropped = true
		}
		vals := []Val{r.Body}
		for _, a := range r.Attrs {
			vals = append(vals, a.V)
		}
		for _, v := range vals {
			for _, k := range []string{"empty", "bool", "int", "float", "str", "bytes", "slice", "map"} {
				if v.has(k) {
					kinds[k] = true
				}
			}
			if v.depth() >= 2 {
				deep = true
			}
			if v.K != "empty" && v.has("empty") {
				emptyNested = true
			}
		}
		if r.Body.K == "empty" {
			emptyBody = true
		}
	}
	info.NonTrivial = len(resUsed) >= 2 || len(scopeUsed) >= 2 || boundary
	info.ClassIf(len(c.Recs) == 0, "empty_batch")
	info.ClassIf(len(c.Recs) > 20, "batch>20")
	info.ClassIf(len(c.Recs) >= 256, "batch>=256")
	info.ClassIf(emptyKeyAttr, "empty_attr_key:record")
	info.ClassIf(emptyKeyMap, "empty_attr_key:map_value")
	info.ClassIf(dupKeyAttr, "duplicate_attr_key_in_record")
	info.ClassIf(maxAttrs > 5, "record_attrs>5")
	info.ClassIf(maxAttrs > 128, "record_attrs>128")
	info.ClassIf(len(resUsed) >= 2, "resources>=2")
	info.ClassIf(len(scopeUsed) >= 2, "scopes>=2")
	info.ClassIf(nilScope, "nil_scope")
	info.ClassIf(sevOut, "severity_out_of_range")
	info.ClassIf(sevs[0], "severity_undefined")
	info.ClassIf(ctxSet, "trace_context_set")
	info.ClassIf(ctxUnset, "trace_context_unset")
	info.ClassIf(tsUnset, "timestamp_unset")
	info.ClassIf(dropped, "dropped_attributes>0")
	info.ClassIf(bigDrop, "dropped_attributes>MaxUint32")
	info.ClassIf(emptyBody, "body_empty")
	info.ClassIf(emptyNested, "empty_value_nested")
	info.ClassIf(deep, "nesting_depth>=2")
	info.ClassIf(len(kinds) == 8, "all_eight_value_kinds_in_batch")
	info.ClassIf(kinds["bytes"], "bytes_value")
	info.ClassIf(kinds["map"], "map_value")
	info.ClassIf(c.Gzip, "gzip")
	return vs, info
}

// knownEmptyAsInvalid recognises exactly the known defect: the violation
// kind is only produced when the decoded body / attributes equal the input
// with every empty log.Value replaced by the string "INVALID".
func knownEmptyAsInvalid(c LogCase, v vk.Violation) bool {
	if v.Kind != kindEmptyAsInvalid {
		return false
	}
	for _, r := range c.Recs {
		if r.Body.has("empty") {
			return true
		}
		for _, a := range r.Attrs {
			if a.V.has("empty") {
				return true
			}
		}
	}
	return false
}

func TestLogs(t *testing.T) {
	vk.Run(t, vk.Spec[LogCase]{
		Property: "C13", Check: "otlp_logs_grpc_http",
		Rule: "batches of 0..20 (1 in 80: up to 300) records from logtest.RecordFactory over 1..4 resources and 1..4 scopes (nil/empty/sibling scopes), severities 0..24 and out of range, severity text, event name, body and attributes over all eight log.Value kinds nested to depth 3, attribute and map keys incl. the empty key and duplicates, 0..6 (1 in 80: up to 160) attributes per record, trace context set / partly set / unset with flags, unset/pre-epoch/2262 timestamps, DroppedAttributes incl. > MaxUint32 and negative; exported by otlploggrpc and otlploghttp (gzip on/off) to loopback collectors; " +
			"non-trivial = the records use >= 2 resources or >= 2 distinct scopes, or carry >= 1 boundary value (time <= epoch or unset or in the last second of int64 nanos, severity outside 0..24, count < 0 or >= MaxUint32-1)",
		Quick: 2000, Thorough: 30000,
		Gen: genLogCase, Run: runLogs,
		Known: map[string]func(LogCase, vk.Violation) bool{
			"log_empty_value_as_invalid_string": knownEmptyAsInvalid,
		},
	})
}
