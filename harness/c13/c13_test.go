// Package c13 decides property C13 (exporters encode telemetry faithfully).
//
// Sub-checks (one vk.Spec each):
//
//	otlp_traces            span batches through the real otlptrace.Exporter with a
//	                       recording otlptrace.Client (fast path, no network)
//	otlp_traces_grpc_http  the same batches through otlptracegrpc and otlptracehttp
//	                       against in-process loopback collectors + differential
//	otlp_metrics_grpc_http metricdata.ResourceMetrics through otlpmetricgrpc /
//	                       otlpmetrichttp + differential
//	otlp_logs_grpc_http    logtest.RecordFactory records through otlploggrpc /
//	                       otlploghttp + differential
//	zipkin                 span batches through zipkin.New(loopback URL)
//	otlp_concurrent_export one exporter instance (any of the six OTLP exporters), 2..6
//	                       goroutines exporting their own batches at once (conc_test.go,
//	                       which also records what the documentation says about
//	                       concurrent Export calls)
//
// Oracle. Every captured OTLP request goes through proto.Marshal/Unmarshal and
// is then mapped by the decoders of this package (written against the OTLP
// .proto files; they call nothing from the exporters' transform packages) to
// a neutral model: item key + named fields rendered canonically (model_test.go).
// The same model is built from the SDK objects handed to the exporter, read
// through their public accessors. Required: every input item exactly once
// (spans by span ID, metrics by their unique name, log records by a serial
// attribute), under a resource and scope rendering equal to its own, all
// fields equal; nothing else in the payload. The gRPC and the HTTP capture of
// the same input must be proto.Equal after sorting records, scopes and
// resources by their deterministic serialisation.
//
// Readings of the statement (conservative where it is silent):
//
//   - Timestamps are unsigned nanoseconds on the wire where 0 means unknown:
//     the expected value is max(0, UnixNano), i.e. pre-epoch and unset (zero
//     time.Time) times are expected as 0. The transforms do exactly that.
//   - Dropped counts travel in uint32 fields: the expected value is the count
//     saturated to [0, MaxUint32] (never wrapped around). The transforms clamp.
//   - Attribute order, map entry order and the order of a metric's data points
//     are not asserted (compared as multisets); events, links, array values,
//     bucket counts, bounds, quantiles and exemplars are ordered lists.
//   - Whether equal resources / scopes are merged into one Resource*/Scope*
//     message is not asserted, only that each item sits under its own.
//   - A span status message is compared for status Error only (the data model
//     defines it for errors only).
//   - Parent / link "remote" is read from bits 8-9 of the flags field and only
//     compared when bit 8 (has_is_remote) is set. W3C trace flag bits of spans
//     and links, span and link tracestate, ChildSpanCount and the exponential
//     histogram ZeroThreshold (metricdata carries it, the transform never
//     encodes it) are not in the statement's list and are not asserted.
//   - Log records: the trace flags byte is counted as part of the record's
//     trace context (bits 0-7 of LogRecord.flags). An all-zero trace/span ID
//     on the wire is the same as an absent one. Severity numbers outside the
//     data model's 0..24 may be kept or reported as 0.
//   - Histogram sum/min/max are doubles on the wire for either number type:
//     float64(v) is expected for int64 histograms, and the sum is expected to
//     be present. Gauge/Sum values and exemplar values must keep their type
//     (as_int for int64, as_double for float64).
//   - Scopes without metrics and metrics without data points need not appear
//     (the former) / must appear with zero points (the latter, it is an item).
//   - Metrics the OTLP transform documents as errors (Sum / Histogram /
//     ExponentialHistogram with an undefined or out-of-range temporality, nil
//     or unknown aggregation) are generated in 1 case of 6 among valid ones:
//     per the transform's and the exporters' documentation ("partial OTLP
//     Metrics", "best effort upload of transformable metrics") Export must
//     return an error on both transports, the valid metrics must still arrive
//     exactly once under their scopes, the invalid ones must be absent, and
//     both transports must still send equal payloads (one sending a request
//     and the other none counts as different). The trace and log transforms
//     have no error path (they return no error), so there is no analogue.
//   - Zipkin: names are compared case-insensitively (the Zipkin v2 model
//     lower-cases names), trace IDs as 128-bit numbers (16 or 32 hex digits),
//     parentId must be absent for spans without a valid parent span ID, kind per
//     the OpenTelemetry->Zipkin mapping of the specification (INTERNAL and
//     unspecified -> absent), timestamp and duration in microseconds within
//     1 us of the input. Tags, annotations and endpoints are not asserted.
//   - Domain: strings are valid UTF-8 (protobuf string fields and JSON cannot
//     carry anything else), attribute values are never INVALID (such a value
//     has no typed value to recover), the IDs of the span itself are valid,
//     temporality is cumulative or delta, parents are either completely valid
//     or have zero IDs.
//   - Attribute keys: every attribute list (span, event, link, exemplar,
//     data point, resource, scope, log record, log map value) draws keys from
//     a short alphabet, so duplicates are frequent, and the empty key about 1
//     time in 8..12. "Typed attribute values ... identical" is read as: the
//     decoded list equals, as a multiset of (key, typed value), the list the
//     public accessors of the object handed to the exporter report
//     (ReadOnlySpan.Attributes, Event.Attributes, Link.Attributes,
//     Exemplar.FilteredAttributes, attribute.Set, Record.WalkAttributes,
//     Value.AsMap). Containers that refuse or merge such keys themselves
//     (attribute.Set, Resource, the SDK log record's de-duplication) are
//     thereby accounted for on the expected side; an exporter that filters
//     on its own loses an item it was given (seeded change C13-r8b).
//   - Sizes: "any number": 1 batch in 60..120 is log-uniformly large (up to
//     600 spans / 300 records), 1 trace batch in 25 has spans with up to 160
//     attributes / events / links (beyond the SDK's default limits of 128),
//     1 log record in 80 up to 160 attributes (the Record keeps 5 inline),
//     metrics 1 time in 50..100 up to 60 metrics per scope, 100 points, 400
//     buckets / bounds, 100 quantiles, 40 exemplars.
//
// Infrastructure: see collector_test.go for the choice "collectors and
// exporters cached per test process".
package c13
