package c13

import (
	"bytes"
	"fmt"
	"sort"
	"strings"

	commonpb "go.opentelemetry.io/proto/otlp/common/v1"
	resourcepb "go.opentelemetry.io/proto/otlp/resource/v1"
	"google.golang.org/protobuf/proto"
)

// Independent decoding of the OTLP common messages (written against
// opentelemetry-proto common/v1/common.proto and resource/v1/resource.proto).

// decodeAny renders an AnyValue in the same canonical form model_test.go
// uses for the input values. A nil message or an unset oneof is "empty".
func decodeAny(v *commonpb.AnyValue) string {
	if v == nil {
		return "empty"
	}
	switch x := v.GetValue().(type) {
	case nil:
		return "empty"
	case *commonpb.AnyValue_StringValue:
		return renderStr(x.StringValue)
	case *commonpb.AnyValue_BoolValue:
		return renderBool(x.BoolValue)
	case *commonpb.AnyValue_IntValue:
		return renderInt(x.IntValue)
	case *commonpb.AnyValue_DoubleValue:
		return renderF64(x.DoubleValue)
	case *commonpb.AnyValue_BytesValue:
		return renderBytes(x.BytesValue)
	case *commonpb.AnyValue_ArrayValue:
		var p []string
		for _, e := range x.ArrayValue.GetValues() {
			p = append(p, decodeAny(e))
		}
		return "array:[" + strings.Join(p, ",") + "]"
	case *commonpb.AnyValue_KvlistValue:
		return "map:" + decodeKVs(x.KvlistValue.GetValues())
	}
	return fmt.Sprintf("unknown:%T", v.GetValue())
}

func decodeKVs(kvs []*commonpb.KeyValue) string {
	parts := make([]string, len(kvs))
	for i, kv := range kvs {
		parts[i] = fmt.Sprintf("%q=%s", kv.GetKey(), decodeAny(kv.GetValue()))
	}
	return renderKVList(parts)
}

func decodeResource(r *resourcepb.Resource, schemaURL string) string {
	return "attrs=" + decodeKVs(r.GetAttributes()) + " schema=" + fmt.Sprintf("%q", schemaURL)
}

func decodeScope(s *commonpb.InstrumentationScope, schemaURL string) string {
	return fmt.Sprintf("name=%q version=%q schema=%q attrs=%s", s.GetName(), s.GetVersion(), schemaURL, decodeKVs(s.GetAttributes()))
}

// wire sends a message through the protobuf wire format.
func wire[M proto.Message](m M, fresh M) (M, error) {
	b, err := proto.Marshal(m)
	if err != nil {
		return fresh, err
	}
	if err := proto.Unmarshal(b, fresh); err != nil {
		return fresh, err
	}
	return fresh, nil
}

// detBytes is a deterministic serialisation used as a sort key.
func detBytes(m proto.Message) []byte {
	b, err := proto.MarshalOptions{Deterministic: true}.Marshal(m)
	if err != nil {
		return []byte("unmarshalable:" + err.Error())
	}
	return b
}

// sortByBytes sorts messages by their deterministic serialisation.
func sortByBytes[M proto.Message](ms []M) {
	keys := make([][]byte, len(ms))
	for i, m := range ms {
		keys[i] = detBytes(m)
	}
	sort.Sort(&byKey[M]{ms, keys})
}

type byKey[M any] struct {
	ms   []M
	keys [][]byte
}

func (b *byKey[M]) Len() int           { return len(b.ms) }
func (b *byKey[M]) Less(i, j int) bool { return bytes.Compare(b.keys[i], b.keys[j]) < 0 }
func (b *byKey[M]) Swap(i, j int) {
	b.ms[i], b.ms[j] = b.ms[j], b.ms[i]
	b.keys[i], b.keys[j] = b.keys[j], b.keys[i]
}
