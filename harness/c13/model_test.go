package c13

import (
	"encoding/hex"
	"fmt"
	"math"
	"sort"
	"strings"

	"go.opentelemetry.io/otel/attribute"
	"go.opentelemetry.io/otel/sdk/instrumentation"
	"go.opentelemetry.io/otel/sdk/resource"
	"go.opentelemetry.io/otel/verif/internal/vk"
)

// ---------------------------------------------------------------------
// The neutral model.
//
// Every piece of telemetry (span, metric, log record) becomes an item: a key
// that identifies it within the batch plus an ordered list of named fields
// whose values are canonical strings. The expected items are built from the
// SDK objects handed to the exporter (through their public accessors); the
// observed items are built from the protobuf the collector received by the
// decoders in decode_test.go. Nothing here or there calls into the
// exporters' transform packages.

type field struct {
	name string
	val  string
}

type item struct {
	key    string
	fields []field
	// alt maps a field name to {alternative rendering, violation kind}: when
	// the observed value equals the alternative rendering the violation is
	// reported under that kind (used to give a precisely recognisable kind to
	// a known defect; the oracle itself stays strict).
	alt map[string][2]string
	// loose marks fields for which a set of acceptable renderings exists.
	loose map[string][]string
}

func (it *item) add(name, format string, a ...any) {
	if len(a) == 0 {
		it.fields = append(it.fields, field{name, format})
		return
	}
	it.fields = append(it.fields, field{name, fmt.Sprintf(format, a...)})
}

func (it *item) get(name string) (string, bool) {
	for _, f := range it.fields {
		if f.name == name {
			return f.val, true
		}
	}
	return "", false
}

func clip(s string) string {
	if len(s) > 400 {
		return s[:400] + fmt.Sprintf("...(%d bytes)", len(s))
	}
	return s
}

// diffItem reports one violation per differing field (at most 4).
func diffItem(prefix string, want, got item) []vk.Violation {
	var vs []vk.Violation
	for _, wf := range want.fields {
		gv, ok := got.get(wf.name)
		if !ok {
			// the decoder always emits every field; a missing one is a harness bug
			panic("harness bug: decoded item lacks field " + wf.name)
		}
		if gv == wf.val {
			continue
		}
		if acc, ok := want.loose[wf.name]; ok {
			hit := false
			for _, a := range acc {
				if a == gv {
					hit = true
				}
			}
			if hit {
				continue
			}
		}
		kind := prefix + "_" + wf.name
		if a, ok := want.alt[wf.name]; ok && a[0] == gv {
			kind = a[1]
		}
		v := vk.V(kind, "%s %s: field %s: decoded %s, input %s", prefix, want.key, wf.name, clip(gv), clip(wf.val))
		v.Observed, v.Expected = clip(gv), clip(wf.val)
		vs = append(vs, v)
		if len(vs) >= 4 {
			break
		}
	}
	return vs
}

// compareItems checks "every input item exactly once, all fields equal, and
// nothing else".
func compareItems(prefix string, want, got []item) []vk.Violation {
	var vs []vk.Violation
	idx := map[string][]int{}
	for i, g := range got {
		idx[g.key] = append(idx[g.key], i)
	}
	wantKeys := map[string]bool{}
	var unmatchedWant []int
	for wi, w := range want {
		if wantKeys[w.key] {
			panic("harness bug: duplicate item key in the input " + w.key)
		}
		wantKeys[w.key] = true
		g := idx[w.key]
		switch {
		case len(g) == 0:
			unmatchedWant = append(unmatchedWant, wi)
		case len(g) > 1:
			vs = append(vs, vk.V(prefix+"_duplicated", "%s %s was decoded %d times from one payload", prefix, w.key, len(g)))
		default:
			vs = append(vs, diffItem(prefix, w, got[g[0]])...)
		}
	}
	var unmatchedGot []int
	for gi, g := range got {
		if !wantKeys[g.key] {
			unmatchedGot = append(unmatchedGot, gi)
		}
	}
	for _, wi := range unmatchedWant {
		vs = append(vs, vk.V(prefix+"_missing", "%s %s is not in the decoded payload (%d decoded items, %d with unknown keys)", prefix, want[wi].key, len(got), len(unmatchedGot)))
	}
	for _, gi := range unmatchedGot {
		vs = append(vs, vk.V(prefix+"_unexpected", "decoded %s %s does not correspond to any input item", prefix, got[gi].key))
	}
	if len(vs) > 8 {
		vs = vs[:8]
	}
	return vs
}

// ---------------------------------------------------------------------
// canonical renderings

func renderF64(f float64) string {
	return fmt.Sprintf("double:%016x(%g)", math.Float64bits(f), f)
}

func renderStr(s string) string   { return fmt.Sprintf("str:%q", s) }
func renderInt(i int64) string    { return fmt.Sprintf("int:%d", i) }
func renderBool(b bool) string    { return fmt.Sprintf("bool:%v", b) }
func renderBytes(b []byte) string { return "bytes:" + hex.EncodeToString(b) }

// renderAttrValue is the expected rendering of an attribute.Value.
func renderAttrValue(v attribute.Value) string {
	switch v.Type() {
	case attribute.BOOL:
		return renderBool(v.AsBool())
	case attribute.INT64:
		return renderInt(v.AsInt64())
	case attribute.FLOAT64:
		return renderF64(v.AsFloat64())
	case attribute.STRING:
		return renderStr(v.AsString())
	case attribute.BOOLSLICE:
		var p []string
		for _, x := range v.AsBoolSlice() {
			p = append(p, renderBool(x))
		}
		return "array:[" + strings.Join(p, ",") + "]"
	case attribute.INT64SLICE:
		var p []string
		for _, x := range v.AsInt64Slice() {
			p = append(p, renderInt(x))
		}
		return "array:[" + strings.Join(p, ",") + "]"
	case attribute.FLOAT64SLICE:
		var p []string
		for _, x := range v.AsFloat64Slice() {
			p = append(p, renderF64(x))
		}
		return "array:[" + strings.Join(p, ",") + "]"
	case attribute.STRINGSLICE:
		var p []string
		for _, x := range v.AsStringSlice() {
			p = append(p, renderStr(x))
		}
		return "array:[" + strings.Join(p, ",") + "]"
	}
	panic("harness bug: INVALID attribute values are not generated")
}

// renderKVList renders key-values as a sorted multiset (attribute order is
// not part of the statement).
func renderKVList(parts []string) string {
	sort.Strings(parts)
	return "{" + strings.Join(parts, " ") + "}"
}

func renderAttrs(kvs []attribute.KeyValue) string {
	parts := make([]string, len(kvs))
	for i, kv := range kvs {
		parts[i] = fmt.Sprintf("%q=%s", string(kv.Key), renderAttrValue(kv.Value))
	}
	return renderKVList(parts)
}

func renderResource(r *resource.Resource) string {
	// r may be nil: the accessors are documented to be nil-safe.
	return "attrs=" + renderAttrs(r.Attributes()) + " schema=" + fmt.Sprintf("%q", r.SchemaURL())
}

func renderScope(s instrumentation.Scope) string {
	return fmt.Sprintf("name=%q version=%q schema=%q attrs=%s", s.Name, s.Version, s.SchemaURL, renderAttrs(s.Attributes.ToSlice()))
}

// wantNanos is how a time is expected on the wire: OTLP timestamps are
// unsigned nanoseconds since the epoch with 0 meaning "unknown", so a time
// before the epoch (or the zero time.Time) can only be 0.
func wantNanos(n int64) uint64 {
	if n < 0 {
		return 0
	}
	return uint64(n)
}

// wantCount is how a count is expected in a uint32 field: saturated, never
// wrapped around.
func wantCount(n int64) uint32 {
	if n < 0 {
		return 0
	}
	if n > math.MaxUint32 {
		return math.MaxUint32
	}
	return uint32(n)
}
