package c13

import (
	"context"
	"encoding/hex"
	"encoding/json"
	"strings"
	"testing"

	"go.opentelemetry.io/otel/trace"
	"go.opentelemetry.io/otel/verif/internal/vk"
)

// Zipkin sub-check. The JSON the collector receives is decoded with the
// struct below, written against the Zipkin v2 API (zipkin-api
// zipkin2-api.yaml: Span.traceId 16 or 32 lower-hex characters, id /
// parentId 16 lower-hex characters, parentId absent for root spans, kind one
// of CLIENT SERVER PRODUCER CONSUMER or absent, timestamp / duration in epoch
// microseconds, names "in lowercase").
//
// Domain: the Zipkin model cannot hold a timestamp before one second after
// the epoch nor a negative duration (the whole batch is rejected), and its
// microsecond rounding needs head room below the largest int64 nanosecond;
// the generator stays inside [1 s, MaxInt64-1 ms] with End >= Start.

type zipkinSpan struct {
	TraceID   *string      `json:"traceId"`
	ID        *string      `json:"id"`
	ParentID  *string      `json:"parentId"`
	Name      *string      `json:"name"`
	Kind      *string      `json:"kind"`
	Timestamp *json.Number `json:"timestamp"`
	Duration  *json.Number `json:"duration"`
}

func str(p *string) string {
	if p == nil {
		return "<absent>"
	}
	return *p
}

func num(p *json.Number) (int64, error) {
	if p == nil {
		return 0, nil // absent = 0 (omitted when zero)
	}
	return p.Int64()
}

// wantZipkinKind is the OpenTelemetry -> Zipkin kind mapping of the
// specification (trace/sdk_exporters/zipkin.md): the four remote kinds map to
// the Zipkin kind of the same name, INTERNAL (and unspecified) to none.
func wantZipkinKind(k trace.SpanKind) string {
	switch k {
	case trace.SpanKindClient:
		return "CLIENT"
	case trace.SpanKindServer:
		return "SERVER"
	case trace.SpanKindProducer:
		return "PRODUCER"
	case trace.SpanKindConsumer:
		return "CONSUMER"
	}
	return "<absent>"
}

// sameTraceID compares a Zipkin trace ID (16 or 32 hex digits) with the
// 128-bit input as numbers.
func sameTraceID(got string, want trace.TraceID) bool {
	if len(got) != 16 && len(got) != 32 {
		return false
	}
	if got != strings.ToLower(got) {
		return false
	}
	padded := strings.Repeat("0", 32-len(got)) + got
	return padded == hex.EncodeToString(want[:])
}

func abs64(x int64) int64 {
	if x < 0 {
		return -x
	}
	return x
}

func runZipkin(c TraceCase) ([]vk.Violation, vk.Info) {
	var vs []vk.Violation
	bad := func(kind, format string, a ...any) {
		if len(vs) < 8 {
			vs = append(vs, vk.V(kind, format, a...))
		}
	}
	info := traceInfo(c)
	ros := c.stubs().Snapshots()
	var bodies [][]byte
	err := lab.use(func() {
		exp, err := lab.zipkinExporter()
		if err != nil {
			bad("zipkin_exporter_new", "zipkin.New: %v", err)
			return
		}
		if err := exp.ExportSpans(context.Background(), ros); err != nil {
			bad("zipkin_export_error", "ExportSpans: %v (collector: %v)", err, lab.httpErrs)
			return
		}
		lab.capMu.Lock()
		bodies = lab.zipkinB
		lab.capMu.Unlock()
	})
	if err != nil {
		bad("infrastructure", "cannot start loopback collectors: %v", err)
	}
	if len(vs) > 0 {
		return vs, info
	}
	var got []zipkinSpan
	if len(bodies) > 0 {
		if err := json.Unmarshal(bodies[len(bodies)-1], &got); err != nil {
			bad("zipkin_json", "the request body is not a JSON list of spans: %v", err)
			return vs, info
		}
	} else if len(ros) > 0 {
		bad("zipkin_nothing_received", "the collector received no request for %d spans", len(ros))
		return vs, info
	}
	byID := map[string][]zipkinSpan{}
	for _, g := range got {
		byID[str(g.ID)] = append(byID[str(g.ID)], g)
	}
	wantIDs := map[string]bool{}
	var subMicro, rootSeen, childSeen, shortTID bool
	for i, ro := range ros {
		src := c.Spans[i]
		sid := ro.SpanContext().SpanID()
		id := hex.EncodeToString(sid[:])
		wantIDs[id] = true
		gs := byID[id]
		if len(gs) != 1 {
			kind := "zipkin_span_missing"
			if len(gs) > 1 {
				kind = "zipkin_span_duplicated"
			}
			bad(kind, "span %s appears %d times in the JSON (%d spans)", id, len(gs), len(got))
			continue
		}
		g := gs[0]
		if !sameTraceID(str(g.TraceID), ro.SpanContext().TraceID()) {
			bad("zipkin_trace_id", "span %s: traceId %q, input %s", id, str(g.TraceID), ro.SpanContext().TraceID())
		}
		if strings.HasPrefix(src.TraceID, "0000000000000000") {
			shortTID = true
		}
		if psid := ro.Parent().SpanID(); psid.IsValid() {
			childSeen = true
			if str(g.ParentID) != hex.EncodeToString(psid[:]) {
				bad("zipkin_parent_id", "span %s: parentId %q, input %s", id, str(g.ParentID), psid)
			}
		} else {
			rootSeen = true
			if g.ParentID != nil {
				bad("zipkin_parent_id_on_root", "span %s has no valid parent but parentId %q was sent", id, *g.ParentID)
			}
		}
		// Zipkin names are case-insensitive and sent in lower case.
		name := ""
		if g.Name != nil {
			name = *g.Name
		}
		if strings.ToLower(name) != strings.ToLower(ro.Name()) {
			bad("zipkin_name", "span %s: name %q, input %q", id, name, ro.Name())
		}
		if k := wantZipkinKind(ro.SpanKind()); str(g.Kind) != k {
			bad("zipkin_kind", "span %s: kind %s, input %v (expected %s)", id, str(g.Kind), ro.SpanKind(), k)
		}
		ts, err1 := num(g.Timestamp)
		du, err2 := num(g.Duration)
		if err1 != nil || err2 != nil {
			bad("zipkin_number", "span %s: timestamp/duration are not integers: %v %v", id, err1, err2)
			continue
		}
		// microseconds within 1 us of the input (ts <= MaxInt64/1000 by the
		// generator's domain, so the multiplication cannot overflow unless
		// the value is wrong anyway)
		if ts < 0 || ts > (1<<63-1)/1000 || abs64(ts*1000-src.Start) > 1000 {
			bad("zipkin_timestamp", "span %s: timestamp %d us, input start %d ns", id, ts, src.Start)
		}
		d := src.End - src.Start
		if du < 0 || du > (1<<63-1)/1000 || abs64(du*1000-d) > 1000 {
			bad("zipkin_duration", "span %s: duration %d us, input %d ns", id, du, d)
		}
		if d > 0 && d < 1000 {
			subMicro = true
		}
	}
	for _, g := range got {
		if !wantIDs[str(g.ID)] {
			bad("zipkin_span_unexpected", "JSON span with id %s does not correspond to an input span", str(g.ID))
		}
	}
	info.NonTrivial = info.NonTrivial || subMicro || shortTID
	info.ClassIf(subMicro, "duration_below_1us")
	info.ClassIf(rootSeen, "root_span")
	info.ClassIf(childSeen, "child_span")
	info.ClassIf(shortTID, "trace_id_high_half_zero")
	return vs, info
}

func TestZipkin(t *testing.T) {
	vk.Run(t, vk.Spec[TraceCase]{
		Property: "C13", Check: "zipkin",
		Rule: "zipkin.New(loopback URL) exporting " + strings.Replace(traceRule, "timestamps incl. epoch, pre-epoch and 2262", "start times in [1 s after the epoch, 2262) with End >= Start (sub-microsecond and half-microsecond corners)", 1) +
			", or a duration in (0, 1 us), or a trace ID whose high 64 bits are zero",
		Quick: 1500, Thorough: 20000,
		Gen: genTraceCase(traceDomain{maxSpans: 16, zipkin: true}), Run: runZipkin,
	})
}
