package c13

import (
	"bytes"
	"compress/gzip"
	"context"
	"fmt"
	"io"
	"net"
	"net/http"
	"net/http/httptest"
	"os"
	"strings"
	"sync"
	"sync/atomic"
	"testing"
	"time"

	"go.opentelemetry.io/otel/exporters/otlp/otlplog/otlploggrpc"
	"go.opentelemetry.io/otel/exporters/otlp/otlplog/otlploghttp"
	"go.opentelemetry.io/otel/exporters/otlp/otlpmetric/otlpmetricgrpc"
	"go.opentelemetry.io/otel/exporters/otlp/otlpmetric/otlpmetrichttp"
	"go.opentelemetry.io/otel/exporters/otlp/otlptrace"
	"go.opentelemetry.io/otel/exporters/otlp/otlptrace/otlptracegrpc"
	"go.opentelemetry.io/otel/exporters/otlp/otlptrace/otlptracehttp"
	"go.opentelemetry.io/otel/exporters/zipkin"
	collogpb "go.opentelemetry.io/proto/otlp/collector/logs/v1"
	colmetricpb "go.opentelemetry.io/proto/otlp/collector/metrics/v1"
	coltracepb "go.opentelemetry.io/proto/otlp/collector/trace/v1"
	"google.golang.org/grpc"
	_ "google.golang.org/grpc/encoding/gzip" // the collector must be able to inflate gzip'ed requests
	"google.golang.org/protobuf/proto"
)

// Choice (the task allows either): the loopback collectors and the exporters
// talking to them are created once per test process, cached in the
// package-level variable `lab`, used by one case at a time (lab.mu) and torn
// down in TestMain. Creating them per case would open and close several TCP
// connections per case; at the thorough tier (16 shards x tens of thousands
// of cases) that exhausts the loopback ephemeral port range through
// TIME_WAIT sockets. The collectors listen on 127.0.0.1:0, so that any number
// of shards can run side by side. Every Run call starts from empty capture
// buffers and reads only what its own Export calls delivered; nothing a case
// does changes the state of an exporter (they hold a connection and options,
// no telemetry). After a panic escaping from an exporter the cached exporters
// are thrown away and rebuilt.

const exportTimeout = 10 * time.Minute // not a correctness signal: far above the case watchdog

type laboratory struct {
	mu sync.Mutex // one case at a time

	started  bool
	grpcSrv  *grpc.Server
	grpcAddr string
	httpSrv  *httptest.Server
	httpAddr string

	capMu    sync.Mutex
	traceG   []*coltracepb.ExportTraceServiceRequest
	traceH   []*coltracepb.ExportTraceServiceRequest
	metricG  []*colmetricpb.ExportMetricsServiceRequest
	metricH  []*colmetricpb.ExportMetricsServiceRequest
	logG     []*collogpb.ExportLogsServiceRequest
	logH     []*collogpb.ExportLogsServiceRequest
	zipkinB  [][]byte
	gzipSeen int
	httpErrs []string

	// how many requests the collectors were handling at the same time (only
	// used to classify concurrent cases)
	inflight    atomic.Int32
	maxInflight atomic.Int32

	traceExp  map[string]*otlptrace.Exporter
	metricGE  map[bool]*otlpmetricgrpc.Exporter
	metricHE  map[bool]*otlpmetrichttp.Exporter
	logGE     map[bool]*otlploggrpc.Exporter
	logHE     map[bool]*otlploghttp.Exporter
	zipkinExp *zipkin.Exporter
}

var lab = &laboratory{}

type traceSvc struct {
	coltracepb.UnimplementedTraceServiceServer
	l *laboratory
}

func (s *traceSvc) Export(_ context.Context, req *coltracepb.ExportTraceServiceRequest) (*coltracepb.ExportTraceServiceResponse, error) {
	s.l.enter()
	defer s.l.leave()
	s.l.capMu.Lock()
	s.l.traceG = append(s.l.traceG, req)
	s.l.capMu.Unlock()
	return &coltracepb.ExportTraceServiceResponse{}, nil
}

type metricSvc struct {
	colmetricpb.UnimplementedMetricsServiceServer
	l *laboratory
}

func (s *metricSvc) Export(_ context.Context, req *colmetricpb.ExportMetricsServiceRequest) (*colmetricpb.ExportMetricsServiceResponse, error) {
	s.l.enter()
	defer s.l.leave()
	s.l.capMu.Lock()
	s.l.metricG = append(s.l.metricG, req)
	s.l.capMu.Unlock()
	return &colmetricpb.ExportMetricsServiceResponse{}, nil
}

type logSvc struct {
	collogpb.UnimplementedLogsServiceServer
	l *laboratory
}

func (s *logSvc) Export(_ context.Context, req *collogpb.ExportLogsServiceRequest) (*collogpb.ExportLogsServiceResponse, error) {
	s.l.enter()
	defer s.l.leave()
	s.l.capMu.Lock()
	s.l.logG = append(s.l.logG, req)
	s.l.capMu.Unlock()
	return &collogpb.ExportLogsServiceResponse{}, nil
}

// enter / leave bracket the handling of one request.
func (l *laboratory) enter() {
	n := l.inflight.Add(1)
	for {
		m := l.maxInflight.Load()
		if n <= m || l.maxInflight.CompareAndSwap(m, n) {
			return
		}
	}
}

func (l *laboratory) leave() { l.inflight.Add(-1) }

// body returns the (inflated) request body.
func (l *laboratory) body(r *http.Request) ([]byte, error) {
	raw, err := io.ReadAll(r.Body)
	if err != nil {
		return nil, err
	}
	if strings.EqualFold(r.Header.Get("Content-Encoding"), "gzip") {
		zr, err := gzip.NewReader(bytes.NewReader(raw))
		if err != nil {
			return nil, err
		}
		raw, err = io.ReadAll(zr)
		if err != nil {
			return nil, err
		}
		l.capMu.Lock()
		l.gzipSeen++
		l.capMu.Unlock()
	}
	return raw, nil
}

func (l *laboratory) httpFail(w http.ResponseWriter, what string, err error) {
	l.capMu.Lock()
	l.httpErrs = append(l.httpErrs, fmt.Sprintf("%s: %v", what, err))
	l.capMu.Unlock()
	http.Error(w, what, http.StatusBadRequest)
}

func otlpHandler[M proto.Message](l *laboratory, what string, fresh func() M, store func(M)) http.HandlerFunc {
	return func(w http.ResponseWriter, r *http.Request) {
		l.enter()
		defer l.leave()
		b, err := l.body(r)
		if err != nil {
			l.httpFail(w, what+" body", err)
			return
		}
		if ct := r.Header.Get("Content-Type"); ct != "application/x-protobuf" {
			l.httpFail(w, what+" content type", fmt.Errorf("%q", ct))
			return
		}
		m := fresh()
		if err := proto.Unmarshal(b, m); err != nil {
			l.httpFail(w, what+" protobuf", err)
			return
		}
		l.capMu.Lock()
		store(m)
		l.capMu.Unlock()
		w.Header().Set("Content-Type", "application/x-protobuf")
		w.WriteHeader(http.StatusOK)
	}
}

func (l *laboratory) start() error {
	if l.started {
		return nil
	}
	lis, err := net.Listen("tcp", "127.0.0.1:0")
	if err != nil {
		return err
	}
	l.grpcSrv = grpc.NewServer(grpc.MaxRecvMsgSize(64 << 20))
	coltracepb.RegisterTraceServiceServer(l.grpcSrv, &traceSvc{l: l})
	colmetricpb.RegisterMetricsServiceServer(l.grpcSrv, &metricSvc{l: l})
	collogpb.RegisterLogsServiceServer(l.grpcSrv, &logSvc{l: l})
	l.grpcAddr = lis.Addr().String()
	go func() { _ = l.grpcSrv.Serve(lis) }()

	mux := http.NewServeMux()
	mux.HandleFunc("/v1/traces", otlpHandler(l, "traces",
		func() *coltracepb.ExportTraceServiceRequest { return &coltracepb.ExportTraceServiceRequest{} },
		func(m *coltracepb.ExportTraceServiceRequest) { l.traceH = append(l.traceH, m) }))
	mux.HandleFunc("/v1/metrics", otlpHandler(l, "metrics",
		func() *colmetricpb.ExportMetricsServiceRequest { return &colmetricpb.ExportMetricsServiceRequest{} },
		func(m *colmetricpb.ExportMetricsServiceRequest) { l.metricH = append(l.metricH, m) }))
	mux.HandleFunc("/v1/logs", otlpHandler(l, "logs",
		func() *collogpb.ExportLogsServiceRequest { return &collogpb.ExportLogsServiceRequest{} },
		func(m *collogpb.ExportLogsServiceRequest) { l.logH = append(l.logH, m) }))
	mux.HandleFunc("/api/v2/spans", func(w http.ResponseWriter, r *http.Request) {
		b, err := l.body(r)
		if err != nil {
			l.httpFail(w, "zipkin body", err)
			return
		}
		l.capMu.Lock()
		l.zipkinB = append(l.zipkinB, b)
		l.capMu.Unlock()
		w.WriteHeader(http.StatusAccepted)
	})
	l.httpSrv = httptest.NewServer(mux)
	l.httpAddr = strings.TrimPrefix(l.httpSrv.URL, "http://")
	l.started = true
	return nil
}

func (l *laboratory) clearCaptures() {
	l.capMu.Lock()
	l.traceG, l.traceH, l.metricG, l.metricH, l.logG, l.logH, l.zipkinB = nil, nil, nil, nil, nil, nil, nil
	l.gzipSeen = 0
	l.httpErrs = nil
	l.capMu.Unlock()
	l.maxInflight.Store(0)
}

// dropExporters shuts the cached exporters down (they are rebuilt lazily).
func (l *laboratory) dropExporters() {
	ctx, cancel := context.WithTimeout(context.Background(), 5*time.Second)
	defer cancel()
	for _, e := range l.traceExp {
		_ = e.Shutdown(ctx)
	}
	for _, e := range l.metricGE {
		_ = e.Shutdown(ctx)
	}
	for _, e := range l.metricHE {
		_ = e.Shutdown(ctx)
	}
	for _, e := range l.logGE {
		_ = e.Shutdown(ctx)
	}
	for _, e := range l.logHE {
		_ = e.Shutdown(ctx)
	}
	if l.zipkinExp != nil {
		_ = l.zipkinExp.Shutdown(ctx)
	}
	l.traceExp, l.metricGE, l.metricHE, l.logGE, l.logHE, l.zipkinExp = nil, nil, nil, nil, nil, nil
}

func (l *laboratory) stop() {
	l.mu.Lock()
	defer l.mu.Unlock()
	if !l.started {
		return
	}
	l.dropExporters()
	l.grpcSrv.Stop()
	l.httpSrv.Close()
	l.started = false
}

// use runs f with the laboratory started, exclusive, and with empty capture
// buffers. The error is an infrastructure failure (cannot listen).
func (l *laboratory) use(f func()) error {
	l.mu.Lock()
	defer l.mu.Unlock()
	if err := l.start(); err != nil {
		return err
	}
	l.clearCaptures()
	defer func() {
		if p := recover(); p != nil {
			l.dropExporters()
			panic(p)
		}
	}()
	f()
	return nil
}

func (l *laboratory) traceExporter(grpcTransport, gz bool) (*otlptrace.Exporter, error) {
	key := fmt.Sprintf("%v/%v", grpcTransport, gz)
	if e := l.traceExp[key]; e != nil {
		return e, nil
	}
	var e *otlptrace.Exporter
	var err error
	if grpcTransport {
		opts := []otlptracegrpc.Option{otlptracegrpc.WithEndpoint(l.grpcAddr), otlptracegrpc.WithInsecure(), otlptracegrpc.WithTimeout(exportTimeout)}
		if gz {
			opts = append(opts, otlptracegrpc.WithCompressor("gzip"))
		}
		e, err = otlptracegrpc.New(context.Background(), opts...)
	} else {
		opts := []otlptracehttp.Option{otlptracehttp.WithEndpoint(l.httpAddr), otlptracehttp.WithInsecure(), otlptracehttp.WithTimeout(exportTimeout)}
		if gz {
			opts = append(opts, otlptracehttp.WithCompression(otlptracehttp.GzipCompression))
		}
		e, err = otlptracehttp.New(context.Background(), opts...)
	}
	if err != nil {
		return nil, err
	}
	if l.traceExp == nil {
		l.traceExp = map[string]*otlptrace.Exporter{}
	}
	l.traceExp[key] = e
	return e, nil
}

func (l *laboratory) metricGRPC(gz bool) (*otlpmetricgrpc.Exporter, error) {
	if e := l.metricGE[gz]; e != nil {
		return e, nil
	}
	opts := []otlpmetricgrpc.Option{otlpmetricgrpc.WithEndpoint(l.grpcAddr), otlpmetricgrpc.WithInsecure(), otlpmetricgrpc.WithTimeout(exportTimeout)}
	if gz {
		opts = append(opts, otlpmetricgrpc.WithCompressor("gzip"))
	}
	e, err := otlpmetricgrpc.New(context.Background(), opts...)
	if err != nil {
		return nil, err
	}
	if l.metricGE == nil {
		l.metricGE = map[bool]*otlpmetricgrpc.Exporter{}
	}
	l.metricGE[gz] = e
	return e, nil
}

func (l *laboratory) metricHTTP(gz bool) (*otlpmetrichttp.Exporter, error) {
	if e := l.metricHE[gz]; e != nil {
		return e, nil
	}
	opts := []otlpmetrichttp.Option{otlpmetrichttp.WithEndpoint(l.httpAddr), otlpmetrichttp.WithInsecure(), otlpmetrichttp.WithTimeout(exportTimeout)}
	if gz {
		opts = append(opts, otlpmetrichttp.WithCompression(otlpmetrichttp.GzipCompression))
	}
	e, err := otlpmetrichttp.New(context.Background(), opts...)
	if err != nil {
		return nil, err
	}
	if l.metricHE == nil {
		l.metricHE = map[bool]*otlpmetrichttp.Exporter{}
	}
	l.metricHE[gz] = e
	return e, nil
}

func (l *laboratory) logGRPC(gz bool) (*otlploggrpc.Exporter, error) {
	if e := l.logGE[gz]; e != nil {
		return e, nil
	}
	opts := []otlploggrpc.Option{otlploggrpc.WithEndpoint(l.grpcAddr), otlploggrpc.WithInsecure(), otlploggrpc.WithTimeout(exportTimeout)}
	if gz {
		opts = append(opts, otlploggrpc.WithCompressor("gzip"))
	}
	e, err := otlploggrpc.New(context.Background(), opts...)
	if err != nil {
		return nil, err
	}
	if l.logGE == nil {
		l.logGE = map[bool]*otlploggrpc.Exporter{}
	}
	l.logGE[gz] = e
	return e, nil
}

func (l *laboratory) logHTTP(gz bool) (*otlploghttp.Exporter, error) {
	if e := l.logHE[gz]; e != nil {
		return e, nil
	}
	opts := []otlploghttp.Option{otlploghttp.WithEndpoint(l.httpAddr), otlploghttp.WithInsecure(), otlploghttp.WithTimeout(exportTimeout)}
	if gz {
		opts = append(opts, otlploghttp.WithCompression(otlploghttp.GzipCompression))
	}
	e, err := otlploghttp.New(context.Background(), opts...)
	if err != nil {
		return nil, err
	}
	if l.logHE == nil {
		l.logHE = map[bool]*otlploghttp.Exporter{}
	}
	l.logHE[gz] = e
	return e, nil
}

func (l *laboratory) zipkinExporter() (*zipkin.Exporter, error) {
	if l.zipkinExp != nil {
		return l.zipkinExp, nil
	}
	e, err := zipkin.New(l.httpSrv.URL + "/api/v2/spans")
	if err != nil {
		return nil, err
	}
	l.zipkinExp = e
	return e, nil
}

func TestMain(m *testing.M) {
	code := m.Run()
	lab.stop()
	os.Exit(code)
}
