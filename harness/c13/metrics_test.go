package c13

import (
	"context"
	"encoding/hex"
	"fmt"
	"math"
	"sort"
	"strings"
	"testing"

	"go.opentelemetry.io/otel/attribute"
	"go.opentelemetry.io/otel/exporters/otlp/otlpmetric/otlpmetricgrpc"
	"go.opentelemetry.io/otel/exporters/otlp/otlpmetric/otlpmetrichttp"
	"go.opentelemetry.io/otel/sdk/metric/metricdata"
	"go.opentelemetry.io/otel/verif/internal/vk"
	colmetricpb "go.opentelemetry.io/proto/otlp/collector/metrics/v1"
	metricpb "go.opentelemetry.io/proto/otlp/metrics/v1"
	"google.golang.org/protobuf/proto"
	"pgregory.net/rapid"
)

// MetricCase is one metricdata.ResourceMetrics.
type MetricCase struct {
	Res    Res      `json:"res"`
	Scopes []MScope `json:"scopes"`
	Gzip   bool     `json:"gzip,omitempty"`
}

// MScope is one metricdata.ScopeMetrics.
type MScope struct {
	Scope   Scope    `json:"scope"`
	Metrics []Metric `json:"metrics"`
}

// Metric is one metricdata.Metrics. Names are unique within a case.
type Metric struct {
	Name        string  `json:"name"`
	Desc        string  `json:"desc"`
	Unit        string  `json:"unit"`
	Agg         string  `json:"agg"` // gauge sum hist exphist summary
	Float       bool    `json:"float"`
	Temporality int     `json:"temporality"` // 1 cumulative, 2 delta
	Monotonic   bool    `json:"monotonic"`
	Points      []Point `json:"points"`
}

// Point holds the union of the fields of all data point types.
type Point struct {
	Attrs []vk.KV `json:"attrs,omitempty"`
	Start int64   `json:"start"`
	Time  int64   `json:"time"`
	I     int64   `json:"i,omitempty"` // value or sum (int64 flavour)
	F     vk.F64  `json:"f"`           // value or sum (float64 flavour)

	Count        uint64   `json:"count,omitempty"`
	Bounds       []vk.F64 `json:"bounds,omitempty"`
	BucketCounts []uint64 `json:"bucket_counts,omitempty"`
	HasMin       bool     `json:"has_min,omitempty"`
	HasMax       bool     `json:"has_max,omitempty"`
	MinI         int64    `json:"min_i,omitempty"`
	MaxI         int64    `json:"max_i,omitempty"`
	MinF         vk.F64   `json:"min_f"`
	MaxF         vk.F64   `json:"max_f"`

	Scale         int32    `json:"scale,omitempty"`
	ZeroCount     uint64   `json:"zero_count,omitempty"`
	ZeroThreshold vk.F64   `json:"zero_threshold"`
	PosOffset     int32    `json:"pos_offset,omitempty"`
	NegOffset     int32    `json:"neg_offset,omitempty"`
	Pos           []uint64 `json:"pos,omitempty"`
	Neg           []uint64 `json:"neg,omitempty"`

	Quantiles []Quantile `json:"quantiles,omitempty"`
	Exemplars []Exemplar `json:"exemplars,omitempty"`
}

// Quantile is a summary quantile.
type Quantile struct {
	Q vk.F64 `json:"q"`
	V vk.F64 `json:"v"`
}

// Exemplar is an exemplar as data.
type Exemplar struct {
	Attrs   []vk.KV `json:"attrs,omitempty"`
	Time    int64   `json:"time"`
	I       int64   `json:"i,omitempty"`
	F       vk.F64  `json:"f"`
	SpanID  string  `json:"sid,omitempty"` // hex, may be empty
	TraceID string  `json:"tid,omitempty"`
}

func genU64() *rapid.Generator[uint64] {
	return rapid.OneOf(
		rapid.SampledFrom([]uint64{0, 1, 2, math.MaxUint32, math.MaxUint32 + 1, math.MaxInt64, math.MaxInt64 + 1, math.MaxUint64}),
		rapid.Uint64Range(0, 20),
		rapid.Uint64(),
	)
}

func genI32() *rapid.Generator[int32] {
	return rapid.OneOf(
		rapid.SampledFrom([]int32{0, 1, -1, math.MaxInt32, math.MinInt32, 20, -10}),
		rapid.Int32Range(-40, 40),
		rapid.Int32(),
	)
}

func genExemplars(t *rapid.T) []Exemplar {
	n := genSize(t, "nexemplars", []int{0, 0, 0, 1, 2}, 60, 3, 40)
	var out []Exemplar
	for i := 0; i < n; i++ {
		e := Exemplar{
			Attrs: vk.GenKVs(kvOpts(attrKeys), 2, 0).Draw(t, "exattrs"),
			Time:  genTime(true).Draw(t, "extime"),
			I:     vk.GenI64().Draw(t, "exi"),
			F:     vk.GenF64().Draw(t, "exf"),
		}
		if rapid.Bool().Draw(t, "exctx") {
			e.TraceID = genTraceIDHex().Draw(t, "extid")
			e.SpanID = genAnySpanIDHex().Draw(t, "exsid")
		}
		out = append(out, e)
	}
	return out
}

func genPoint(t *rapid.T, agg string, serial int) Point {
	p := Point{
		// the serial keeps the attribute sets of one metric's points distinct
		Attrs: append(vk.GenKVs(kvOpts(attrKeys), 3, 0).Draw(t, "pattrs"), vk.KV{K: "pt", T: "int", I: int64(serial)}),
		Start: genTime(true).Draw(t, "pstart"),
		Time:  genTime(true).Draw(t, "ptime"),
		I:     vk.GenI64().Draw(t, "pi"),
		F:     vk.GenF64().Draw(t, "pf"),
	}
	if rapid.IntRange(0, 5).Draw(t, "noserial") == 0 {
		p.Attrs = p.Attrs[:len(p.Attrs)-1] // possibly an empty set, possibly equal to a sibling's
	}
	switch agg {
	case "gauge", "sum":
		p.Exemplars = genExemplars(t)
	case "hist":
		p.Count = genU64().Draw(t, "count")
		nb := genSize(t, "nbounds", []int{0, 0, 1, 2, 3, 5}, 50, 6, 400)
		for i := 0; i < nb; i++ {
			p.Bounds = append(p.Bounds, vk.GenF64().Draw(t, "bound"))
		}
		nc := nb + 1
		if rapid.IntRange(0, 7).Draw(t, "nobuckets") == 0 {
			nc = 0
		}
		for i := 0; i < nc; i++ {
			p.BucketCounts = append(p.BucketCounts, genU64().Draw(t, "bucket"))
		}
		p.Exemplars = genExemplars(t)
	case "exphist":
		p.Count = genU64().Draw(t, "count")
		p.Scale = genI32().Draw(t, "scale")
		p.ZeroCount = genU64().Draw(t, "zerocount")
		if rapid.IntRange(0, 3).Draw(t, "zerothreshold") == 0 {
			p.ZeroThreshold = vk.GenF64().Draw(t, "zt")
		}
		p.PosOffset = genI32().Draw(t, "posoff")
		p.NegOffset = genI32().Draw(t, "negoff")
		p.Pos = rapid.SliceOfN(genU64(), 0, 4).Draw(t, "pos")
		p.Neg = rapid.SliceOfN(genU64(), 0, 4).Draw(t, "neg")
		if k := genSize(t, "npos", []int{0}, 50, 5, 400); k > 0 {
			p.Pos = rapid.SliceOfN(genU64(), k, k).Draw(t, "widepos")
		}
		if k := genSize(t, "nneg", []int{0}, 50, 5, 400); k > 0 {
			p.Neg = rapid.SliceOfN(genU64(), k, k).Draw(t, "wideneg")
		}
		p.Exemplars = genExemplars(t)
	case "summary":
		p.Count = genU64().Draw(t, "count")
		nq := genSize(t, "nquantiles", []int{0, 1, 2, 3}, 50, 4, 100)
		for i := 0; i < nq; i++ {
			p.Quantiles = append(p.Quantiles, Quantile{Q: vk.GenF64().Draw(t, "q"), V: vk.GenF64().Draw(t, "qv")})
		}
	}
	if agg == "hist" || agg == "exphist" {
		p.HasMin = rapid.Bool().Draw(t, "hasmin")
		p.HasMax = rapid.Bool().Draw(t, "hasmax")
		// always drawn and always different from each other, so that a
		// swap or a presence mix-up is visible
		p.MinI = vk.GenI64().Draw(t, "mini")
		p.MaxI = vk.GenI64().Draw(t, "maxi")
		if p.MaxI == p.MinI {
			p.MaxI = p.MinI ^ 1
		}
		p.MinF = vk.GenF64().Draw(t, "minf")
		p.MaxF = vk.GenF64().Draw(t, "maxf")
		if math.Float64bits(float64(p.MaxF)) == math.Float64bits(float64(p.MinF)) {
			p.MaxF = vk.F64(math.Float64frombits(math.Float64bits(float64(p.MinF)) ^ 1))
		}
	}
	return p
}

func genMetricCase(t *rapid.T) MetricCase {
	c := MetricCase{Gzip: rapid.Bool().Draw(t, "gzip")}
	c.Res = genResources(t, 1)[0]
	if !c.Res.Nil && len(c.Res.Attrs) > 0 && rapid.Bool().Draw(t, "dropsvcidx") {
		c.Res.Attrs = c.Res.Attrs[1:] // svc.idx is only needed to tell several resources apart
	}
	scopes := genScopes(t, 4)
	if rapid.IntRange(0, 9).Draw(t, "noscopes") == 0 {
		scopes = nil
	}
	// 1 case in 6: one or two metrics the OTLP transform documents as errors
	// (undefined temporality, nil or unknown aggregation) sit among the valid
	// ones, at most one per scope.
	invalid := 0
	if rapid.IntRange(0, 5).Draw(t, "withinvalid") == 5 { // 5: shrinking moves away from this class
		invalid = rapid.IntRange(1, 2).Draw(t, "ninvalid")
	}
	serial := 0
	for si, sc := range scopes {
		ms := MScope{Scope: sc}
		nm := genSize(t, "nmetrics", []int{0, 1, 1, 2, 3, 4}, 100, 5, 60)
		for i := 0; i < nm; i++ {
			ms.Metrics = append(ms.Metrics, genMetric(t, serial, ""))
			serial++
		}
		// the last scopes take what is left of the budget
		if invalid > 0 && (len(scopes)-si <= invalid || rapid.Bool().Draw(t, "invalidhere")) {
			bad := genMetric(t, serial, rapid.SampledFrom([]string{"temporality0", "temporality0", "temporality3", "nil", "unknown"}).Draw(t, "invalidkind"))
			serial++
			at := rapid.IntRange(0, len(ms.Metrics)).Draw(t, "invalidpos")
			ms.Metrics = append(ms.Metrics[:at], append([]Metric{bad}, ms.Metrics[at:]...)...)
			invalid--
		}
		c.Scopes = append(c.Scopes, ms)
	}
	return c
}

// genMetric draws one metric; invalid != "" makes it untransformable.
func genMetric(t *rapid.T, serial int, invalid string) Metric {
	m := Metric{
		Name:        fmt.Sprintf("m%d.%s", serial, rapid.SampledFrom([]string{"requests", "latency", "size", "ü"}).Draw(t, "mname")),
		Desc:        genText(4).Draw(t, "mdesc"),
		Unit:        rapid.SampledFrom([]string{"", "1", "ms", "By", "{request}"}).Draw(t, "munit"),
		Agg:         rapid.SampledFrom([]string{"gauge", "sum", "hist", "exphist", "summary"}).Draw(t, "agg"),
		Float:       rapid.Bool().Draw(t, "float"),
		Temporality: rapid.IntRange(1, 2).Draw(t, "temporality"),
		Monotonic:   rapid.Bool().Draw(t, "monotonic"),
	}
	if rapid.IntRange(0, 7).Draw(t, "sharedname") == 0 && serial > 0 {
		// same suffix as others; the serial prefix keeps names unique
		m.Name = fmt.Sprintf("m%d.requests", serial)
	}
	switch invalid {
	case "temporality0", "temporality3":
		m.Agg = rapid.SampledFrom([]string{"sum", "hist", "exphist"}).Draw(t, "invalidagg")
		m.Temporality = map[string]int{"temporality0": 0, "temporality3": 3}[invalid]
	case "nil", "unknown":
		m.Agg = invalid
	}
	if m.Agg == "nil" {
		return m
	}
	np := genSize(t, "npoints", []int{0, 1, 1, 2, 3}, 80, 4, 100)
	pointAgg := m.Agg
	if pointAgg == "unknown" {
		pointAgg = "gauge"
	}
	for j := 0; j < np; j++ {
		m.Points = append(m.Points, genPoint(t, pointAgg, j))
	}
	return m
}

// untransformable: the inputs for which the transform documents an error
// (metricdata.go: "If ms contains invalid metric values, an error will be
// returned along with a slice that contains partial OTLP Metrics";
// Temporality: "If t is unknown, an error is returned"; metric(): unknown
// aggregation). The exporters document "best effort upload of transformable
// metrics".
func (m Metric) untransformable() bool {
	switch m.Agg {
	case "nil", "unknown":
		return true
	case "sum", "hist", "exphist":
		return m.Temporality != 1 && m.Temporality != 2
	}
	return false
}

// unknownAgg satisfies metricdata.Aggregation (through the embedded Gauge)
// but is none of the types the transform knows.
type unknownAgg struct{ metricdata.Gauge[int64] }

func f64s(in []vk.F64) []float64 {
	if in == nil {
		return nil
	}
	out := make([]float64, len(in))
	for i, f := range in {
		out[i] = float64(f)
	}
	return out
}

func exemplarsOf[N int64 | float64](es []Exemplar, val func(Exemplar) N) []metricdata.Exemplar[N] {
	var out []metricdata.Exemplar[N]
	for _, e := range es {
		x := metricdata.Exemplar[N]{FilteredAttributes: vk.ToAttrs(e.Attrs), Time: mkTime(e.Time), Value: val(e)}
		if e.SpanID != "" {
			x.SpanID = unhex(e.SpanID)
		}
		if e.TraceID != "" {
			x.TraceID = unhex(e.TraceID)
		}
		out = append(out, x)
	}
	return out
}

func temporalityOf(n int) metricdata.Temporality {
	switch n {
	case 1:
		return metricdata.CumulativeTemporality
	case 2:
		return metricdata.DeltaTemporality
	}
	return metricdata.Temporality(n) // undefined (0) or out of range
}

func buildAgg[N int64 | float64](m Metric, num func(i int64, f vk.F64) N) metricdata.Aggregation {
	exv := func(e Exemplar) N { return num(e.I, e.F) }
	set := func(p Point) attribute.Set { return attribute.NewSet(vk.ToAttrs(p.Attrs)...) }
	switch m.Agg {
	case "gauge", "sum":
		var dps []metricdata.DataPoint[N]
		for _, p := range m.Points {
			dps = append(dps, metricdata.DataPoint[N]{Attributes: set(p), StartTime: mkTime(p.Start), Time: mkTime(p.Time), Value: num(p.I, p.F), Exemplars: exemplarsOf(p.Exemplars, exv)})
		}
		if m.Agg == "gauge" {
			return metricdata.Gauge[N]{DataPoints: dps}
		}
		return metricdata.Sum[N]{DataPoints: dps, Temporality: temporalityOf(m.Temporality), IsMonotonic: m.Monotonic}
	case "hist":
		var dps []metricdata.HistogramDataPoint[N]
		for _, p := range m.Points {
			dp := metricdata.HistogramDataPoint[N]{Attributes: set(p), StartTime: mkTime(p.Start), Time: mkTime(p.Time), Count: p.Count,
				Bounds: f64s(p.Bounds), BucketCounts: append([]uint64(nil), p.BucketCounts...), Sum: num(p.I, p.F), Exemplars: exemplarsOf(p.Exemplars, exv)}
			if p.HasMin {
				dp.Min = metricdata.NewExtrema(num(p.MinI, p.MinF))
			}
			if p.HasMax {
				dp.Max = metricdata.NewExtrema(num(p.MaxI, p.MaxF))
			}
			dps = append(dps, dp)
		}
		return metricdata.Histogram[N]{DataPoints: dps, Temporality: temporalityOf(m.Temporality)}
	case "exphist":
		var dps []metricdata.ExponentialHistogramDataPoint[N]
		for _, p := range m.Points {
			dp := metricdata.ExponentialHistogramDataPoint[N]{Attributes: set(p), StartTime: mkTime(p.Start), Time: mkTime(p.Time), Count: p.Count,
				Sum: num(p.I, p.F), Scale: p.Scale, ZeroCount: p.ZeroCount, ZeroThreshold: float64(p.ZeroThreshold),
				PositiveBucket: metricdata.ExponentialBucket{Offset: p.PosOffset, Counts: append([]uint64(nil), p.Pos...)},
				NegativeBucket: metricdata.ExponentialBucket{Offset: p.NegOffset, Counts: append([]uint64(nil), p.Neg...)},
				Exemplars:      exemplarsOf(p.Exemplars, exv)}
			if p.HasMin {
				dp.Min = metricdata.NewExtrema(num(p.MinI, p.MinF))
			}
			if p.HasMax {
				dp.Max = metricdata.NewExtrema(num(p.MaxI, p.MaxF))
			}
			dps = append(dps, dp)
		}
		return metricdata.ExponentialHistogram[N]{DataPoints: dps, Temporality: temporalityOf(m.Temporality)}
	}
	panic("harness bug: aggregation " + m.Agg)
}

func (m Metric) build() metricdata.Metrics {
	out := metricdata.Metrics{Name: m.Name, Description: m.Desc, Unit: m.Unit}
	switch {
	case m.Agg == "nil":
		// Data stays nil
	case m.Agg == "unknown":
		g := m
		g.Agg, g.Float = "gauge", false
		out.Data = unknownAgg{g.build().Data.(metricdata.Gauge[int64])}
	case m.Agg == "summary":
		var dps []metricdata.SummaryDataPoint
		for _, p := range m.Points {
			dp := metricdata.SummaryDataPoint{Attributes: attribute.NewSet(vk.ToAttrs(p.Attrs)...), StartTime: mkTime(p.Start), Time: mkTime(p.Time), Count: p.Count, Sum: float64(p.F)}
			for _, q := range p.Quantiles {
				dp.QuantileValues = append(dp.QuantileValues, metricdata.QuantileValue{Quantile: float64(q.Q), Value: float64(q.V)})
			}
			dps = append(dps, dp)
		}
		out.Data = metricdata.Summary{DataPoints: dps}
	case m.Float:
		out.Data = buildAgg(m, func(_ int64, f vk.F64) float64 { return float64(f) })
	default:
		out.Data = buildAgg(m, func(i int64, _ vk.F64) int64 { return i })
	}
	return out
}

func (c MetricCase) build() *metricdata.ResourceMetrics {
	rm := &metricdata.ResourceMetrics{Resource: c.Res.build()}
	for _, s := range c.Scopes {
		sm := metricdata.ScopeMetrics{Scope: s.Scope.build()}
		for _, m := range s.Metrics {
			sm.Metrics = append(sm.Metrics, m.build())
		}
		rm.ScopeMetrics = append(rm.ScopeMetrics, sm)
	}
	return rm
}

// ---------------------------------------------------------------------
// expected model, from the metricdata structures handed to the exporter.
// Number rendering: an int64 value must arrive as an integer, a float64 as a
// double; sum/min/max of histograms are doubles on the wire whatever the
// number type (float64(v) for integers, the data model has no integer sums).

func renderNum[N int64 | float64](v N) string {
	switch x := any(v).(type) {
	case int64:
		return renderInt(x)
	case float64:
		return renderF64(x)
	}
	return "?"
}

func renderOpt[N int64 | float64](e metricdata.Extrema[N]) string {
	if v, ok := e.Value(); ok {
		return renderF64(float64(v))
	}
	return "absent"
}

func renderU64s(xs []uint64) string { return fmt.Sprint(len(xs), xs) }

func timeOf(n int64) string { return fmt.Sprint(unixNanos(n)) }

func wantExemplars[N int64 | float64](es []metricdata.Exemplar[N], src []Exemplar) string {
	var p []string
	for i, e := range es {
		p = append(p, fmt.Sprintf("{attrs=%s time=%s value=%s span_id=%s trace_id=%s}", renderAttrs(e.FilteredAttributes), timeOf(src[i].Time), renderNum(e.Value), hex.EncodeToString(e.SpanID), hex.EncodeToString(e.TraceID)))
	}
	return "[" + strings.Join(p, " ") + "]"
}

// dpFields are the per-point field names, in rendering order.
var dpFields = []string{"attributes", "start_time", "time", "value", "count", "sum", "min", "max", "bounds", "bucket_counts", "scale", "zero_count", "positive", "negative", "quantiles", "exemplars"}

type dp map[string]string

func (d dp) String() string {
	var p []string
	for _, f := range dpFields {
		if v, ok := d[f]; ok {
			p = append(p, f+"="+v)
		}
	}
	return "{" + strings.Join(p, " ") + "}"
}

func wantPoints(m metricdata.Metrics, src Metric) []dp {
	var out []dp
	base := func(i int, attrs attribute.Set) dp {
		return dp{"attributes": renderAttrs(attrs.ToSlice()), "start_time": timeOf(src.Points[i].Start), "time": timeOf(src.Points[i].Time)}
	}
	switch a := m.Data.(type) {
	case metricdata.Gauge[int64]:
		out = wantNumberPoints(a.DataPoints, src, base)
	case metricdata.Gauge[float64]:
		out = wantNumberPoints(a.DataPoints, src, base)
	case metricdata.Sum[int64]:
		out = wantNumberPoints(a.DataPoints, src, base)
	case metricdata.Sum[float64]:
		out = wantNumberPoints(a.DataPoints, src, base)
	case metricdata.Histogram[int64]:
		out = wantHistPoints(a.DataPoints, src, base)
	case metricdata.Histogram[float64]:
		out = wantHistPoints(a.DataPoints, src, base)
	case metricdata.ExponentialHistogram[int64]:
		out = wantExpPoints(a.DataPoints, src, base)
	case metricdata.ExponentialHistogram[float64]:
		out = wantExpPoints(a.DataPoints, src, base)
	case metricdata.Summary:
		for i, p := range a.DataPoints {
			d := base(i, p.Attributes)
			d["count"] = fmt.Sprint(p.Count)
			d["sum"] = renderF64(p.Sum)
			var q []string
			for _, qv := range p.QuantileValues {
				q = append(q, fmt.Sprintf("{q=%s v=%s}", renderF64(qv.Quantile), renderF64(qv.Value)))
			}
			d["quantiles"] = "[" + strings.Join(q, " ") + "]"
			out = append(out, d)
		}
	}
	return out
}

func wantNumberPoints[N int64 | float64](ps []metricdata.DataPoint[N], src Metric, base func(int, attribute.Set) dp) []dp {
	var out []dp
	for i, p := range ps {
		d := base(i, p.Attributes)
		d["value"] = renderNum(p.Value)
		d["exemplars"] = wantExemplars(p.Exemplars, src.Points[i].Exemplars)
		out = append(out, d)
	}
	return out
}

func wantHistPoints[N int64 | float64](ps []metricdata.HistogramDataPoint[N], src Metric, base func(int, attribute.Set) dp) []dp {
	var out []dp
	for i, p := range ps {
		d := base(i, p.Attributes)
		d["count"] = fmt.Sprint(p.Count)
		d["sum"] = renderF64(float64(p.Sum))
		d["min"], d["max"] = renderOpt(p.Min), renderOpt(p.Max)
		var b []string
		for _, x := range p.Bounds {
			b = append(b, renderF64(x))
		}
		d["bounds"] = "[" + strings.Join(b, " ") + "]"
		d["bucket_counts"] = renderU64s(p.BucketCounts)
		d["exemplars"] = wantExemplars(p.Exemplars, src.Points[i].Exemplars)
		out = append(out, d)
	}
	return out
}

func wantExpPoints[N int64 | float64](ps []metricdata.ExponentialHistogramDataPoint[N], src Metric, base func(int, attribute.Set) dp) []dp {
	var out []dp
	for i, p := range ps {
		d := base(i, p.Attributes)
		d["count"] = fmt.Sprint(p.Count)
		d["sum"] = renderF64(float64(p.Sum))
		d["min"], d["max"] = renderOpt(p.Min), renderOpt(p.Max)
		d["scale"] = fmt.Sprint(p.Scale)
		d["zero_count"] = fmt.Sprint(p.ZeroCount)
		d["positive"] = fmt.Sprintf("offset=%d counts=%s", p.PositiveBucket.Offset, renderU64s(p.PositiveBucket.Counts))
		d["negative"] = fmt.Sprintf("offset=%d counts=%s", p.NegativeBucket.Offset, renderU64s(p.NegativeBucket.Counts))
		d["exemplars"] = wantExemplars(p.Exemplars, src.Points[i].Exemplars)
		out = append(out, d)
	}
	return out
}

// metricItem: the points are not part of the item's fields; they are
// compared by comparePoints (as a multiset, with field-level diagnostics).
type metricItem struct {
	item
	points []dp
}

func wantMetrics(c MetricCase, rm *metricdata.ResourceMetrics) []metricItem {
	var out []metricItem
	res := renderResource(rm.Resource)
	for si, sm := range rm.ScopeMetrics {
		scope := renderScope(sm.Scope)
		for mi, m := range sm.Metrics {
			src := c.Scopes[si].Metrics[mi]
			if src.untransformable() {
				continue // must be absent from the payload (an unexpected item otherwise)
			}
			it := metricItem{item: item{key: m.Name}}
			it.add("resource", res)
			it.add("scope", scope)
			it.add("description", "%q", m.Description)
			it.add("unit", "%q", m.Unit)
			kind, temp, mono := src.Agg, "-", "-"
			switch src.Agg {
			case "sum":
				mono = fmt.Sprint(src.Monotonic)
				fallthrough
			case "hist", "exphist":
				temp = []string{"", "cumulative", "delta"}[src.Temporality]
			}
			it.add("data_kind", kind)
			it.add("temporality", temp)
			it.add("monotonic", mono)
			it.points = wantPoints(m, src)
			it.add("point_count", "%d", len(it.points))
			out = append(out, it)
		}
	}
	return out
}

// ---------------------------------------------------------------------
// independent decoder (opentelemetry-proto metrics/v1/metrics.proto)

func pbTemporality(t metricpb.AggregationTemporality) string {
	switch t {
	case metricpb.AggregationTemporality_AGGREGATION_TEMPORALITY_DELTA:
		return "delta"
	case metricpb.AggregationTemporality_AGGREGATION_TEMPORALITY_CUMULATIVE:
		return "cumulative"
	case metricpb.AggregationTemporality_AGGREGATION_TEMPORALITY_UNSPECIFIED:
		return "unspecified"
	}
	return fmt.Sprintf("temporality(%d)", int32(t))
}

func pbExemplars(es []*metricpb.Exemplar) string {
	var p []string
	for _, e := range es {
		val := "absent"
		switch v := e.GetValue().(type) {
		case *metricpb.Exemplar_AsInt:
			val = renderInt(v.AsInt)
		case *metricpb.Exemplar_AsDouble:
			val = renderF64(v.AsDouble)
		}
		p = append(p, fmt.Sprintf("{attrs=%s time=%d value=%s span_id=%s trace_id=%s}", decodeKVs(e.GetFilteredAttributes()), e.GetTimeUnixNano(), val, hex.EncodeToString(e.GetSpanId()), hex.EncodeToString(e.GetTraceId())))
	}
	return "[" + strings.Join(p, " ") + "]"
}

func optF64(p *float64) string {
	if p == nil {
		return "absent"
	}
	return renderF64(*p)
}

func pbBuckets(b *metricpb.ExponentialHistogramDataPoint_Buckets) string {
	return fmt.Sprintf("offset=%d counts=%s", b.GetOffset(), renderU64s(b.GetBucketCounts()))
}

func decodeMetrics(rms []*metricpb.ResourceMetrics) []metricItem {
	var out []metricItem
	for _, rm := range rms {
		res := decodeResource(rm.GetResource(), rm.GetSchemaUrl())
		for _, sm := range rm.GetScopeMetrics() {
			scope := decodeScope(sm.GetScope(), sm.GetSchemaUrl())
			for _, m := range sm.GetMetrics() {
				it := metricItem{item: item{key: m.GetName()}}
				it.add("resource", res)
				it.add("scope", scope)
				it.add("description", "%q", m.GetDescription())
				it.add("unit", "%q", m.GetUnit())
				kind, temp, mono := "none", "-", "-"
				switch d := m.GetData().(type) {
				case *metricpb.Metric_Gauge:
					kind = "gauge"
					it.points = pbNumberPoints(d.Gauge.GetDataPoints())
				case *metricpb.Metric_Sum:
					kind = "sum"
					temp, mono = pbTemporality(d.Sum.GetAggregationTemporality()), fmt.Sprint(d.Sum.GetIsMonotonic())
					it.points = pbNumberPoints(d.Sum.GetDataPoints())
				case *metricpb.Metric_Histogram:
					kind = "hist"
					temp = pbTemporality(d.Histogram.GetAggregationTemporality())
					for _, p := range d.Histogram.GetDataPoints() {
						x := dp{"attributes": decodeKVs(p.GetAttributes()), "start_time": fmt.Sprint(p.GetStartTimeUnixNano()), "time": fmt.Sprint(p.GetTimeUnixNano())}
						x["count"] = fmt.Sprint(p.GetCount())
						x["sum"] = optF64(p.Sum)
						x["min"], x["max"] = optF64(p.Min), optF64(p.Max)
						var b []string
						for _, e := range p.GetExplicitBounds() {
							b = append(b, renderF64(e))
						}
						x["bounds"] = "[" + strings.Join(b, " ") + "]"
						x["bucket_counts"] = renderU64s(p.GetBucketCounts())
						x["exemplars"] = pbExemplars(p.GetExemplars())
						it.points = append(it.points, x)
					}
				case *metricpb.Metric_ExponentialHistogram:
					kind = "exphist"
					temp = pbTemporality(d.ExponentialHistogram.GetAggregationTemporality())
					for _, p := range d.ExponentialHistogram.GetDataPoints() {
						x := dp{"attributes": decodeKVs(p.GetAttributes()), "start_time": fmt.Sprint(p.GetStartTimeUnixNano()), "time": fmt.Sprint(p.GetTimeUnixNano())}
						x["count"] = fmt.Sprint(p.GetCount())
						x["sum"] = optF64(p.Sum)
						x["min"], x["max"] = optF64(p.Min), optF64(p.Max)
						x["scale"] = fmt.Sprint(p.GetScale())
						x["zero_count"] = fmt.Sprint(p.GetZeroCount())
						x["positive"], x["negative"] = pbBuckets(p.GetPositive()), pbBuckets(p.GetNegative())
						x["exemplars"] = pbExemplars(p.GetExemplars())
						it.points = append(it.points, x)
					}
				case *metricpb.Metric_Summary:
					kind = "summary"
					for _, p := range d.Summary.GetDataPoints() {
						x := dp{"attributes": decodeKVs(p.GetAttributes()), "start_time": fmt.Sprint(p.GetStartTimeUnixNano()), "time": fmt.Sprint(p.GetTimeUnixNano())}
						x["count"] = fmt.Sprint(p.GetCount())
						x["sum"] = renderF64(p.GetSum())
						var q []string
						for _, qv := range p.GetQuantileValues() {
							q = append(q, fmt.Sprintf("{q=%s v=%s}", renderF64(qv.GetQuantile()), renderF64(qv.GetValue())))
						}
						x["quantiles"] = "[" + strings.Join(q, " ") + "]"
						it.points = append(it.points, x)
					}
				}
				it.add("data_kind", kind)
				it.add("temporality", temp)
				it.add("monotonic", mono)
				it.add("point_count", "%d", len(it.points))
				out = append(out, it)
			}
		}
	}
	return out
}

func pbNumberPoints(ps []*metricpb.NumberDataPoint) []dp {
	var out []dp
	for _, p := range ps {
		x := dp{"attributes": decodeKVs(p.GetAttributes()), "start_time": fmt.Sprint(p.GetStartTimeUnixNano()), "time": fmt.Sprint(p.GetTimeUnixNano())}
		x["value"] = "absent"
		switch v := p.GetValue().(type) {
		case *metricpb.NumberDataPoint_AsInt:
			x["value"] = renderInt(v.AsInt)
		case *metricpb.NumberDataPoint_AsDouble:
			x["value"] = renderF64(v.AsDouble)
		}
		x["exemplars"] = pbExemplars(p.GetExemplars())
		out = append(out, x)
	}
	return out
}

// comparePoints: the decoded points must be the input points as a multiset.
func comparePoints(prefix, metric string, want, got []dp) []vk.Violation {
	if len(want) != len(got) {
		return nil // reported through the point_count field
	}
	ws, gs := make([]string, len(want)), make([]string, len(got))
	for i := range want {
		ws[i], gs[i] = want[i].String(), got[i].String()
	}
	inOrder := true
	for i := range ws {
		if ws[i] != gs[i] {
			inOrder = false
		}
	}
	if inOrder {
		return nil
	}
	sw, sg := append([]string{}, ws...), append([]string{}, gs...)
	sort.Strings(sw)
	sort.Strings(sg)
	same := true
	for i := range sw {
		if sw[i] != sg[i] {
			same = false
		}
	}
	if same {
		return nil
	}
	// name the first differing field of the first differing point (by position)
	for i := range want {
		if ws[i] == gs[i] {
			continue
		}
		for _, f := range dpFields {
			if want[i][f] != got[i][f] {
				v := vk.V(prefix+"_point_"+f, "%s %s: data point %d: field %s: decoded %s, input %s", prefix, metric, i, f, clip(got[i][f]), clip(want[i][f]))
				v.Observed, v.Expected = clip(got[i][f]), clip(want[i][f])
				return []vk.Violation{v}
			}
		}
	}
	return []vk.Violation{vk.V(prefix+"_points", "%s %s: data points differ", prefix, metric)}
}

func judgeMetrics(prefix string, want []metricItem, req *colmetricpb.ExportMetricsServiceRequest) []vk.Violation {
	rt, err := wire(req, &colmetricpb.ExportMetricsServiceRequest{})
	if err != nil {
		return []vk.Violation{vk.V(prefix+"_wire", "payload does not survive proto.Marshal/Unmarshal: %v", err)}
	}
	got := decodeMetrics(rt.GetResourceMetrics())
	wi, gi := make([]item, len(want)), make([]item, len(got))
	byName := map[string][]dp{}
	for i, g := range got {
		gi[i] = g.item
		byName[g.key] = g.points
	}
	for i, w := range want {
		wi[i] = w.item
	}
	vs := compareItems(prefix, wi, gi)
	for _, w := range want {
		if g, ok := byName[w.key]; ok {
			vs = append(vs, comparePoints(prefix, w.key, w.points, g)...)
		}
	}
	if len(vs) > 8 {
		vs = vs[:8]
	}
	return vs
}

func canonMetrics(req *colmetricpb.ExportMetricsServiceRequest) *colmetricpb.ExportMetricsServiceRequest {
	c := proto.Clone(req).(*colmetricpb.ExportMetricsServiceRequest)
	for _, rm := range c.ResourceMetrics {
		for _, sm := range rm.ScopeMetrics {
			sortByBytes(sm.Metrics)
		}
		sortByBytes(rm.ScopeMetrics)
	}
	sortByBytes(c.ResourceMetrics)
	return c
}

func runMetrics(c MetricCase) ([]vk.Violation, vk.Info) {
	var vs []vk.Violation
	var info vk.Info
	rm := c.build()
	want := wantMetrics(c, rm)
	nInvalid := 0
	for _, sc := range c.Scopes {
		for _, m := range sc.Metrics {
			if m.untransformable() {
				nInvalid++
			}
		}
	}

	err := lab.use(func() {
		ctx := context.Background()
		var reqs [2]*colmetricpb.ExportMetricsServiceRequest
		var sent [2]bool // Export ran and ended as expected
		for ti, name := range []string{"grpc", "http"} {
			// a fresh, equal input for each exporter: neither may depend on
			// what the other did to its argument
			in := c.build()
			var e metricExporter
			var err error
			if ti == 0 {
				var g *otlpmetricgrpc.Exporter
				if g, err = lab.metricGRPC(c.Gzip); err == nil {
					e = g
				}
			} else {
				var h *otlpmetrichttp.Exporter
				if h, err = lab.metricHTTP(c.Gzip); err == nil {
					e = h
				}
			}
			if err == nil {
				err = e.Export(ctx, in)
			}
			switch {
			case e == nil:
				vs = append(vs, vk.V("metric_exporter_new", "%s exporter: %v", name, err))
				continue
			case err != nil && nInvalid == 0:
				vs = append(vs, vk.V("metric_export_error", "%s Export: %v (collector: %v)", name, err, lab.httpErrs))
				continue
			case err == nil && nInvalid > 0:
				// documented: the transform error is returned (after the
				// best-effort upload of the transformable metrics)
				vs = append(vs, vk.V("metric_"+name+"_invalid_not_reported", "%s Export returned nil for a batch with %d untransformable metrics", name, nInvalid))
			}
			sent[ti] = true
			lab.capMu.Lock()
			got := lab.metricH
			if ti == 0 {
				got = lab.metricG
			}
			lab.capMu.Unlock()
			if len(got) == 0 {
				if len(want) > 0 {
					vs = append(vs, vk.V("metric_nothing_received", "%s collector received no request for %d metrics", name, len(want)))
				}
				continue
			}
			req := got[len(got)-1]
			reqs[ti] = req
			vs = append(vs, judgeMetrics("metric_"+name, want, req)...)
		}
		if reqs[0] != nil && reqs[1] != nil {
			a, b := canonMetrics(reqs[0]), canonMetrics(reqs[1])
			if !proto.Equal(a, b) {
				v := vk.V("metric_grpc_http_differ", "the gRPC and the HTTP exporter sent different payloads for the same ResourceMetrics")
				v.Observed, v.Expected = clip(fmt.Sprint(a)), clip(fmt.Sprint(b))
				vs = append(vs, v)
			}
		} else if sent[0] && sent[1] && (reqs[0] == nil) != (reqs[1] == nil) {
			vs = append(vs, vk.V("metric_grpc_http_differ", "for the same ResourceMetrics one exporter sent a request and the other none (grpc sent: %v, http sent: %v)", reqs[0] != nil, reqs[1] != nil))
		}
		info.ClassIf(lab.gzipSeen > 0, "http_gzip_body")
	})
	if err != nil {
		vs = append(vs, vk.V("infrastructure", "cannot start loopback collectors: %v", err))
	}

	// classes
	scopes := map[string]bool{}
	aggs := map[string]bool{}
	nMetrics := 0
	var boundary, emptyScope, emptyScopeMetrics, noPoints, minUnset, minSet, exemplars, nanInf, bigInt bool
	var emptyKeyPoint, emptyKeyExemplar bool
	var maxMetrics, maxPoints, maxBuckets, maxExemplars int
	for _, s := range c.Scopes {
		scopes[fmt.Sprint(s.Scope)] = true
		if s.Scope.empty() {
			emptyScope = true
		}
		if len(s.Metrics) == 0 {
			emptyScopeMetrics = true
		}
		maxMetrics = max(maxMetrics, len(s.Metrics))
		for _, m := range s.Metrics {
			nMetrics++
			maxPoints = max(maxPoints, len(m.Points))
			aggs[fmt.Sprintf("%s/%v", m.Agg, m.Float)] = true
			if len(m.Points) == 0 {
				noPoints = true
			}
			for _, p := range m.Points {
				if extremeTime(normTime(p.Start)) || extremeTime(normTime(p.Time)) {
					boundary = true
				}
				if m.Agg == "hist" || m.Agg == "exphist" {
					if p.HasMin != p.HasMax || !p.HasMin {
						minUnset = true
					}
					if p.HasMin || p.HasMax {
						minSet = true
					}
				}
				if len(p.Exemplars) > 0 {
					exemplars = true
				}
				emptyKeyPoint = emptyKeyPoint || hasEmptyKey(p.Attrs)
				for _, e := range p.Exemplars {
					emptyKeyExemplar = emptyKeyExemplar || hasEmptyKey(e.Attrs)
				}
				maxExemplars = max(maxExemplars, len(p.Exemplars))
				maxBuckets = max(maxBuckets, len(p.BucketCounts), len(p.Pos), len(p.Neg))
				if m.Float || m.Agg == "summary" {
					if f := float64(p.F); math.IsNaN(f) || math.IsInf(f, 0) {
						nanInf, boundary = true, true
					}
				} else if p.I == math.MaxInt64 || p.I == math.MinInt64 || p.I > 1<<53 || p.I < -(1<<53) {
					bigInt, boundary = true, true
				}
				if p.Count >= math.MaxInt64 {
					boundary = true
				}
			}
		}
	}
	info.NonTrivial = len(scopes) >= 2 || boundary || nInvalid > 0
	info.ClassIf(nInvalid > 0, "untransformable_metric_in_batch")
	info.ClassIf(nInvalid > 0 && len(want) > 0, "untransformable_among_valid_metrics")
	info.ClassIf(nInvalid >= 2, "untransformable_in_two_scopes")
	info.ClassIf(len(scopes) >= 2, "scopes>=2")
	info.ClassIf(len(c.Scopes) == 0, "no_scopes")
	info.ClassIf(emptyScope, "empty_scope")
	info.ClassIf(emptyScopeMetrics, "scope_without_metrics")
	info.ClassIf(nMetrics == 0, "no_metrics")
	info.ClassIf(noPoints, "metric_without_points")
	info.ClassIf(c.Res.Nil, "nil_resource")
	info.ClassIf(minUnset, "min_or_max_unset")
	info.ClassIf(minSet, "min_or_max_set")
	info.ClassIf(exemplars, "exemplars")
	info.ClassIf(emptyKeyPoint, "empty_attr_key:data_point")
	info.ClassIf(emptyKeyExemplar, "empty_attr_key:exemplar")
	info.ClassIf(hasEmptyKey(c.Res.Attrs), "empty_attr_key:resource")
	info.ClassIf(maxMetrics > 4, "metrics_per_scope>4")
	info.ClassIf(maxPoints > 3, "points_per_metric>3")
	info.ClassIf(maxPoints > 64, "points_per_metric>64")
	info.ClassIf(maxBuckets > 6, "buckets>6")
	info.ClassIf(maxBuckets > 160, "buckets>160")
	info.ClassIf(maxExemplars > 2, "exemplars_per_point>2")
	info.ClassIf(nanInf, "nan_or_inf_value")
	info.ClassIf(bigInt, "int_beyond_2^53")
	info.ClassIf(c.Gzip, "gzip")
	for a := range aggs {
		info.Class("agg:" + a)
	}
	return vs, info
}

type metricExporter interface {
	Export(context.Context, *metricdata.ResourceMetrics) error
}

func TestMetrics(t *testing.T) {
	vk.Run(t, vk.Spec[MetricCase]{
		Property: "C13", Check: "otlp_metrics_grpc_http",
		Rule: "one ResourceMetrics with 0..4 scopes (empty, siblings differing in one component, without metrics) x 0..4 uniquely named metrics over {Gauge, Sum, Histogram, ExponentialHistogram} x {int64, float64} and Summary, both temporalities, monotonic flag, 0..3 points with exemplars (log-uniformly wider 1 time in 50..100: up to 60 metrics per scope, 100 points, 400 buckets / bounds, 100 quantiles, 40 exemplars), attribute keys of points / exemplars / resource / scope incl. duplicates and the empty key, Min/Max set or unset, boundary integers, NaN/Inf, unset/pre-epoch/2262 times; 1 case in 6 additionally holds 1..2 untransformable metrics (undefined / out-of-range temporality, nil or unknown aggregation) in different scopes, which must be reported as an error by Export and be absent while every valid metric still arrives; exported by otlpmetricgrpc and otlpmetrichttp (gzip on/off) to loopback collectors; " +
			"non-trivial = >= 2 distinct scopes, or >= 1 boundary value (time <= epoch or unset or in the last second of int64 nanos, NaN/Inf, |int| > 2^53, count >= 2^63), or >= 1 untransformable metric",
		Quick: 2000, Thorough: 30000,
		Gen: genMetricCase, Run: runMetrics,
	})
}
