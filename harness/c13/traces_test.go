package c13

import (
	"context"
	"encoding/hex"
	"fmt"
	"math"
	"strings"
	"sync"
	"testing"

	"go.opentelemetry.io/otel/codes"
	"go.opentelemetry.io/otel/exporters/otlp/otlptrace"
	"go.opentelemetry.io/otel/sdk/resource"
	tracesdk "go.opentelemetry.io/otel/sdk/trace"
	"go.opentelemetry.io/otel/sdk/trace/tracetest"
	"go.opentelemetry.io/otel/trace"
	"go.opentelemetry.io/otel/verif/internal/vk"
	coltracepb "go.opentelemetry.io/proto/otlp/collector/trace/v1"
	tracepb "go.opentelemetry.io/proto/otlp/trace/v1"
	"google.golang.org/protobuf/proto"
	"pgregory.net/rapid"
)

// TraceCase is one batch of spans.
type TraceCase struct {
	Res    []Res   `json:"res"`
	Scopes []Scope `json:"scopes"`
	Spans  []Span  `json:"spans"`
	Gzip   bool    `json:"gzip,omitempty"` // network sub-checks only
}

// Span is a tracetest.SpanStub as data.
type Span struct {
	Res        int     `json:"res"`
	Scope      int     `json:"scope"`
	TraceID    string  `json:"tid"`
	SpanID     string  `json:"sid"`
	Sampled    bool    `json:"sampled,omitempty"`
	TraceState string  `json:"tracestate,omitempty"`
	Parent     SC      `json:"parent"`
	Name       string  `json:"name"`
	Kind       int     `json:"kind"`
	Start      int64   `json:"start"`
	End        int64   `json:"end"`
	Attrs      []vk.KV `json:"attrs,omitempty"`
	Events     []Event `json:"events,omitempty"`
	Links      []Link  `json:"links,omitempty"`
	Status     int     `json:"status"` // codes.Code: 0 unset, 1 error, 2 ok
	StatusMsg  string  `json:"status_msg,omitempty"`
	DroppedA   int64   `json:"dropped_attrs,omitempty"`
	DroppedE   int64   `json:"dropped_events,omitempty"`
	DroppedL   int64   `json:"dropped_links,omitempty"`
	Children   int     `json:"children,omitempty"`
}

// Event is a span event as data.
type Event struct {
	Name    string  `json:"name"`
	Time    int64   `json:"time"`
	Attrs   []vk.KV `json:"attrs,omitempty"`
	Dropped int64   `json:"dropped,omitempty"`
}

// SC is a foreign trace.SpanContext (a parent or a link target) as data. Any
// combination of its parts may be present: both IDs (valid), only the span
// ID, only the trace ID, none; each with or without the sampled flag, the
// remote mark and a tracestate.
type SC struct {
	TraceID    string `json:"tid,omitempty"` // hex; "" = all zero
	SpanID     string `json:"sid,omitempty"` // hex; "" = all zero
	Sampled    bool   `json:"sampled,omitempty"`
	Remote     bool   `json:"remote,omitempty"`
	TraceState string `json:"tracestate,omitempty"`
}

func (c SC) build() trace.SpanContext {
	return mkSpanContext(c.TraceID, c.SpanID, c.Sampled, c.Remote, c.TraceState)
}

// shape names the ID combination.
func (c SC) shape() string {
	switch {
	case c.TraceID != "" && c.SpanID != "":
		return "both_ids"
	case c.SpanID != "":
		return "span_id_only"
	case c.TraceID != "":
		return "trace_id_only"
	}
	return "no_ids"
}

// genSC draws a foreign span context. ownTID is the trace ID of the span it
// belongs to (parents normally share it), sids are span IDs of earlier spans
// of the batch. noneWeight biases towards the completely empty context.
func genSC(t *rapid.T, ownTID string, sids []string, noneWeight int) SC {
	var c SC
	shapes := []string{"both", "both", "both", "span_id_only", "trace_id_only"}
	for i := 0; i < noneWeight; i++ {
		shapes = append(shapes, "none")
	}
	shape := rapid.SampledFrom(shapes).Draw(t, "scshape")
	if shape == "both" || shape == "trace_id_only" {
		if ownTID != "" && rapid.IntRange(0, 3).Draw(t, "sctidown") > 0 {
			c.TraceID = ownTID
		} else {
			c.TraceID = genTraceIDHex().Draw(t, "sctid")
		}
	}
	if shape == "both" || shape == "span_id_only" {
		if len(sids) > 0 && rapid.Bool().Draw(t, "scsidinbatch") {
			c.SpanID = rapid.SampledFrom(sids).Draw(t, "scsidpick")
		} else {
			c.SpanID = genAnySpanIDHex().Draw(t, "scsid")
		}
	}
	// flags, remote mark and tracestate are independent of the IDs
	c.Sampled = rapid.Bool().Draw(t, "scsampled")
	c.Remote = rapid.Bool().Draw(t, "scremote")
	if rapid.IntRange(0, 3).Draw(t, "sctracestate") == 0 {
		c.TraceState = rapid.SampledFrom([]string{"lk=lv", "vendor=x1,k2=v2"}).Draw(t, "sctsval")
	}
	return c
}

// Link is a span link as data.
type Link struct {
	SC
	Attrs   []vk.KV `json:"attrs,omitempty"`
	Dropped int64   `json:"dropped,omitempty"`
}

// traceDomain restricts the generator to what a given exporter's data model
// can hold.
type traceDomain struct {
	maxSpans int
	// wide > 0: 1 batch in wide has 8..wideSpans spans; in 1 batch in 25 every span has, per list, a 1 in 5 chance of
	// many (up to 160) attributes / events / links (log-uniform sizes).
	wide      int
	wideSpans int
	zipkin    bool // times >= 1 s after the epoch and well below 2262, End >= Start
}

func genTimeFor(d traceDomain) *rapid.Generator[int64] {
	if !d.zipkin {
		return genTime(false)
	}
	return rapid.Custom(func(t *rapid.T) int64 {
		switch rapid.IntRange(0, 5).Draw(t, "ztkind") {
		case 0:
			return rapid.SampledFrom([]int64{1_000_000_000, 1_000_000_001, 1_000_000_499, 1_000_000_500, 1_000_000_999, zipkinMaxTime, zipkinMaxTime - 501}).Draw(t, "ztcorner")
		case 1:
			return rapid.Int64Range(1_000_000_000, zipkinMaxTime).Draw(t, "ztany")
		default:
			return typicalNow + rapid.Int64Range(-3_600_000_000_000, 3_600_000_000_000).Draw(t, "ztnow")
		}
	})
}

// zipkinMaxTime keeps the rounding to microseconds inside int64 nanoseconds.
const zipkinMaxTime = math.MaxInt64 - 1_000_000

func genTraceCase(d traceDomain) func(*rapid.T) TraceCase {
	return func(t *rapid.T) TraceCase {
		c := TraceCase{Gzip: rapid.Bool().Draw(t, "gzip")}
		c.Res = genResources(t, 4)
		c.Scopes = genScopes(t, 4)
		n := 0
		switch rapid.IntRange(0, 9).Draw(t, "batchsize") {
		case 0:
			n = rapid.SampledFrom([]int{0, 1}).Draw(t, "tiny")
		case 1, 2:
			n = rapid.IntRange(7, d.maxSpans).Draw(t, "large")
		default:
			n = rapid.IntRange(2, 6).Draw(t, "small")
		}
		if d.wide > 0 {
			n = genSize(t, "batch", []int{n}, d.wide, 8, d.wideSpans)
		}
		// 1 batch in 25 is a "long lists" batch: each of its spans has, per
		// list, a 1 in 5 chance of a log-uniformly long list (up to 160)
		listWide := 0
		if d.wide > 0 && n <= 30 && rapid.IntRange(0, 24).Draw(t, "longlists") == 24 {
			listWide = 5
		}
		tm := genTimeFor(d)
		attrs := vk.GenKVs(kvOpts(attrKeys), 5, 0, 1)
		fewAttrs := vk.GenKVs(kvOpts(attrKeys), 2, 0)
		tids := rapid.SliceOfN(genTraceIDHex(), 1, 3).Draw(t, "traceids")
		for i := 0; i < n; i++ {
			s := Span{
				Res:     rapid.IntRange(0, len(c.Res)-1).Draw(t, "res"),
				Scope:   rapid.IntRange(0, len(c.Scopes)-1).Draw(t, "scope"),
				TraceID: rapid.SampledFrom(tids).Draw(t, "tid"),
				SpanID:  spanIDHex(i, rapid.SliceOfN(rapid.Byte(), 6, 6).Draw(t, "sidrnd")),
				Sampled: rapid.Bool().Draw(t, "sampled"),
				Name:    genText(5).Draw(t, "name"),
				Kind:    rapid.IntRange(0, 5).Draw(t, "kind"),
				Status:  rapid.IntRange(0, 2).Draw(t, "status"),
				Attrs:   attrs.Draw(t, "attrs"),
			}
			if rapid.IntRange(0, 5).Draw(t, "hastracestate") == 0 {
				s.TraceState = "vendor=x1,k2=v2"
			}
			var earlier []string
			for _, e := range c.Spans {
				earlier = append(earlier, e.SpanID)
			}
			s.Parent = genSC(t, s.TraceID, earlier, 3)
			s.Start = tm.Draw(t, "start")
			if d.zipkin {
				switch rapid.IntRange(0, 3).Draw(t, "zdur") {
				case 0:
					s.End = s.Start + rapid.SampledFrom([]int64{0, 1, 499, 500, 501, 999, 1000, 1001, 1499, 1500, 2500}).Draw(t, "zdurcorner")
				case 1:
					s.End = rapid.Int64Range(s.Start, zipkinMaxTime).Draw(t, "zend")
				default:
					s.End = s.Start + rapid.Int64Range(0, 5_000_000_000).Draw(t, "zdurtyp")
				}
				if s.End > zipkinMaxTime || s.End < s.Start {
					s.End = s.Start
				}
			} else {
				switch rapid.IntRange(0, 3).Draw(t, "endkind") {
				case 0:
					s.End = tm.Draw(t, "end") // unrelated, possibly before the start
				default:
					dur := rapid.Int64Range(0, 5_000_000_000).Draw(t, "dur")
					if s.Start > math.MaxInt64-dur {
						dur = math.MaxInt64 - s.Start
					}
					s.End = s.Start + dur
				}
			}
			if s.Status != 0 || rapid.IntRange(0, 3).Draw(t, "msgwithoutstatus") == 0 {
				s.StatusMsg = genText(4).Draw(t, "statusmsg")
			}
			if k := genSize(t, "nattrs", []int{0}, listWide, 6, 160); k > 0 {
				s.Attrs = genKVsN(t, kvOpts(attrKeys), k, "wideattr")
			}
			ne := genSize(t, "nevents", []int{0, 0, 1, 2, 3}, listWide, 4, 160)
			for j := 0; j < ne; j++ {
				s.Events = append(s.Events, Event{
					Name:    genText(3).Draw(t, "ename"),
					Time:    tm.Draw(t, "etime"),
					Attrs:   fewAttrs.Draw(t, "eattrs"),
					Dropped: genCount().Draw(t, "edropped"),
				})
			}
			nl := genSize(t, "nlinks", []int{0, 0, 1, 2, 3}, listWide, 4, 160)
			for j := 0; j < nl; j++ {
				s.Links = append(s.Links, Link{
					SC:      genSC(t, "", earlier, 1),
					Attrs:   fewAttrs.Draw(t, "lattrs"),
					Dropped: genCount().Draw(t, "ldropped"),
				})
			}
			s.DroppedA = genCount().Draw(t, "droppedattrs")
			// dropped events and links differ most of the time so that a swap shows
			s.DroppedE = genCount().Draw(t, "droppedevents")
			s.DroppedL = genCount().Draw(t, "droppedlinks")
			s.Children = rapid.IntRange(0, 3).Draw(t, "children")
			c.Spans = append(c.Spans, s)
		}
		return c
	}
}

func mkSpanContext(tid, sid string, sampled, remote bool, tracestate string) trace.SpanContext {
	cfg := trace.SpanContextConfig{Remote: remote}
	if tid != "" {
		copy(cfg.TraceID[:], unhex(tid))
	}
	if sid != "" {
		copy(cfg.SpanID[:], unhex(sid))
	}
	if sampled {
		cfg.TraceFlags = trace.FlagsSampled
	}
	if tracestate != "" {
		ts, err := trace.ParseTraceState(tracestate)
		if err != nil {
			panic("harness bug: tracestate " + err.Error())
		}
		cfg.TraceState = ts
	}
	return trace.NewSpanContext(cfg)
}

// stubs builds the SDK objects of the case. Spans with an even index share
// one *resource.Resource per resource index, spans with an odd index get a
// fresh, equal resource object (grouping must go by content, not by pointer).
func (c TraceCase) stubs() tracetest.SpanStubs {
	shared := make([]*resource.Resource, len(c.Res))
	for i, r := range c.Res {
		shared[i] = r.build()
	}
	out := make(tracetest.SpanStubs, 0, len(c.Spans))
	for i, s := range c.Spans {
		res := shared[s.Res]
		if i%2 == 1 {
			res = c.Res[s.Res].build()
		}
		sc := c.Scopes[s.Scope].build()
		st := tracetest.SpanStub{
			Name:              s.Name,
			SpanContext:       mkSpanContext(s.TraceID, s.SpanID, s.Sampled, false, s.TraceState),
			SpanKind:          trace.SpanKind(s.Kind),
			StartTime:         mkTime(s.Start),
			EndTime:           mkTime(s.End),
			Attributes:        vk.ToAttrs(s.Attrs),
			Status:            tracesdk.Status{Code: codes.Code(s.Status), Description: s.StatusMsg},
			DroppedAttributes: int(s.DroppedA),
			DroppedEvents:     int(s.DroppedE),
			DroppedLinks:      int(s.DroppedL),
			ChildSpanCount:    s.Children,
			Resource:          res,
			// both fields: Snapshot() falls back to the library field when
			// name, version and schema URL of the scope are all empty.
			InstrumentationScope:   sc,
			InstrumentationLibrary: sc,
		}
		st.Parent = s.Parent.build()
		for _, e := range s.Events {
			st.Events = append(st.Events, tracesdk.Event{Name: e.Name, Time: mkTime(e.Time), Attributes: vk.ToAttrs(e.Attrs), DroppedAttributeCount: int(e.Dropped)})
		}
		for _, l := range s.Links {
			st.Links = append(st.Links, tracesdk.Link{SpanContext: l.SC.build(), Attributes: vk.ToAttrs(l.Attrs), DroppedAttributeCount: int(l.Dropped)})
		}
		out = append(out, st)
	}
	return out
}

// ---------------------------------------------------------------------
// expected model, from the ReadOnlySpan the exporter is given

var kindNames = map[trace.SpanKind]string{
	trace.SpanKindUnspecified: "unspecified", trace.SpanKindInternal: "internal", trace.SpanKindServer: "server",
	trace.SpanKindClient: "client", trace.SpanKindProducer: "producer", trace.SpanKindConsumer: "consumer",
}

var codeNames = map[codes.Code]string{codes.Unset: "unset", codes.Error: "error", codes.Ok: "ok"}

func unixNanos(c int64) uint64 { return wantNanos(normTime(c)) }

// normTime maps the zero-time marker to "before the epoch".
func normTime(c int64) int64 {
	if c == zeroTime {
		return -1
	}
	return c
}

func wantSpan(ro tracesdk.ReadOnlySpan, s Span) item {
	sid := ro.SpanContext().SpanID()
	tid := ro.SpanContext().TraceID()
	it := item{key: hex.EncodeToString(sid[:])}
	it.add("resource", renderResource(ro.Resource()))
	it.add("scope", renderScope(ro.InstrumentationScope()))
	it.add("trace_id", hex.EncodeToString(tid[:]))
	psid := ro.Parent().SpanID()
	if psid.IsValid() {
		it.add("parent_span_id", hex.EncodeToString(psid[:]))
	} else {
		it.add("parent_span_id", "")
	}
	it.add("parent_remote", "%v", ro.Parent().IsRemote())
	it.loose = map[string][]string{"parent_remote": {"unknown"}}
	it.add("name", "%q", ro.Name())
	it.add("kind", kindNames[ro.SpanKind()])
	// the times come from the case (ro.StartTime().UnixNano() is the same
	// number by construction of time.Unix(0, n))
	it.add("start_time", "%d", unixNanos(s.Start))
	it.add("end_time", "%d", unixNanos(s.End))
	it.add("attributes", renderAttrs(ro.Attributes()))
	it.add("dropped_attributes", "%d", wantCount(int64(ro.DroppedAttributes())))
	var ev []string
	for i, e := range ro.Events() {
		ev = append(ev, fmt.Sprintf("{name=%q time=%d attrs=%s dropped=%d}", e.Name, unixNanos(s.Events[i].Time), renderAttrs(e.Attributes), wantCount(int64(e.DroppedAttributeCount))))
	}
	it.add("events", "["+strings.Join(ev, " ")+"]")
	it.add("dropped_events", "%d", wantCount(int64(ro.DroppedEvents())))
	var ln, lnUnknown []string
	for _, l := range ro.Links() {
		ltid, lsid := l.SpanContext.TraceID(), l.SpanContext.SpanID()
		f := fmt.Sprintf("{trace_id=%s span_id=%s attrs=%s dropped=%d remote=", zeroIsAbsent(ltid[:]), zeroIsAbsent(lsid[:]), renderAttrs(l.Attributes), wantCount(int64(l.DroppedAttributeCount)))
		ln = append(ln, f+fmt.Sprint(l.SpanContext.IsRemote())+"}")
		lnUnknown = append(lnUnknown, f+"unknown}")
	}
	it.add("links", "["+strings.Join(ln, " ")+"]")
	it.loose["links"] = []string{"[" + strings.Join(lnUnknown, " ") + "]"}
	it.add("dropped_links", "%d", wantCount(int64(ro.DroppedLinks())))
	it.add("status_code", codeNames[ro.Status().Code])
	if ro.Status().Code == codes.Error {
		it.add("status_message", "%q", ro.Status().Description)
	} else {
		it.add("status_message", "-")
	}
	return it
}

// ---------------------------------------------------------------------
// independent decoder (opentelemetry-proto trace/v1/trace.proto)

func pbKind(k tracepb.Span_SpanKind) string {
	switch k {
	case tracepb.Span_SPAN_KIND_UNSPECIFIED:
		return "unspecified"
	case tracepb.Span_SPAN_KIND_INTERNAL:
		return "internal"
	case tracepb.Span_SPAN_KIND_SERVER:
		return "server"
	case tracepb.Span_SPAN_KIND_CLIENT:
		return "client"
	case tracepb.Span_SPAN_KIND_PRODUCER:
		return "producer"
	case tracepb.Span_SPAN_KIND_CONSUMER:
		return "consumer"
	}
	return fmt.Sprintf("kind(%d)", int32(k))
}

func pbStatus(c tracepb.Status_StatusCode) string {
	switch c {
	case tracepb.Status_STATUS_CODE_UNSET:
		return "unset"
	case tracepb.Status_STATUS_CODE_OK:
		return "ok"
	case tracepb.Status_STATUS_CODE_ERROR:
		return "error"
	}
	return fmt.Sprintf("status(%d)", int32(c))
}

// pbRemote reads bits 8 and 9 of the flags field: "has is_remote" and
// "is_remote".
func pbRemote(flags uint32) string {
	if flags&0x100 == 0 {
		return "unknown"
	}
	return fmt.Sprint(flags&0x200 != 0)
}

func decodeSpans(rss []*tracepb.ResourceSpans) []item {
	var out []item
	for _, rs := range rss {
		res := decodeResource(rs.GetResource(), rs.GetSchemaUrl())
		for _, ss := range rs.GetScopeSpans() {
			scope := decodeScope(ss.GetScope(), ss.GetSchemaUrl())
			for _, sp := range ss.GetSpans() {
				it := item{key: hex.EncodeToString(sp.GetSpanId())}
				it.add("resource", res)
				it.add("scope", scope)
				it.add("trace_id", hex.EncodeToString(sp.GetTraceId()))
				it.add("parent_span_id", zeroIsAbsent(sp.GetParentSpanId())) // an all-zero ID is invalid = no parent
				it.add("parent_remote", pbRemote(sp.GetFlags()))
				it.add("name", "%q", sp.GetName())
				it.add("kind", pbKind(sp.GetKind()))
				it.add("start_time", "%d", sp.GetStartTimeUnixNano())
				it.add("end_time", "%d", sp.GetEndTimeUnixNano())
				it.add("attributes", decodeKVs(sp.GetAttributes()))
				it.add("dropped_attributes", "%d", sp.GetDroppedAttributesCount())
				var ev []string
				for _, e := range sp.GetEvents() {
					ev = append(ev, fmt.Sprintf("{name=%q time=%d attrs=%s dropped=%d}", e.GetName(), e.GetTimeUnixNano(), decodeKVs(e.GetAttributes()), e.GetDroppedAttributesCount()))
				}
				it.add("events", "["+strings.Join(ev, " ")+"]")
				it.add("dropped_events", "%d", sp.GetDroppedEventsCount())
				var ln []string
				for _, l := range sp.GetLinks() {
					ln = append(ln, fmt.Sprintf("{trace_id=%s span_id=%s attrs=%s dropped=%d remote=%s}", zeroIsAbsent(l.GetTraceId()), zeroIsAbsent(l.GetSpanId()), decodeKVs(l.GetAttributes()), l.GetDroppedAttributesCount(), pbRemote(l.GetFlags())))
				}
				it.add("links", "["+strings.Join(ln, " ")+"]")
				it.add("dropped_links", "%d", sp.GetDroppedLinksCount())
				it.add("status_code", pbStatus(sp.GetStatus().GetCode()))
				if sp.GetStatus().GetCode() == tracepb.Status_STATUS_CODE_ERROR {
					it.add("status_message", "%q", sp.GetStatus().GetMessage())
				} else {
					it.add("status_message", "-")
				}
				out = append(out, it)
			}
		}
	}
	return out
}

// canonTraces sorts a request bottom-up so that two payloads with the same
// content compare equal whatever the grouping order was.
func canonTraces(req *coltracepb.ExportTraceServiceRequest) *coltracepb.ExportTraceServiceRequest {
	c := proto.Clone(req).(*coltracepb.ExportTraceServiceRequest)
	for _, rs := range c.ResourceSpans {
		for _, ss := range rs.ScopeSpans {
			sortByBytes(ss.Spans)
		}
		sortByBytes(rs.ScopeSpans)
	}
	sortByBytes(c.ResourceSpans)
	return c
}

// ---------------------------------------------------------------------
// recording client (fast path)

type recordingClient struct {
	mu      sync.Mutex
	uploads [][]*tracepb.ResourceSpans
}

func (r *recordingClient) Start(context.Context) error { return nil }
func (r *recordingClient) Stop(context.Context) error  { return nil }
func (r *recordingClient) UploadTraces(_ context.Context, rs []*tracepb.ResourceSpans) error {
	r.mu.Lock()
	r.uploads = append(r.uploads, rs)
	r.mu.Unlock()
	return nil
}

// judgeTraces compares one captured payload (already on our side of the
// wire) with the input.
func judgeTraces(prefix string, want []item, req *coltracepb.ExportTraceServiceRequest) []vk.Violation {
	rt, err := wire(req, &coltracepb.ExportTraceServiceRequest{})
	if err != nil {
		return []vk.Violation{vk.V(prefix+"_wire", "payload does not survive proto.Marshal/Unmarshal: %v", err)}
	}
	return compareItems(prefix, want, decodeSpans(rt.GetResourceSpans()))
}

func traceInfo(c TraceCase) vk.Info {
	var info vk.Info
	resUsed, scopeUsed := map[int]bool{}, map[string]bool{}
	scopeRes := map[int]map[int]bool{}
	boundary := false
	kinds, statuses := map[int]bool{}, map[int]bool{}
	parents, linkShapes := map[string]bool{}, map[string]bool{}
	var parentRemote, parentNoIDsFlagged, parentTracestate, parentOtherTrace bool
	var preEpoch, y2262, bigDrop, negDrop, linkRemote, linkLocal, emptyScope, nilRes, inBatchParent, events, links bool
	sids := map[string]bool{}
	for _, s := range c.Spans {
		sids[s.SpanID] = true
	}
	var emptyKeySpan, emptyKeyEvent, emptyKeyLink, dupKey bool
	var maxAttrs, maxEvents, maxLinks int
	for _, s := range c.Spans {
		maxAttrs, maxEvents, maxLinks = max(maxAttrs, len(s.Attrs)), max(maxEvents, len(s.Events)), max(maxLinks, len(s.Links))
		emptyKeySpan = emptyKeySpan || hasEmptyKey(s.Attrs)
		dupKey = dupKey || hasDupKey(s.Attrs)
		for _, e := range s.Events {
			emptyKeyEvent = emptyKeyEvent || hasEmptyKey(e.Attrs)
			dupKey = dupKey || hasDupKey(e.Attrs)
		}
		for _, l := range s.Links {
			emptyKeyLink = emptyKeyLink || hasEmptyKey(l.Attrs)
			dupKey = dupKey || hasDupKey(l.Attrs)
		}
		resUsed[s.Res] = true
		scopeUsed[fmt.Sprint(c.Scopes[s.Scope])] = true
		if scopeRes[s.Scope] == nil {
			scopeRes[s.Scope] = map[int]bool{}
		}
		scopeRes[s.Scope][s.Res] = true
		kinds[s.Kind], statuses[s.Status], parents[s.Parent.shape()] = true, true, true
		if s.Parent.Remote && s.Parent.SpanID != "" {
			parentRemote = true
		}
		if s.Parent.shape() == "no_ids" && (s.Parent.Remote || s.Parent.Sampled || s.Parent.TraceState != "") {
			parentNoIDsFlagged = true
		}
		if s.Parent.TraceState != "" {
			parentTracestate = true
		}
		if s.Parent.TraceID != "" && s.Parent.TraceID != s.TraceID {
			parentOtherTrace = true
		}
		times := []int64{s.Start, s.End}
		counts := []int64{s.DroppedA, s.DroppedE, s.DroppedL}
		for _, e := range s.Events {
			times = append(times, e.Time)
			counts = append(counts, e.Dropped)
			events = true
		}
		for _, l := range s.Links {
			counts = append(counts, l.Dropped)
			links = true
			linkShapes[l.shape()] = true
			if l.Remote {
				linkRemote = true
			} else {
				linkLocal = true
			}
		}
		for _, tm := range times {
			if extremeTime(tm) {
				boundary = true
			}
			if tm < 0 {
				preEpoch = true
			}
			if tm >= math.MaxInt64-1_000_000_000 {
				y2262 = true
			}
		}
		for _, n := range counts {
			if boundaryCount(n) {
				boundary = true
			}
			if n > math.MaxUint32 {
				bigDrop = true
			}
			if n < 0 {
				negDrop = true
			}
		}
		if c.Scopes[s.Scope].empty() {
			emptyScope = true
		}
		if c.Res[s.Res].Nil {
			nilRes = true
		}
		if s.Parent.SpanID != "" && sids[s.Parent.SpanID] {
			inBatchParent = true
		}
	}
	sharedScope := false
	for _, rs := range scopeRes {
		if len(rs) > 1 {
			sharedScope = true
		}
	}
	info.NonTrivial = len(resUsed) >= 2 || len(scopeUsed) >= 2 || boundary
	info.ClassIf(len(c.Spans) == 0, "empty_batch")
	info.ClassIf(len(c.Spans) == 1, "one_span")
	info.ClassIf(len(c.Spans) >= 7, "batch>=7")
	info.ClassIf(len(c.Spans) > 30, "batch>30")
	info.ClassIf(len(c.Spans) >= 512, "batch>=512")
	info.ClassIf(maxAttrs > 128, "span_attrs>128")
	info.ClassIf(maxEvents > 128, "span_events>128")
	info.ClassIf(maxLinks > 128, "span_links>128")
	info.ClassIf(maxAttrs > 8 || maxEvents > 8 || maxLinks > 8, "span_list>8")
	info.ClassIf(len(resUsed) >= 2, "resources>=2")
	info.ClassIf(len(scopeUsed) >= 2, "scopes>=2")
	info.ClassIf(len(resUsed) >= 2 && len(scopeUsed) >= 2, "resources>=2_and_scopes>=2")
	info.ClassIf(sharedScope, "scope_shared_by_resources")
	info.ClassIf(emptyScope, "empty_scope")
	info.ClassIf(nilRes, "nil_resource")
	info.ClassIf(preEpoch, "time_before_epoch")
	info.ClassIf(y2262, "time_year_2262")
	info.ClassIf(bigDrop, "dropped_count>MaxUint32")
	info.ClassIf(negDrop, "dropped_count<0")
	info.ClassIf(len(kinds) == 6, "all_six_kinds_in_batch")
	info.ClassIf(len(statuses) == 3, "all_status_codes_in_batch")
	for sh := range parents {
		info.Class("parent:" + sh)
	}
	for sh := range linkShapes {
		info.Class("link:" + sh)
	}
	info.ClassIf(parentRemote, "parent_remote")
	info.ClassIf(parentNoIDsFlagged, "parent_no_ids_but_flags_remote_or_tracestate")
	info.ClassIf(parentTracestate, "parent_with_tracestate")
	info.ClassIf(parentOtherTrace, "parent_trace_id_differs_from_span")
	info.ClassIf(inBatchParent, "parent_in_batch")
	info.ClassIf(events, "events")
	info.ClassIf(links, "links")
	info.ClassIf(linkRemote && linkLocal, "links_remote_and_local")
	info.ClassIf(emptyKeySpan, "empty_attr_key:span")
	info.ClassIf(emptyKeyEvent, "empty_attr_key:event")
	info.ClassIf(emptyKeyLink, "empty_attr_key:link")
	info.ClassIf(dupKey, "duplicate_attr_key_in_one_list")
	return info
}

func runTraceFast(c TraceCase) ([]vk.Violation, vk.Info) {
	var vs []vk.Violation
	stubs := c.stubs()
	ros := stubs.Snapshots()
	var want []item
	for i, ro := range ros {
		want = append(want, wantSpan(ro, c.Spans[i]))
	}
	rec := &recordingClient{}
	ctx := context.Background()
	exp, err := otlptrace.New(ctx, rec)
	if err != nil {
		return []vk.Violation{vk.V("trace_exporter_new", "otlptrace.New: %v", err)}, vk.Info{}
	}
	if err := exp.ExportSpans(ctx, ros); err != nil {
		vs = append(vs, vk.V("trace_export_error", "ExportSpans: %v", err))
	}
	if err := exp.Shutdown(ctx); err != nil {
		vs = append(vs, vk.V("trace_shutdown_error", "Shutdown: %v", err))
	}
	req := &coltracepb.ExportTraceServiceRequest{}
	for _, u := range rec.uploads {
		req.ResourceSpans = append(req.ResourceSpans, u...)
	}
	vs = append(vs, judgeTraces("span", want, req)...)
	info := traceInfo(c)
	info.ClassIf(len(rec.uploads) == 0, "no_upload")
	return vs, info
}

func runTraceWire(c TraceCase) ([]vk.Violation, vk.Info) {
	var vs []vk.Violation
	stubs := c.stubs()
	ros := stubs.Snapshots()
	var want []item
	for i, ro := range ros {
		want = append(want, wantSpan(ro, c.Spans[i]))
	}
	info := traceInfo(c)
	err := lab.use(func() {
		ctx := context.Background()
		var reqs [2]*coltracepb.ExportTraceServiceRequest
		for ti, grpcTransport := range []bool{true, false} {
			name := []string{"grpc", "http"}[ti]
			exp, err := lab.traceExporter(grpcTransport, c.Gzip)
			if err != nil {
				vs = append(vs, vk.V("trace_exporter_new", "%s exporter: %v", name, err))
				return
			}
			if err := exp.ExportSpans(ctx, ros); err != nil {
				vs = append(vs, vk.V("trace_export_error", "%s ExportSpans: %v (collector: %v)", name, err, lab.httpErrs))
				continue
			}
			lab.capMu.Lock()
			got := lab.traceH
			if grpcTransport {
				got = lab.traceG
			}
			lab.capMu.Unlock()
			req := &coltracepb.ExportTraceServiceRequest{}
			if len(got) > 0 {
				req = got[len(got)-1] // earlier ones can only be attempts the client gave up on
			}
			if len(got) == 0 && len(want) > 0 {
				vs = append(vs, vk.V("trace_nothing_received", "%s collector received no request for %d spans", name, len(want)))
			}
			reqs[ti] = req
			vs = append(vs, judgeTraces("span_"+name, want, req)...)
		}
		if reqs[0] != nil && reqs[1] != nil {
			a, b := canonTraces(reqs[0]), canonTraces(reqs[1])
			if !proto.Equal(a, b) {
				v := vk.V("trace_grpc_http_differ", "the gRPC and the HTTP exporter sent different payloads for the same batch")
				v.Observed, v.Expected = clip(fmt.Sprint(a)), clip(fmt.Sprint(b))
				vs = append(vs, v)
			}
		}
		info.ClassIf(lab.gzipSeen > 0, "http_gzip_body")
	})
	if err != nil {
		vs = append(vs, vk.V("infrastructure", "cannot start loopback collectors: %v", err))
	}
	info.ClassIf(c.Gzip, "gzip")
	return vs, info
}

const traceRule = "batches of 0..30 span snapshots (OTLP sub-checks: 1 batch in 120 / 60 log-uniformly larger, up to 600 fast path / 300 network; in 1 of 25 batches of <= 30 spans each span has per list a 1 in 5 chance of up to 160 attributes / events / links), attribute keys from a short alphabet with duplicates and the empty key, spread over 1..4 resources (distinct by attributes; nil/empty included) and 1..4 scopes (empty, shared between resources, siblings differing in one component), " +
	"all kinds / status codes, parents and link targets as arbitrary span contexts (both IDs, span ID only, trace ID only, none; each with/without sampled flag, remote mark, tracestate), events, timestamps incl. epoch, pre-epoch and 2262, dropped counts incl. > MaxUint32 and negative; " +
	"non-trivial = the spans of the batch use >= 2 resources or >= 2 distinct scopes, or carry >= 1 boundary value (time <= epoch or in the last second of int64 nanos, count < 0 or >= MaxUint32-1)"

func TestTraceTransform(t *testing.T) {
	vk.Run(t, vk.Spec[TraceCase]{
		Property: "C13", Check: "otlp_traces",
		Rule:  "fast path (recording otlptrace.Client): " + traceRule,
		Quick: 8000, Thorough: 100000,
		Gen: genTraceCase(traceDomain{maxSpans: 30, wide: 120, wideSpans: 600}), Run: runTraceFast,
	})
}

func TestTraceWire(t *testing.T) {
	vk.Run(t, vk.Spec[TraceCase]{
		Property: "C13", Check: "otlp_traces_grpc_http",
		Rule:  "otlptracegrpc and otlptracehttp (gzip on/off) against loopback collectors, judged separately and against each other: " + traceRule,
		Quick: 1000, Thorough: 12000,
		Gen: genTraceCase(traceDomain{maxSpans: 16, wide: 60, wideSpans: 300}), Run: runTraceWire,
	})
}
