package c13

import (
	"context"
	"fmt"
	"sync"
	"testing"

	"go.opentelemetry.io/otel/verif/internal/vk"
	collogpb "go.opentelemetry.io/proto/otlp/collector/logs/v1"
	colmetricpb "go.opentelemetry.io/proto/otlp/collector/metrics/v1"
	coltracepb "go.opentelemetry.io/proto/otlp/collector/trace/v1"
	"pgregory.net/rapid"
)

// Concurrent sub-check: ONE exporter instance, G goroutines, each exporting
// its own distinguishable batches, released together. The statement must hold
// for every batch whatever else the exporter is doing: every request the
// collector receives decodes, and every exported item is recovered exactly
// once under its own resource and scope with all fields equal - nothing lost,
// duplicated or cross-contaminated. The collector always answers success, so
// an Export error is a violation here.
//
// What the documentation says about concurrent Export calls (found by
// reading sdk/trace, sdk/metric, sdk/log and the exporters):
//
//   - traces: otlptrace.Client.UploadTraces "May be called concurrently"
//     (exporters/otlp/otlptrace/clients.go), and otlptrace.Exporter.ExportSpans
//     holds no state of its own - concurrency is explicitly permitted for the
//     otlptracegrpc / otlptracehttp clients. (sdk/trace.SpanExporter only says
//     the SDK calls ExportSpans synchronously, "no concurrency safety
//     requirement".)
//   - metrics: sdk/metric.Exporter.Export "is called synchronously, there is no
//     concurrency safety requirement"; it is not forbidden, and both OTLP metric
//     exporters serialise UploadMetrics themselves (clientMu; their clients
//     document "The otlpmetric.Exporter synchronizes access to client methods")
//     and carry a TestExporterClientConcurrentSafe that calls Export from
//     several goroutines.
//   - logs: sdk/log.Exporter says "Export should never be called concurrently
//     with other Export calls" (the SDK processors never do). The concrete
//     otlploggrpc / otlploghttp Exporters document nothing else, are written
//     with atomics instead of relying on serial calls, and both packages carry
//     a TestExporterConcurrentSafe that calls Export from 10 goroutines. So
//     for logs (and, more weakly, metrics) concurrent Export is a usage the
//     repository's own tests exercise, not one the interface documentation
//     grants. It is generated because the exporters are built and tested for
//     it; concurrentAsserted below is the switch.
//   - zipkin: nothing is documented beyond sdk/trace.SpanExporter and the
//     package has no concurrency test; not generated.
//
// Decision: only traces are generated. sdk/log.Exporter says "Export should
// never be called concurrently with other Export calls" and
// sdk/metric.Exporter has "no concurrency safety requirement": an exporter
// that misbehaves under concurrent Export of those signals does not break
// the statement (which quantifies over batches, not schedules), so asserting
// it could raise an alarm on code where the property holds.
var concurrentAsserted = map[string]bool{"traces": true, "metrics": false, "logs": false}

// ConcCase is one concurrent program.
type ConcCase struct {
	Signal  string   `json:"signal"` // traces metrics logs
	GRPC    bool     `json:"grpc"`
	Gzip    bool     `json:"gzip"`
	Workers []Worker `json:"workers"`
}

// Worker is what one goroutine does: Perturb[i], then export batch i.
type Worker struct {
	T       []TraceCase  `json:"t,omitempty"`
	M       []MetricCase `json:"m,omitempty"`
	L       []LogCase    `json:"l,omitempty"`
	Perturb []int        `json:"perturb"`
}

func (w Worker) batches() int { return len(w.T) + len(w.M) + len(w.L) }

const concRounds = 2 // the program is run this many times per case (fresh captures each time)

func batchTag(w, b int) string { return fmt.Sprintf("w%db%d", w, b) }

func tagRes(r *Res, tag string) {
	if !r.Nil && len(r.Attrs) > 0 {
		r.Attrs = append(r.Attrs, vk.KV{K: "conc.batch", T: "str", S: vk.Str(tag)})
	}
}

// retagTrace makes the span IDs of a batch unique within the whole program
// (bytes 2 and 3 of the ID carry worker and batch) and keeps in-batch parent
// and link references pointing at the renamed spans.
func retagTrace(c *TraceCase, w, b int) {
	m := map[string]string{}
	for i := range c.Spans {
		old := c.Spans[i].SpanID
		nw := old[:4] + fmt.Sprintf("%02x%02x", w+1, b+1) + old[8:]
		m[old] = nw
	}
	for i := range c.Spans {
		s := &c.Spans[i]
		s.SpanID = m[s.SpanID]
		if n, ok := m[s.Parent.SpanID]; ok {
			s.Parent.SpanID = n
		}
		for j := range s.Links {
			if n, ok := m[s.Links[j].SpanID]; ok {
				s.Links[j].SpanID = n
			}
		}
	}
	for i := range c.Res {
		tagRes(&c.Res[i], batchTag(w, b))
	}
}

func retagMetrics(c *MetricCase, w, b int) {
	for si := range c.Scopes {
		for mi := range c.Scopes[si].Metrics {
			c.Scopes[si].Metrics[mi].Name = batchTag(w, b) + "." + c.Scopes[si].Metrics[mi].Name
		}
	}
	tagRes(&c.Res, batchTag(w, b))
}

func retagLogs(c *LogCase, w, b int) {
	base := int64((w+1)*100+b) * 1000
	for i := range c.Recs {
		c.Recs[i].Attrs[0].V.I += base
	}
	for i := range c.Res {
		tagRes(&c.Res[i], batchTag(w, b))
	}
}

func genConcCase(t *rapid.T) ConcCase {
	var signals []string
	for _, s := range []string{"traces", "metrics", "logs"} {
		if concurrentAsserted[s] {
			signals = append(signals, s)
		}
	}
	c := ConcCase{
		Signal: rapid.SampledFrom(signals).Draw(t, "signal"),
		GRPC:   rapid.Bool().Draw(t, "grpc"),
		Gzip:   rapid.IntRange(0, 2).Draw(t, "gzip") == 2, // no compression twice as often: payload buffers travel as they are
	}
	g := rapid.IntRange(2, 6).Draw(t, "goroutines")
	genT := genTraceCase(traceDomain{maxSpans: 8})
	for w := 0; w < g; w++ {
		var wk Worker
		nb := rapid.IntRange(2, 6).Draw(t, "nbatches")
		for b := 0; b < nb; b++ {
			switch c.Signal {
			case "traces":
				x := genT(t)
				retagTrace(&x, w, b)
				wk.T = append(wk.T, x)
			case "metrics":
				x := genMetricCase(t)
				retagMetrics(&x, w, b)
				wk.M = append(wk.M, x)
			default:
				x := genLogCase(t)
				retagLogs(&x, w, b)
				wk.L = append(wk.L, x)
			}
			// mostly no or tiny perturbations: the goroutines should stay in step
			wk.Perturb = append(wk.Perturb, rapid.SampledFrom([]int{0, 0, 0, 1, 1, 2, 3}).Draw(t, "perturb"))
		}
		c.Workers = append(c.Workers, wk)
	}
	return c
}

type exportFn func(ctx context.Context) error

func runConc(c ConcCase) ([]vk.Violation, vk.Info) {
	var vs []vk.Violation
	var info vk.Info
	bad := func(v ...vk.Violation) {
		for _, x := range v {
			if len(vs) < 8 {
				vs = append(vs, x)
			}
		}
	}
	transport := "http"
	if c.GRPC {
		transport = "grpc"
	}
	prefix := "conc_" + c.Signal + "_" + transport
	maxOverlap := int32(0)
	nExports, nItems := 0, 0

	err := lab.use(func() {
		for round := 0; round < concRounds; round++ {
			lab.clearCaptures()
			// build everything before the goroutines start: they only export
			jobs := make([][]exportFn, len(c.Workers))
			var wantItems []item
			var wantMetricItems []metricItem
			switch c.Signal {
			case "traces":
				exp, err := lab.traceExporter(c.GRPC, c.Gzip)
				if err != nil {
					bad(vk.V("conc_exporter_new", "%v", err))
					return
				}
				for w, wk := range c.Workers {
					for _, b := range wk.T {
						ros := b.stubs().Snapshots()
						for i, ro := range ros {
							wantItems = append(wantItems, wantSpan(ro, b.Spans[i]))
						}
						jobs[w] = append(jobs[w], func(ctx context.Context) error { return exp.ExportSpans(ctx, ros) })
					}
				}
			case "metrics":
				var exp metricExporter
				var err error
				if c.GRPC {
					g, e := lab.metricGRPC(c.Gzip)
					exp, err = g, e
				} else {
					h, e := lab.metricHTTP(c.Gzip)
					exp, err = h, e
				}
				if err != nil {
					bad(vk.V("conc_exporter_new", "%v", err))
					return
				}
				for w, wk := range c.Workers {
					for _, b := range wk.M {
						b := b
						rm := b.build()
						wantMetricItems = append(wantMetricItems, wantMetrics(b, rm)...)
						invalid := false
						for _, sc := range b.Scopes {
							for _, m := range sc.Metrics {
								invalid = invalid || m.untransformable()
							}
						}
						jobs[w] = append(jobs[w], func(ctx context.Context) error {
							err := exp.Export(ctx, rm)
							if invalid {
								if err == nil {
									return fmt.Errorf("Export returned nil for a batch with an untransformable metric")
								}
								return nil // the documented transform error
							}
							return err
						})
					}
				}
			default:
				var exp logExporter
				var err error
				if c.GRPC {
					g, e := lab.logGRPC(c.Gzip)
					exp, err = g, e
				} else {
					h, e := lab.logHTTP(c.Gzip)
					exp, err = h, e
				}
				if err != nil {
					bad(vk.V("conc_exporter_new", "%v", err))
					return
				}
				for w, wk := range c.Workers {
					for _, b := range wk.L {
						recs := b.records()
						for i := range recs {
							wantItems = append(wantItems, wantRecord(recs[i], b.Recs[i], b.Recs[i].serial()))
						}
						jobs[w] = append(jobs[w], func(ctx context.Context) error { return exp.Export(ctx, recs) })
					}
				}
			}

			var mu sync.Mutex
			var errs []string
			ctx := context.Background()
			vk.Parallel(len(c.Workers), func(g int) {
				for i, job := range jobs[g] {
					vk.Perturb(c.Workers[g].Perturb[i])
					if err := job(ctx); err != nil {
						mu.Lock()
						errs = append(errs, fmt.Sprintf("goroutine %d batch %d: %v", g, i, err))
						mu.Unlock()
					}
				}
			})
			if m := lab.maxInflight.Load(); m > maxOverlap {
				maxOverlap = m
			}

			lab.capMu.Lock()
			httpErrs := append([]string{}, lab.httpErrs...)
			tr, mr, lr := lab.traceH, lab.metricH, lab.logH
			if c.GRPC {
				tr, mr, lr = lab.traceG, lab.metricG, lab.logG
			}
			lab.capMu.Unlock()
			for _, e := range errs {
				bad(vk.V(prefix+"_export_error", "round %d: %s (collector: %v)", round, e, httpErrs))
			}
			if len(errs) == 0 && len(httpErrs) > 0 {
				bad(vk.V(prefix+"_undecodable_request", "round %d: the collector could not decode a request: %v", round, httpErrs))
			}
			switch c.Signal {
			case "traces":
				all := &coltracepb.ExportTraceServiceRequest{}
				for _, r := range tr {
					all.ResourceSpans = append(all.ResourceSpans, r.GetResourceSpans()...)
				}
				bad(judgeTraces(prefix, wantItems, all)...)
			case "metrics":
				all := &colmetricpb.ExportMetricsServiceRequest{}
				for _, r := range mr {
					all.ResourceMetrics = append(all.ResourceMetrics, r.GetResourceMetrics()...)
				}
				bad(judgeMetrics(prefix, wantMetricItems, all)...)
			default:
				all := &collogpb.ExportLogsServiceRequest{}
				for _, r := range lr {
					all.ResourceLogs = append(all.ResourceLogs, r.GetResourceLogs()...)
				}
				bad(judgeLogs(prefix, wantItems, all)...)
			}
			if round == 0 {
				nItems = len(wantItems) + len(wantMetricItems)
				for _, j := range jobs {
					nExports += len(j)
				}
			}
			if len(vs) > 0 {
				return
			}
		}
	})
	if err != nil {
		bad(vk.V("infrastructure", "cannot start loopback collectors: %v", err))
	}

	sleeps := false
	for _, w := range c.Workers {
		for _, p := range w.Perturb {
			if p >= 2 {
				sleeps = true
			}
		}
	}
	// every case is a concurrent program over >= 2 resources (one per batch at least)
	info.NonTrivial = nItems > 0
	info.Class(c.Signal + "/" + transport)
	info.ClassIf(c.Gzip, "gzip")
	info.ClassIf(!c.Gzip, "no_compression")
	info.Class(fmt.Sprintf("goroutines=%d", len(c.Workers)))
	info.ClassIf(nExports >= 12, "exports>=12")
	info.ClassIf(nItems >= 50, "items>=50")
	info.ClassIf(sleeps, "sleep_perturbation")
	info.ClassIf(maxOverlap >= 2, "collector_handled_requests_concurrently")
	info.ClassIf(maxOverlap >= 3, "collector_handled>=3_requests_concurrently")
	return vs, info
}

func TestConcurrentExport(t *testing.T) {
	vk.Run(t, vk.Spec[ConcCase]{
		Property: "C13", Check: "otlp_concurrent_export",
		Rule: "one exporter instance of a generated signal (traces, metrics, logs) x transport (gRPC, HTTP) x compression (none twice as often as gzip); 2..6 goroutines released together, each exporting 2..6 batches of its own (the generators of the sequential sub-checks; span IDs / metric names / record serials and a resource attribute carry worker and batch, sizes differ) after a generated perturbation (none, Gosched, 20 us, 200 us); the program runs twice per case; " +
			"the union of all requests the collector received must hold every item of every batch exactly once under its own resource and scope with all fields equal, no Export may fail; non-trivial = at least one item is exported (every case has >= 2 goroutines and >= 4 batches)",
		Quick: 500, Thorough: 6000,
		Gen: genConcCase, Run: runConc,
		Repeat: 10,
		Known: map[string]func(ConcCase, vk.Violation) bool{
			"log_empty_value_as_invalid_string": func(c ConcCase, v vk.Violation) bool {
				if v.Kind != kindEmptyAsInvalid || c.Signal != "logs" {
					return false
				}
				for _, w := range c.Workers {
					for _, l := range w.L {
						if knownEmptyAsInvalid(l, v) {
							return true
						}
					}
				}
				return false
			},
		},
	})
}
