package c13

import (
	"encoding/hex"
	"math"
	"time"

	"go.opentelemetry.io/otel/attribute"
	"go.opentelemetry.io/otel/sdk/instrumentation"
	"go.opentelemetry.io/otel/sdk/resource"
	"go.opentelemetry.io/otel/verif/internal/vk"
	"pgregory.net/rapid"
)

// Res is a resource as data. Resources of one batch are distinct by
// attributes by construction (attribute svc.idx; only resource 0 may be
// empty or nil), so that no two resources with equal attributes and different
// schema URLs exist (resource identity is by attributes).
type Res struct {
	Nil    bool    `json:"nil,omitempty"`
	Attrs  []vk.KV `json:"attrs"`
	Schema string  `json:"schema"`
}

func (r Res) build() *resource.Resource {
	if r.Nil {
		return nil
	}
	return resource.NewWithAttributes(r.Schema, vk.ToAttrs(r.Attrs)...)
}

// Scope is an instrumentation scope as data.
type Scope struct {
	Name    string  `json:"name"`
	Version string  `json:"version"`
	Schema  string  `json:"schema"`
	Attrs   []vk.KV `json:"attrs"`
}

func (s Scope) build() instrumentation.Scope {
	return instrumentation.Scope{Name: s.Name, Version: s.Version, SchemaURL: s.Schema, Attributes: attribute.NewSet(vk.ToAttrs(s.Attrs)...)}
}

func (s Scope) empty() bool {
	return s.Name == "" && s.Version == "" && s.Schema == "" && len(s.Attrs) == 0
}

var schemaURLs = []string{"", "", "https://opentelemetry.io/schemas/1.26.0", "https://example.com/schemas/7"}

var (
	attrKeys  = []string{"a", "b", "c", "http.method", "k.long.key", "Z", "ü"}
	resKeys   = []string{"host.name", "region", "zone", "service.name"}
	scopeKeys = []string{"sk", "short_name", "x"}
)

// kvOpts: every attribute list of every signal (span / event / link /
// exemplar attributes, data-point sets, resource and scope attributes) draws
// its keys from a short alphabet (duplicates are frequent) plus, about 1 time
// in 12, the empty key. The expected side is always read back through the
// public accessors of the object the exporter is given (ReadOnlySpan,
// attribute.Set, Resource ...), so containers that refuse such a key
// themselves are accounted for; what the exporter is handed it must encode.
func kvOpts(keys []string) vk.KVOpts {
	return vk.KVOpts{Keys: keys, EmptyKey: true, NaN: true, MaxSlice: 3, MaxTextParts: 4}
}

// genSize draws a list length: normally from the small sample, 1 time in
// oneIn from a log-uniform range lo..hi (every order of magnitude equally
// likely), so that fixed-size fast paths, default SDK limits (128) and
// pre-sized buffers are crossed by construction.
func genSize(t *rapid.T, label string, small []int, oneIn, lo, hi int) int {
	if oneIn <= 0 || rapid.IntRange(0, oneIn-1).Draw(t, label+"_wide") != oneIn-1 { // last value: shrinking moves to small
		return rapid.SampledFrom(small).Draw(t, label)
	}
	bits := 0
	for 1<<(bits+1) <= hi {
		bits++
	}
	lb := 0
	for 1<<(lb+1) <= lo {
		lb++
	}
	b := rapid.IntRange(lb, bits).Draw(t, label+"_bits")
	l, h := 1<<b, 1<<(b+1)-1
	if l < lo {
		l = lo
	}
	if h > hi {
		h = hi
	}
	return rapid.IntRange(l, h).Draw(t, label+"_n")
}

// genKVsN draws exactly n attributes.
func genKVsN(t *rapid.T, o vk.KVOpts, n int, label string) []vk.KV {
	g := vk.GenKV(o)
	out := make([]vk.KV, n)
	for i := range out {
		out[i] = g.Draw(t, label)
	}
	return out
}

// hasEmptyKey / hasDupKey classify attribute lists.
func hasEmptyKey(kvs []vk.KV) bool {
	for _, kv := range kvs {
		if kv.K == "" {
			return true
		}
	}
	return false
}

func hasDupKey(kvs []vk.KV) bool {
	seen := map[string]bool{}
	for _, kv := range kvs {
		if seen[string(kv.K)] {
			return true
		}
		seen[string(kv.K)] = true
	}
	return false
}

func genText(parts int) *rapid.Generator[string] {
	return rapid.Map(vk.GenText(parts, false), func(s vk.Str) string { return string(s) })
}

// genResources draws 1..max resources; n is biased towards >= 2.
func genResources(t *rapid.T, max int) []Res {
	n := 1
	if max > 1 && rapid.IntRange(0, 3).Draw(t, "multires") > 0 {
		n = rapid.IntRange(2, max).Draw(t, "nres")
	}
	out := make([]Res, n)
	for i := range out {
		r := Res{Schema: rapid.SampledFrom(schemaURLs).Draw(t, "rschema")}
		shape := 0
		if i == 0 {
			shape = rapid.SampledFrom([]int{0, 0, 0, 1, 2}).Draw(t, "r0shape")
		}
		switch shape {
		case 1: // no attributes (a schema URL may remain)
		case 2:
			r.Nil, r.Schema = true, ""
		default:
			r.Attrs = append([]vk.KV{{K: "svc.idx", T: "int", I: int64(i)}}, vk.GenKVs(kvOpts(resKeys), 3, 0).Draw(t, "rattrs")...)
		}
		out[i] = r
	}
	return out
}

func genScope(t *rapid.T) Scope {
	return Scope{
		Name:    rapid.SampledFrom([]string{"", "lib/a", "lib/b", "go.opentelemetry.io/contrib/x"}).Draw(t, "sname"),
		Version: rapid.SampledFrom([]string{"", "v1.2.3", "0.0.1"}).Draw(t, "sversion"),
		Schema:  rapid.SampledFrom(schemaURLs).Draw(t, "sschema"),
		Attrs:   vk.GenKVs(kvOpts(scopeKeys), 2, 0).Draw(t, "sattrs"),
	}
}

// genScopes draws 1..max scopes, biased to >= 2, to the completely empty
// scope and to scopes that differ from a sibling in exactly one component
// (the grouping key must distinguish them).
func genScopes(t *rapid.T, max int) []Scope {
	n := 1
	if max > 1 && rapid.IntRange(0, 3).Draw(t, "multiscope") > 0 {
		n = rapid.IntRange(2, max).Draw(t, "nscopes")
	}
	out := make([]Scope, n)
	for i := range out {
		switch k := rapid.IntRange(0, 5).Draw(t, "scopeshape"); {
		case k == 0:
			out[i] = Scope{}
		case k <= 2 && i > 0: // sibling: one component changed
			s := out[rapid.IntRange(0, i-1).Draw(t, "sib")]
			s.Attrs = append([]vk.KV{}, s.Attrs...)
			switch rapid.IntRange(0, 3).Draw(t, "sibfield") {
			case 0:
				s.Name += "+"
			case 1:
				s.Version += ".1"
			case 2:
				if s.Schema == schemaURLs[2] {
					s.Schema = schemaURLs[3]
				} else {
					s.Schema = schemaURLs[2]
				}
			default:
				s.Attrs = append(s.Attrs, vk.KV{K: "sib", T: "int", I: int64(i)})
			}
			out[i] = s
		default:
			out[i] = genScope(t)
		}
	}
	return out
}

// Times are int64 nanoseconds since the epoch; zeroTime stands for the zero
// time.Time (an unset timestamp).
const zeroTime = math.MinInt64

const typicalNow = int64(1_758_000_000_000_000_000) // September 2025

func mkTime(n int64) time.Time {
	if n == zeroTime {
		return time.Time{}
	}
	return time.Unix(0, n)
}

// genTime draws a timestamp: typical, epoch, just around the epoch, before
// the epoch, the last representable instant (year 2262) or unset.
func genTime(unset bool) *rapid.Generator[int64] {
	return rapid.Custom(func(t *rapid.T) int64 {
		switch rapid.IntRange(0, 15).Draw(t, "tkind") {
		case 0:
			return rapid.SampledFrom([]int64{0, 1, -1, 999, 1000, 1_000_000_000}).Draw(t, "tepoch")
		case 1:
			return rapid.SampledFrom([]int64{math.MaxInt64, math.MaxInt64 - 1, math.MaxInt64 - 1_000_000_000, math.MinInt64 + 1}).Draw(t, "textreme")
		case 2:
			return -rapid.Int64Range(1, math.MaxInt64).Draw(t, "tneg")
		case 3:
			return rapid.Int64Range(0, math.MaxInt64).Draw(t, "tpos")
		case 4:
			if unset {
				return zeroTime
			}
			fallthrough
		default:
			return typicalNow + rapid.Int64Range(-3_600_000_000_000, 3_600_000_000_000).Draw(t, "tnow")
		}
	})
}

func extremeTime(n int64) bool {
	return n <= 0 || n >= math.MaxInt64-1_000_000_000
}

// genCount draws a (dropped) count: mostly small, sometimes around and
// beyond MaxUint32 (values whose low 32 bits are small included), sometimes
// negative.
func genCount() *rapid.Generator[int64] {
	return rapid.Custom(func(t *rapid.T) int64 {
		switch rapid.IntRange(0, 5).Draw(t, "ckind") {
		case 0:
			return rapid.SampledFrom([]int64{math.MaxUint32 - 1, math.MaxUint32, math.MaxUint32 + 1, 1<<32 + 5, 1 << 33, 7 << 40, math.MaxInt64, -1, math.MinInt64}).Draw(t, "cbig")
		case 1, 2:
			return 0
		default:
			return rapid.Int64Range(1, 200).Draw(t, "csmall")
		}
	})
}

func boundaryCount(n int64) bool { return n < 0 || n >= math.MaxUint32-1 }

// IDs are lower-case hex strings.

func genTraceIDHex() *rapid.Generator[string] {
	return rapid.Custom(func(t *rapid.T) string {
		b := rapid.SliceOfN(rapid.Byte(), 16, 16).Draw(t, "tid")
		switch rapid.IntRange(0, 5).Draw(t, "tidshape") {
		case 0: // 64-bit trace ID
			for i := 0; i < 8; i++ {
				b[i] = 0
			}
		case 1:
			for i := 8; i < 16; i++ {
				b[i] = 0
			}
		case 2:
			for i := range b {
				b[i] = 0xff
			}
		}
		zero := true
		for _, x := range b {
			if x != 0 {
				zero = false
			}
		}
		if zero {
			b[15] = 1
		}
		return hex.EncodeToString(b)
	})
}

// spanIDHex builds a span ID that is unique within a batch (serial in the
// first two bytes, never zero).
func spanIDHex(serial int, rnd []byte) string {
	b := make([]byte, 8)
	copy(b[2:], rnd)
	b[0], b[1] = byte((serial+1)>>8), byte(serial+1)
	return hex.EncodeToString(b)
}

func rapidAllZero(b []byte) bool {
	for _, x := range b {
		if x != 0 {
			return false
		}
	}
	return true
}

func genAnySpanIDHex() *rapid.Generator[string] {
	return rapid.Custom(func(t *rapid.T) string {
		b := rapid.SliceOfN(rapid.Byte(), 8, 8).Draw(t, "sid")
		if rapidAllZero(b) {
			b[7] = 1
		}
		return hex.EncodeToString(b)
	})
}

func unhex(s string) []byte {
	b, err := hex.DecodeString(s)
	if err != nil {
		panic("harness bug: bad hex in case: " + s)
	}
	return b
}
