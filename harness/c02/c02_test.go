// Package c02 decides property C02 (metric sums are conserved under
// concurrent recording and collection) by running generated concurrent
// programs - barrier-separated phases of recorder goroutines issuing Add on
// Int64/Float64 Counters and UpDownCounters, and collector goroutines issuing
// Collect / ForceFlush / sleeps - against a MeterProvider with 1..3 readers
// (ManualReader delta / cumulative / delta-for-counters, PeriodicReader with a
// recording exporter) and comparing everything every reader reported with a
// reference model map[(instrument, attribute set)] -> exact sum of the Adds.
//
// All numbers are exact: a measurement is an integer number of units (1 for
// int64 instruments; 1/8, 2^-1074 or 2^971 for float64 instruments, a
// generated property of the instrument), every value carries the unique id of
// its Add in its low bits, so a lost measurement cannot be cancelled by a
// double count of another one. Values range up to 2^60 (int64: beyond what a
// float64 holds) and 2^52 units (float64); a per-stream budget (see budget)
// keeps every partial sum exact, so that the reference sum does not depend on
// the order of the Adds or on how collections partition them.
//
// Special float64 values are part of "all inputs": the statement quantifies
// over the measurements recorded, Float64Counter.Add / Float64UpDownCounter.Add
// take any float64 and document no restriction beyond "increasing values" for
// the counter. Generated: +Inf and -0 on both kinds, -Inf and NaN on up-down
// counters only (a negative or NaN increment is outside a counter's contract),
// subnormal values and totals, totals crossing from subnormal to normal, and
// finite values whose total exceeds MaxFloat64 (= +Inf in IEEE arithmetic).
// The reference total is computed in IEEE arithmetic under an order
// independence argument (see obs): NaN if a NaN or infinities of both signs
// were recorded, else the recorded infinity, else the exact finite sum; NaN is
// compared as NaN, -0 as 0. Where IEEE arithmetic itself is order dependent
// (huge positive values mixed with negative ones on an up-down counter) both
// outcomes are accepted.
//
// Collection calls may be repeated up to 200 times in a row (Op.N) and half of
// the Adds of a third of the programs go to one "hot" stream: long histories
// in which streams stay idle through many collections and are measured again.
//
// Every Add, Collect, ForceFlush, Shutdown and Export is stamped with a
// logical clock (vk.Clock). The oracle is schedule independent: for a set K
// of collections of one reader it knows which measurements MUST be contained
// (Add returned before the relevant call was issued) and which MAY be
// contained (Add issued before the last of K returned) and requires the
// reported number to lie in [must + negative may, must + positive may]; once
// the program is quiescent the bracket collapses to equality with the model.
//
// Instruments may share a name (within one meter, and across the two
// meters): instruments of one meter that differ in kind or number type are
// different instruments (duplicate registration is only warned about), each
// is reported as its own metric and conservation holds per instrument. A
// reported metric is attributed to an instrument by (scope, name, number type
// Sum[int64] / Sum[float64], IsMonotonic), which tells the four generated
// kinds apart.
//
// The program may shut a reader down DIRECTLY (reader.Shutdown, op
// "reader_shutdown") in the middle of a phase. That reader's pipeline ends
// there: a PeriodicReader makes its final collection and export in that call
// (which is then its final flush point), later Collects on it fail, Adds
// issued afterwards are not asserted for it. Every OTHER reader must conserve
// exactly as before: MeterProvider.ForceFlush / Shutdown call every reader
// and join the errors, so a provider call whose error consists only of
// ErrReaderShutdown (no more of them than readers shut down directly by then)
// still is a flush point for all other readers.
//
// The exporter of a periodic reader is a generated collaborator (see
// exporter_test.go): it either stores what it is given in any state or
// follows the documented Exporter contract (after its Shutdown, Export stores
// nothing and returns an error), its Export / ForceFlush / Shutdown may
// return scripted errors (after the payload was stored), and its Export may
// itself record a measurement. The program may call ForceFlush directly on a
// periodic reader, and may give Collect / ForceFlush an already cancelled
// context (such a call is a collection point only if it returns nil).
//
// Two sub-checks share generator pieces, execution and oracle:
// sum_conservation (concurrent programs, each executed twice) and
// sequential_model (one goroutine: every bracket is an equality).
//
// Readings of the statement (conservative where it is ambiguous):
//   - "reported by a reader" = returned by a Collect call on the reader that
//     returned nil, or contained in a payload handed to the reader's exporter
//     (whatever Export returns) BEFORE the reader called that exporter's
//     Shutdown: the Exporter interface documents that Export performs no
//     operation after Shutdown, so a payload handed over afterwards reaches
//     nobody (only the "lenient" exporter variant stores it all the same; it
//     is kept so that nothing is demanded from the order of calls as such).
//     A user Collect on a PeriodicReader
//     consumes the interval like an export: all consumers of a reader's
//     pipeline are added up.
//   - "through ForceFlush / Shutdown": a measurement whose Add returned before
//     a ForceFlush / Shutdown call was issued has been reported by the time
//     that call returns nil (delta: is part of the sum of everything reported
//     so far; cumulative: some payload handed over so far contains it, and for
//     Shutdown the LAST payload does). A call that returned an error is not
//     asserted when the error is excused by a collaborator or by the caller:
//     a scripted callback failure, a cancelled / expired context. Other
//     errors do not excuse a loss: ErrReaderShutdown of readers the program
//     shut down directly (the provider joins the errors of all readers), the
//     scripted errors of the harness' exporters (returned after the payload
//     was stored) and the refusal of a contract exporter (which the reader
//     provoked itself by exporting after shutting the exporter down).
//   - For an export only the instant Export was entered is known, not when
//     its collection started; lower bounds are therefore asserted for
//     ManualReader collections, ForceFlush and Shutdown only, upper bounds
//     ("nothing is counted twice or invented") for every collection.
//   - "never decreases": for a monotonic cumulative stream, values of
//     collections that are ordered by the logical clock (and the payloads of
//     one exporter in the order they were handed over) are non-decreasing.
//   - Adds issued while / after Shutdown runs may or may not be reported; they
//     only widen the bracket. Nothing is asserted about calls made after
//     Shutdown returned except that they do not panic.
package c02

import (
	"context"
	"errors"
	"fmt"
	"math"
	"regexp"
	"sort"
	"strconv"
	"strings"
	"sync"
	"sync/atomic"
	"testing"
	"time"

	"go.opentelemetry.io/otel"
	"go.opentelemetry.io/otel/attribute"
	"go.opentelemetry.io/otel/metric"
	sdkmetric "go.opentelemetry.io/otel/sdk/metric"
	"go.opentelemetry.io/otel/sdk/metric/metricdata"
	"go.opentelemetry.io/otel/sdk/resource"
	"go.opentelemetry.io/otel/verif/internal/vk"
	"pgregory.net/rapid"
)

// Inst is one instrument of the program.
type Inst struct {
	Kind  string `json:"kind"`  // i64c | f64c | i64u | f64u (counter / up-down counter)
	Scope int    `json:"scope"` // which of two meters creates it
	// Name is the instrument name; empty = "inst<index>" (unique). Instruments
	// may SHARE a name, within one meter too: those that differ in kind or
	// number type are different instruments (the SDK logs a duplicate
	// registration warning and reports each as its own metric of that name);
	// those with the same (scope, name, kind) are handles of ONE instrument and
	// feed one stream (the model merges them).
	Name string `json:"name,omitempty"`
	// Scale (float64 instruments only): the size of one unit of this
	// instrument's measurements: "" 1/8, "sub" 2^-1074 (the smallest subnormal:
	// every sum below 2^53 units is exact, sums of 2^52 units and more are normal
	// numbers), "huge" 2^971 (MaxFloat64 = (2^53-1) units: sums below 2^53 units
	// are exact, a sum of 2^53 units or more is +Inf in IEEE arithmetic).
	Scale string `json:"scale,omitempty"`
}

// Reader is one reader of the provider.
type Reader struct {
	Kind       string `json:"kind"`                  // manual | periodic
	Temp       string `json:"temp"`                  // delta | cumulative | delta_counters (delta for counters, cumulative for up-down counters)
	IntervalUs int64  `json:"interval_us,omitempty"` // periodic: export interval
	ExportP    int    `json:"export_p,omitempty"`    // periodic: vk.Perturb kind executed inside Export
	// DropDefault (manual readers, only in cases with SumView): the reader's
	// default aggregation selector answers Drop for every kind ("allow-list"
	// reader); the provider-level view sets an explicit sum aggregation, which
	// overrides the reader default, so this reader must see everything too.
	DropDefault bool `json:"drop_default,omitempty"`
	// Exp (periodic): life cycle of the recording exporter: "" stores what it is
	// given in any state; "contract" / "contract_own" follow the documented
	// Exporter contract: after its Shutdown was called, Export stores nothing
	// and returns an error (sdkmetric.ErrExporterShutdown / an error of its own)
	Exp string `json:"exp,omitempty"`
	// ExpFail (periodic): "" | "export" (every ExpFailEvery-th Export returns an
	// error after storing the payload) | "flush" | "shutdown" (the exporter's
	// ForceFlush / Shutdown return an error)
	ExpFail      string `json:"exp_fail,omitempty"`
	ExpFailEvery int    `json:"exp_fail_every,omitempty"`
	// ExpAdd (periodic): Export itself records a measurement (of 2^20 units on
	// instrument <reader index mod instruments>, attribute set 0), at most 40
	ExpAdd bool `json:"exp_add,omitempty"`
}

// Op is one step of one goroutine.
type Op struct {
	K string `json:"k"`           // add | collect | flush | sleep | reader_shutdown (Shutdown called directly on reader R) | reader_flush (ForceFlush called directly on periodic reader R)
	P int    `json:"p,omitempty"` // perturbation before the op (vk.Perturb)
	I int    `json:"i,omitempty"` // add: instrument index
	S int    `json:"s,omitempty"` // add: attribute set index
	V int64  `json:"v,omitempty"` // add: value in units (1 for int64 instruments, 1/8 for float64 instruments); sign dropped for counters
	A bool   `json:"a,omitempty"` // add: pass metric.WithAttributes(kvs...) instead of a prebuilt attribute.Set
	// M: add: how the attributes are spread over SEVERAL options of one call
	// (the API merges them, a later option winning on a shared key): 0 one
	// option (see A); 1 two WithAttributes options (list cut in the middle);
	// 2 one WithAttributes option per key, keys in DESCENDING order; 3
	// WithAttributeSet(first half) followed by WithAttributes(second half); 4
	// no option at all when the set is empty
	M int  `json:"m,omitempty"`
	R int  `json:"r,omitempty"` // collect / reader_shutdown / reader_flush: reader index
	X bool `json:"x,omitempty"` // collect / flush / reader_flush: the call is given an already cancelled context
	F bool `json:"f,omitempty"` // collect: use a fresh ResourceMetrics instead of the goroutine's reused one
	D int  `json:"d,omitempty"` // sleep: 0 300us, 1 1ms, 2 3ms, 3 6ms
	// Z: add on a float64 instrument: a special value instead of V units:
	// "+inf" | "-inf" | "nan" | "-0" ("-inf" and "nan" on up-down counters only:
	// a counter takes non-negative increments; see special)
	Z string `json:"z,omitempty"`
	// N: collect / flush / reader_flush: the call is repeated N more times in a
	// row (long histories of collections during which streams stay idle)
	N int `json:"n,omitempty"`
}

// Case is one generated program.
type Case struct {
	Insts    []Inst    `json:"insts"`
	Sets     [][]vk.KV `json:"sets"`
	Readers  []Reader  `json:"readers"`
	Phases   [][][]Op  `json:"phases"`    // phase -> goroutine -> ops; barriers between phases
	LateConc []Op      `json:"late_conc"` // adds issued concurrently with provider.Shutdown
	Late     []Op      `json:"late"`      // adds issued after Shutdown returned
	Runs     int       `json:"runs"`
	// Broken: "" | "first" | "last": an EXTRA, misconfigured ManualReader (its
	// aggregation selector asks for a last-value aggregation of counters, which
	// the SDK rejects) registered before / after the readers above. Creating an
	// instrument then reports an error for that reader, but every correctly
	// configured reader must still see every measurement. The broken reader is
	// not part of Readers and nothing is asserted about it.
	Broken string `json:"broken,omitempty"`
	// SumView: a provider-level view NewView(Instrument{Name:"*"},
	// Stream{Aggregation: AggregationSum{}}) - the default aggregation of every
	// generated instrument kind, stated explicitly.
	SumView bool `json:"sum_view,omitempty"`
	// FailCB: an UNRELATED observable gauge of the same provider whose
	// callback fails (and observes nothing): 1 instrument callback failing on
	// every collection, 2 a RegisterCallback callback failing on every
	// collection, 3 instrument callback failing on every other collection.
	// Collect / ForceFlush / Shutdown then report that error, but the sums of
	// the counters are collected all the same and must not be lost.
	FailCB int `json:"fail_cb,omitempty"`
	// Lazy: instruments are not created up front; every Add obtains the meter
	// and the instrument afresh (mp.Meter(scope).Int64Counter(name)...), so the
	// FIRST use of a meter / an instrument happens concurrently on several
	// goroutines. The SDK hands out the same stream for the same identity.
	Lazy bool `json:"lazy,omitempty"`
	// Lend: the configuration arguments are slices of buffers the caller
	// re-uses for a second (decoy) provider; see lend_test.go.
	Lend *Lend `json:"lend,omitempty"`
}

func kvI(k string, v int64) vk.KV   { return vk.KV{K: vk.Str(k), T: "int", I: v} }
func kvS(k, v string) vk.KV         { return vk.KV{K: vk.Str(k), T: "str", S: vk.Str(v)} }
func kvB(k string, v bool) vk.KV    { return vk.KV{K: vk.Str(k), T: "bool", B: v} }
func kvF(k string, v float64) vk.KV { return vk.KV{K: vk.Str(k), T: "float", F: vk.F64(v)} }

// universe holds pairwise different attribute sets that are close to each
// other: they share keys and differ in one value, one type or one member, so
// that an aggregator keying its streams by less than the whole set merges them.
var universe = [][]vk.KV{
	{},
	{kvI("a", 1)},
	{kvI("a", 2)},
	{kvI("a", 1), kvI("b", 1)},
	{kvI("a", 1), kvI("b", 2)},
	{kvI("b", 1), kvI("a", 2)},
	{kvI("b", 1)},
	{kvS("a", "1")},
	{kvF("a", 1)},
	{kvI("a", 1), kvI("b", 1), kvB("c", true)},
	{kvI("a", 1), kvI("b", 1), kvB("c", false)},
	{kvS("k.long.key", "v"), kvI("a", 1)},
	{kvI("b", 2), kvI("c", 1)},
}

const maxAdds = 1000 // ids live in the low 10 bits of a value

var (
	burst = []int{0, 0, 0, 0, 0, 1}
	mixed = []int{0, 0, 0, 1, 1, 2, 2, 3, 4}
)

// genWorld draws instruments, the attribute-set pool and the readers.
func genWorld(t *rapid.T) Case {
	c := Case{}
	kinds := []string{"i64c", "f64c", "i64u", "f64u"}
	if rapid.IntRange(0, 3).Draw(t, "same_name") == 0 {
		// 2..4 instruments of ONE meter are all called the same and differ in
		// kind / number type (generated order = registration order); optionally
		// the other meter has instruments of that name too, and one instrument
		// has a name of its own.
		sc := rapid.IntRange(0, 1).Draw(t, "shared_scope")
		n := rapid.IntRange(2, 4).Draw(t, "shared_n")
		for _, k := range rapid.SliceOfNDistinct(rapid.SampledFrom(kinds), n, n, rapid.ID[string]).Draw(t, "shared_kinds") {
			c.Insts = append(c.Insts, Inst{Kind: k, Scope: sc, Name: "shared"})
		}
		if rapid.Bool().Draw(t, "shared_in_other_scope") {
			m := rapid.IntRange(1, 2).Draw(t, "shared_other_n")
			for _, k := range rapid.SliceOfNDistinct(rapid.SampledFrom(kinds), m, m, rapid.ID[string]).Draw(t, "shared_other_kinds") {
				c.Insts = append(c.Insts, Inst{Kind: k, Scope: 1 - sc, Name: "shared"})
			}
		}
		if rapid.IntRange(0, 3).Draw(t, "plus_second_handle") == 0 {
			// the same (scope, name, kind) once more: a second handle of one instrument
			c.Insts = append(c.Insts, c.Insts[rapid.IntRange(0, len(c.Insts)-1).Draw(t, "handle_of")])
		}
		if rapid.Bool().Draw(t, "plus_unique") {
			c.Insts = append(c.Insts, Inst{Kind: rapid.SampledFrom(kinds).Draw(t, "inst_kind"), Scope: rapid.IntRange(0, 1).Draw(t, "scope")})
		}
	} else {
		ni := rapid.IntRange(1, 4).Draw(t, "insts")
		for i := 0; i < ni; i++ {
			c.Insts = append(c.Insts, Inst{
				Kind:  rapid.SampledFrom(kinds).Draw(t, "inst_kind"),
				Scope: rapid.IntRange(0, 1).Draw(t, "scope"),
			})
		}
	}
	// the unit of every float64 instrument (handles of one instrument share it)
	scaleBy := map[ident]string{}
	for i := range c.Insts {
		if !isFloat(c.Insts[i]) {
			continue
		}
		id := identOf(c, i)
		sc, ok := scaleBy[id]
		if !ok {
			sc = rapid.SampledFrom([]string{"", "", "", "", "", "sub", "huge", "huge"}).Draw(t, "scale")
			scaleBy[id] = sc
		}
		c.Insts[i].Scale = sc
	}
	ns := rapid.IntRange(1, 6).Draw(t, "sets")
	for _, u := range rapid.SliceOfNDistinct(rapid.IntRange(0, len(universe)-1), ns, ns, rapid.ID[int]).Draw(t, "set_ids") {
		c.Sets = append(c.Sets, universe[u])
	}
	nr := rapid.SampledFrom([]int{1, 1, 2, 2, 2, 3, 3, 3, 4, 5}).Draw(t, "readers")
	for r := 0; r < nr; r++ {
		rd := Reader{
			Kind: rapid.SampledFrom([]string{"manual", "periodic"}).Draw(t, "reader_kind"),
			Temp: rapid.SampledFrom([]string{"delta", "delta", "cumulative", "cumulative", "delta_counters"}).Draw(t, "temp"),
		}
		if rd.Kind == "periodic" {
			rd.IntervalUs = rapid.SampledFrom([]int64{1000, 1000, 2000, 3000, 5000, 3600e6}).Draw(t, "interval")
			rd.ExportP = rapid.SampledFrom([]int{0, 0, 1, 2, 3}).Draw(t, "export_p")
			rd.Exp = rapid.SampledFrom([]string{"", "contract", "contract", "contract_own"}).Draw(t, "exporter_life_cycle")
			rd.ExpFail = rapid.SampledFrom([]string{"", "", "", "", "", "", "export", "flush", "shutdown"}).Draw(t, "exporter_failure")
			if rd.ExpFail == "export" {
				rd.ExpFailEvery = rapid.IntRange(1, 3).Draw(t, "exporter_fails_every")
			}
			rd.ExpAdd = rapid.IntRange(0, 5).Draw(t, "exporter_records") == 0
		}
		c.Readers = append(c.Readers, rd)
	}
	return c
}

// addGen draws Adds with pairwise distinct values: the id of the add lives
// in the low 10 bits, a generated power of two (or nothing) above them.
type addGen struct {
	c    *Case
	next int
	// special: one in `special` Adds on a float64 instrument records a special
	// value (+Inf, -Inf, NaN, -0); 0 = none
	special int
	// hot: half of the Adds go to ONE stream (hotI, hotS): a long history of a
	// single stream (large totals, idle periods followed by new measurements)
	hot        bool
	hotI, hotS int
}

func newAddGen(t *rapid.T, c *Case) *addGen {
	g := &addGen{c: c, special: genSpecialRate(t)}
	if g.hot = rapid.IntRange(0, 2).Draw(t, "hot_stream") == 0; g.hot {
		g.hotI = rapid.IntRange(0, len(c.Insts)-1).Draw(t, "hot_i")
		g.hotS = rapid.IntRange(0, len(c.Sets)-1).Draw(t, "hot_s")
	}
	return g
}

// genSpecialRate: half of the programs record finite values only.
func genSpecialRate(t *rapid.T) int {
	return rapid.SampledFrom([]int{0, 0, 0, 0, 24, 12, 6, 3}).Draw(t, "special_floats_one_in")
}

func (g *addGen) draw(t *rapid.T, pert []int) Op {
	op := Op{K: "add", P: rapid.SampledFrom(pert).Draw(t, "p")}
	op.I = rapid.IntRange(0, len(g.c.Insts)-1).Draw(t, "i")
	op.S = rapid.IntRange(0, len(g.c.Sets)-1).Draw(t, "s")
	if g.hot && rapid.Bool().Draw(t, "to_hot_stream") {
		op.I, op.S = g.hotI, g.hotS
	}
	op.A = rapid.IntRange(0, 3).Draw(t, "with_attributes") == 0
	op.M = rapid.SampledFrom([]int{0, 0, 0, 0, 0, 1, 2, 3, 4}).Draw(t, "multi_option")
	id := int64(g.next%1023) + 1
	g.next++
	in := g.c.Insts[op.I]
	neg := !isCounter(in) && rapid.IntRange(0, 2).Draw(t, "neg") == 0
	// how large a value may be: up to 2^52 + id (the per-stream budget of
	// newAdd keeps every sum exact); negative values of a huge-scale
	// instrument stay small (overflow towards -Inf is order dependent)
	maxPow := 52
	switch {
	case !isFloat(in):
		maxPow = 60
	case in.Scale == "huge" && neg:
		maxPow = 40
	}
	topFrom := 13
	if in.Scale == "huge" && isFloat(in) && !neg {
		topFrom = 8 // totals beyond MaxFloat64 need several values near the top
	}
	switch k := rapid.IntRange(0, 15).Draw(t, "vkind"); {
	case k == 0:
		op.V = 0 // creates the stream without changing the sum
	case k < 8:
		op.V = id
	case k < topFrom:
		op.V = int64(1)<<uint(rapid.IntRange(10, 40).Draw(t, "pow")) + id
	default:
		lo := maxPow - 3
		if !isFloat(in) {
			lo = 50
		}
		op.V = int64(1)<<uint(rapid.IntRange(lo, maxPow).Draw(t, "pow_top")) + id
	}
	if neg {
		op.V = -op.V
	}
	if isFloat(in) && g.special > 0 && rapid.IntRange(1, g.special).Draw(t, "special") == 1 {
		zs := []string{"+inf", "+inf", "-0"}
		if !isCounter(in) {
			zs = []string{"+inf", "+inf", "-inf", "-inf", "-0", "nan"}
		}
		op.Z = rapid.SampledFrom(zs).Draw(t, "special_value")
	}
	return op
}

func genCollectorOp(t *rapid.T, rds []Reader, pert []int, sleeps bool) Op {
	nr := len(rds)
	op := Op{P: rapid.SampledFrom(pert).Draw(t, "p")}
	var periodic []int
	for i, r := range rds {
		if r.Kind == "periodic" {
			periodic = append(periodic, i)
		}
	}
	switch k := rapid.IntRange(0, 10).Draw(t, "ckind"); {
	case k == 10 && len(periodic) > 0:
		op.K = "reader_flush"
		op.R = rapid.SampledFrom(periodic).Draw(t, "r")
	case k < 6 || (k >= 8 && !sleeps):
		op.K = "collect"
		op.R = rapid.IntRange(0, nr-1).Draw(t, "r")
		op.F = rapid.IntRange(0, 2).Draw(t, "fresh") == 0
	case k < 8:
		op.K = "flush"
	default:
		op.K = "sleep"
		op.D = rapid.IntRange(0, 3).Draw(t, "d")
	}
	if op.K != "sleep" {
		op.X = rapid.IntRange(0, 11).Draw(t, "cancelled_ctx") == 0
		// long histories: the same call many times in a row (streams that were
		// measured before stay idle through all of them)
		if rapid.IntRange(0, 15).Draw(t, "repeated") == 0 {
			op.N = rapid.OneOf(rapid.IntRange(1, 4), rapid.IntRange(5, 40), rapid.IntRange(33, 200)).Draw(t, "repeats")
			if op.K != "collect" && op.N > 64 {
				op.N = 64 // a flush collects every reader
			}
		}
	}
	return op
}

// genReaderShutdowns: in a quarter of the cases the application shuts one or
// two readers down DIRECTLY (reader.Shutdown, not through the provider) at a
// generated position of the program; any reader, the first registered too.
func genReaderShutdowns(t *rapid.T, c *Case, pert []int) {
	if rapid.IntRange(0, 3).Draw(t, "reader_shutdown") != 0 {
		return
	}
	n := rapid.IntRange(1, 2).Draw(t, "n_reader_shutdown")
	for i := 0; i < n; i++ {
		op := Op{K: "reader_shutdown", R: rapid.IntRange(0, len(c.Readers)-1).Draw(t, "shut_reader"), P: rapid.SampledFrom(pert).Draw(t, "p")}
		pi := rapid.IntRange(0, len(c.Phases)-1).Draw(t, "shut_phase")
		if len(c.Phases[pi]) == 0 {
			c.Phases[pi] = [][]Op{{}}
		}
		g := rapid.IntRange(0, len(c.Phases[pi])-1).Draw(t, "shut_goroutine")
		ops := c.Phases[pi][g]
		at := rapid.IntRange(0, len(ops)).Draw(t, "shut_at")
		ops = append(ops[:at:at], append([]Op{op}, ops[at:]...)...)
		c.Phases[pi][g] = ops
	}
}

// genSumView: in a fifth of the cases the explicit sum view is installed and
// manual readers may be "allow-list" readers (drop by default).
func genSumView(t *rapid.T, c *Case) {
	if rapid.IntRange(0, 4).Draw(t, "sum_view") != 0 {
		return
	}
	c.SumView = true
	for i := range c.Readers {
		if c.Readers[i].Kind != "periodic" && rapid.Bool().Draw(t, "drop_default") {
			c.Readers[i].DropDefault = true
		}
	}
}

func gen(t *rapid.T) Case {
	c := genWorld(t)
	ag := newAddGen(t, &c)
	nphases := rapid.IntRange(1, 4).Draw(t, "phases")
	for p := 0; p < nphases; p++ {
		var phase [][]Op
		nrec := rapid.OneOf(rapid.IntRange(1, 3), rapid.IntRange(1, 8)).Draw(t, "recorders")
		for g := 0; g < nrec; g++ {
			n := rapid.OneOf(rapid.IntRange(0, 12), rapid.IntRange(0, 60), rapid.IntRange(60, 200)).Draw(t, "adds")
			if n > maxAdds-ag.next {
				n = maxAdds - ag.next
			}
			pert := mixed
			if rapid.Bool().Draw(t, "burst") {
				pert = burst
			}
			ops := []Op{}
			for i := 0; i < n; i++ {
				ops = append(ops, ag.draw(t, pert))
			}
			phase = append(phase, ops)
		}
		ncol := rapid.SampledFrom([]int{0, 1, 1, 1, 2, 2, 3}).Draw(t, "collectors")
		for g := 0; g < ncol; g++ {
			n := rapid.IntRange(1, 14).Draw(t, "cops")
			ops := []Op{}
			for i := 0; i < n; i++ {
				ops = append(ops, genCollectorOp(t, c.Readers, mixed, true))
			}
			phase = append(phase, ops)
		}
		c.Phases = append(c.Phases, phase)
	}
	if rapid.Bool().Draw(t, "late_conc") && ag.next < maxAdds-8 {
		n := rapid.IntRange(1, 4).Draw(t, "n_late_conc")
		for i := 0; i < n; i++ {
			c.LateConc = append(c.LateConc, ag.draw(t, mixed))
		}
	}
	if ag.next < maxAdds-4 {
		n := rapid.IntRange(0, 3).Draw(t, "n_late")
		for i := 0; i < n; i++ {
			c.Late = append(c.Late, ag.draw(t, burst))
		}
	}
	genReaderShutdowns(t, &c, mixed)
	c.Runs = 2
	c.Broken = rapid.SampledFrom([]string{"", "", "", "", "", "first", "last"}).Draw(t, "broken_reader")
	genSumView(t, &c)
	c.FailCB = rapid.SampledFrom([]int{0, 0, 0, 0, 0, 1, 2, 3}).Draw(t, "failing_callback")
	c.Lazy = rapid.IntRange(0, 3).Draw(t, "lazy_instruments") == 0
	genLend(t, &c, 4)
	return c
}

// genSeq draws a program with a single goroutine: every bracket of the
// oracle collapses to equality with the model (only interval exports of
// periodic readers still run beside it).
func genSeq(t *rapid.T) Case {
	c := genWorld(t)
	ag := newAddGen(t, &c)
	n := rapid.OneOf(rapid.IntRange(1, 20), rapid.IntRange(1, 80)).Draw(t, "ops")
	ops := []Op{}
	none := []int{0}
	for i := 0; i < n; i++ {
		if rapid.IntRange(0, 9).Draw(t, "what") < 6 {
			ops = append(ops, ag.draw(t, none))
		} else {
			ops = append(ops, genCollectorOp(t, c.Readers, none, rapid.IntRange(0, 9).Draw(t, "sleeps") == 0))
		}
	}
	c.Phases = [][][]Op{{ops}}
	genReaderShutdowns(t, &c, none)
	nl := rapid.IntRange(0, 2).Draw(t, "n_late")
	for i := 0; i < nl; i++ {
		c.Late = append(c.Late, ag.draw(t, none))
	}
	c.Runs = 1
	c.Broken = rapid.SampledFrom([]string{"", "", "", "", "first", "last"}).Draw(t, "broken_reader")
	genSumView(t, &c)
	c.FailCB = rapid.SampledFrom([]int{0, 0, 0, 0, 1, 2, 3}).Draw(t, "failing_callback")
	c.Lazy = rapid.IntRange(0, 5).Draw(t, "lazy_instruments") == 0
	genLend(t, &c, 4)
	return c
}

// ---------------------------------------------------------------------
// static view of a case

func isCounter(in Inst) bool { return !strings.HasSuffix(in.Kind, "u") }
func isFloat(in Inst) bool   { return strings.HasPrefix(in.Kind, "f") }

// instName is the harness' label of instrument i (also its default metric name).
func instName(i int) string  { return fmt.Sprintf("inst%d", i) }
func scopeName(s int) string { return fmt.Sprintf("c02.scope%d", s&1) }
func idx(i, n int) int       { return ((i % n) + n) % n }

// metricName is the name instrument i is created with.
func metricName(c Case, i int) string {
	if c.Insts[i].Name != "" {
		return c.Insts[i].Name
	}
	return instName(i)
}

// ident is what identifies an instrument in a collection: the four generated
// kinds differ in number type and / or monotonicity.
type ident struct {
	scope, name string
	float, mono bool
}

func identOf(c Case, i int) ident {
	in := c.Insts[i]
	return ident{scopeName(in.Scope), metricName(c, i), isFloat(in), isCounter(in)}
}

// canonical maps every instrument to the first one with the same identity
// (same scope, name and kind: handles of one SDK instrument).
func canonical(c Case) []int {
	first := map[ident]int{}
	out := make([]int, len(c.Insts))
	for i := range c.Insts {
		id := identOf(c, i)
		if j, ok := first[id]; ok {
			out[i] = j
			continue
		}
		first[id] = i
		out[i] = i
	}
	return out
}

// repeats: how many more times a collection call is issued in a row.
func repeats(op Op) int {
	switch {
	case op.N <= 0:
		return 0
	case op.K != "collect" && op.N > 64:
		return 64
	case op.N > 200:
		return 200
	}
	return op.N
}

func sleepFor(d int) time.Duration {
	switch d {
	case 1:
		return time.Millisecond
	case 2:
		return 3 * time.Millisecond
	case 3:
		return 6 * time.Millisecond
	}
	return 300 * time.Microsecond
}

// units is the number of units an add contributes (counters take |V|); the
// caller (newAdd) applies the per-stream budget that keeps every sum exact.
func units(op Op, in Inst) int64 {
	v := op.V
	if v == math.MinInt64 {
		v = 0
	}
	if isCounter(in) && v < 0 {
		v = -v
	}
	lim := int64(1)<<52 + 1023
	if !isFloat(in) {
		lim = int64(1)<<60 + 1023 // (a single int64 value beyond 2^53: no float64 holds it)
	}
	if v > lim || v < -lim {
		v %= 1 << 42
	}
	return v
}

// top: a float64 holds every integer below 2^53 exactly; at the huge scale a
// sum of 2^53 units or more is +Inf.
const top = int64(1) << 53

// budget tracks, per stream, the sum of the magnitudes of the finite values
// recorded so far; a value that would take it beyond what the number type
// adds up exactly is cut down to its low bits (the id of the Add). The
// reference arithmetic is then independent of the order of the Adds and of
// the way collections partition them: every partial sum is an exact integer
// number of units.
//
//   - int64: |sum| < 2^62
//   - float64: |sum| < 2^53 units (minus what exporters may record themselves)
//   - float64 at the huge scale: only the NEGATIVE values are budgeted
//     (< 2^52 units in total, so no partial sum overflows towards -Inf); the
//     positive ones may add up to 2^53 units and more, which is +Inf whatever
//     the order when every value is non-negative (counters), and "+Inf or the
//     exact sum" when negative values are mixed in (see fits).
type budget map[stream][2]int64 // [0] positive, [1] negative magnitudes

func (b budget) take(s stream, in Inst, v int64) int64 {
	const reserve = int64(1) << 31
	cur := b[s]
	lim := top - reserve
	if !isFloat(in) {
		lim = int64(1)<<62 - reserve
	}
	mag, side := v, 0
	if v < 0 {
		mag, side = -v, 1
	}
	switch {
	case isFloat(in) && in.Scale == "huge" && side == 0:
		// unlimited: overflow is part of the model
	case isFloat(in) && in.Scale == "huge":
		if cur[1]+mag > top/2-reserve {
			mag %= 1024
		}
	default:
		if cur[0]+cur[1]+mag > lim {
			mag %= 1024
		}
	}
	cur[side] += mag
	b[s] = cur
	if side == 1 {
		return -mag
	}
	return mag
}

// special is the special value an Add records (0 = none): '+' +Inf, '-' -Inf,
// 'n' NaN, 'z' -0. Only float64 instruments have them; a Counter "records
// increasing values" (non-negative increments): -Inf and NaN are outside its
// contract and are not generated for it.
func special(op Op, in Inst) byte {
	if !isFloat(in) {
		return 0
	}
	switch op.Z {
	case "+inf":
		return '+'
	case "-0":
		return 'z'
	case "-inf":
		if !isCounter(in) {
			return '-'
		}
	case "nan":
		if !isCounter(in) {
			return 'n'
		}
	}
	return 0
}

// scaleExp: one unit of instrument in is 2^scaleExp.
func scaleExp(in Inst) int {
	switch in.Scale {
	case "sub":
		return -1074
	case "huge":
		return 971
	}
	return -3
}

// floatOf is the float64 an Add of u units (or of a special value) records.
func floatOf(in Inst, u int64, sp byte) float64 {
	switch sp {
	case '+':
		return math.Inf(1)
	case '-':
		return math.Inf(-1)
	case 'n':
		return math.NaN()
	case 'z':
		return math.Copysign(0, -1)
	}
	return math.Ldexp(float64(u), scaleExp(in))
}

func tempOf(r Reader, counter bool) metricdata.Temporality {
	switch r.Temp {
	case "delta":
		return metricdata.DeltaTemporality
	case "delta_counters":
		if counter {
			return metricdata.DeltaTemporality
		}
	}
	return metricdata.CumulativeTemporality
}

func selector(r Reader) sdkmetric.TemporalitySelector {
	return func(k sdkmetric.InstrumentKind) metricdata.Temporality {
		switch k {
		case sdkmetric.InstrumentKindCounter:
			return tempOf(r, true)
		case sdkmetric.InstrumentKindUpDownCounter:
			return tempOf(r, false)
		}
		return metricdata.CumulativeTemporality
	}
}

// setKey renders an attribute set canonically (own sort, bit-exact values).
func setKey(kvs []attribute.KeyValue) string {
	parts := make([]string, len(kvs))
	for i, kv := range kvs {
		parts[i] = fmt.Sprintf("%q=%s", string(kv.Key), vk.ValueKey(kv.Value))
	}
	sort.Strings(parts)
	return "{" + strings.Join(parts, ",") + "}"
}

// ---------------------------------------------------------------------
// recorded history

type stream struct {
	inst int
	set  string
}

func (s stream) String() string { return instName(s.inst) + s.set }

type addRec struct {
	id         int
	start, end int64
	inst       int // canonical instrument (stream owner)
	raw        int // instrument handle the Add goes through
	set        string
	units      int64
	sp         byte // special value recorded instead of units (see special); 0 = none
	done       bool
	where      string // phase N | late_conc | late
}

// consumer is one collection of one reader's pipeline: a Collect call or a
// payload handed to the exporter.
type consumer struct {
	reader int
	export bool
	// Collect call: issued / returned. Export: start is unknown (-1), end is
	// the instant Export was entered (the collection was complete by then).
	start, end int64
	exit       int64 // export: Export returned
	pts        map[stream]int64
	sp         map[stream]byte // points that report a non-finite value: '+' +Inf, '-' -Inf, 'n' NaN (pts holds 0 for them)
	probs      []vk.Violation
}

func (c *consumer) label() string {
	if c.export {
		return fmt.Sprintf("payload handed to the exporter of reader %d at t=%d", c.reader, c.end)
	}
	return fmt.Sprintf("Collect on reader %d (t=%d..%d)", c.reader, c.start, c.end)
}

type callRec struct {
	kind       string // flush | shutdown (provider) | reader_shutdown / reader_flush (directly on one reader)
	reader     int    // reader_shutdown / reader_flush: which
	start, end int64
	err        error
	cancelled  bool // the call was given a cancelled context
}

// onlyReaderShutdown reports whether err is made of nothing but
// ErrReaderShutdown (joined any number of times) and how many there are.
// MeterProvider.ForceFlush / Shutdown call every reader and join the errors:
// such an error means "the readers that had been shut down said so", every
// other reader was flushed / shut down normally.
func onlyReaderShutdown(err error) (int, bool) {
	if err == nil {
		return 0, true
	}
	if err == sdkmetric.ErrReaderShutdown { //nolint:errorlint // leaf identity wanted
		return 1, true
	}
	if j, ok := err.(interface{ Unwrap() []error }); ok {
		n := 0
		for _, e := range j.Unwrap() {
			k, ok := onlyReaderShutdown(e)
			if !ok {
				return 0, false
			}
			n += k
		}
		return n, n > 0
	}
	return 0, false
}

type world struct {
	c       Case
	clock   vk.Clock
	byIdent map[ident]int // (scope, name, number type, monotonic) -> canonical instrument
	byName  map[string][]int
	mu      sync.Mutex
	cons    []*consumer
}

// extract deep-copies what a collection reported into harness-owned data and
// checks its structure (the SDK reuses the ResourceMetrics afterwards).
func (w *world) extract(rm *metricdata.ResourceMetrics, reader int) (map[stream]int64, map[stream]byte, []vk.Violation) {
	pts := map[stream]int64{}
	sps := map[stream]byte{}
	var probs []vk.Violation
	bad := func(kind, format string, a ...any) { probs = append(probs, vk.V(kind, format, a...)) }
	rd := w.c.Readers[reader]
	seenInst := map[int]bool{}
	for _, sm := range rm.ScopeMetrics {
		for _, m := range sm.Metrics {
			// which instrument is it? (scope, name, number type, monotonicity)
			named := w.byName[m.Name]
			if len(named) == 0 {
				bad("unknown_metric", "reader %d reported a metric %q that no instrument of the program has", reader, m.Name)
				continue
			}
			id := ident{scope: sm.Scope.Name, name: m.Name}
			switch d := m.Data.(type) {
			case metricdata.Sum[int64]:
				id.mono = d.IsMonotonic
			case metricdata.Sum[float64]:
				id.float, id.mono = true, d.IsMonotonic
			default:
				bad("wrong_data_type", "reader %d reported %T for instrument %s", reader, m.Data, m.Name)
				continue
			}
			ii, ok := w.byIdent[id]
			switch {
			case ok:
			case len(named) == 1:
				ii = named[0] // the only instrument of that name: say what is wrong with it below
			default:
				var have []string
				for _, j := range named {
					have = append(have, fmt.Sprintf("%s=%s in %s", instName(j), w.c.Insts[j].Kind, scopeName(w.c.Insts[j].Scope)))
				}
				bad("metric_matches_no_instrument", "reader %d reported metric %q under scope %q with float64=%v IsMonotonic=%v, which none of the instruments of that name is (%s)", reader, m.Name, sm.Scope.Name, id.float, id.mono, strings.Join(have, ", "))
				continue
			}
			in := w.c.Insts[ii]
			if sm.Scope.Name != scopeName(in.Scope) {
				bad("wrong_scope", "reader %d reported %s under scope %q, created by meter %q", reader, m.Name, sm.Scope.Name, scopeName(in.Scope))
			}
			if seenInst[ii] {
				bad("duplicate_metric", "reader %d reported metric %s (%s, %s) twice in one collection", reader, m.Name, instName(ii), in.Kind)
			}
			seenInst[ii] = true
			var temp metricdata.Temporality
			var mono bool
			type pt struct {
				set   attribute.Set
				units int64
				exact bool
				sp    byte
			}
			var dps []pt
			switch d := m.Data.(type) {
			case metricdata.Sum[int64]:
				if isFloat(in) {
					bad("wrong_number_kind", "reader %d reported int64 data for float64 instrument %s", reader, m.Name)
				}
				temp, mono = d.Temporality, d.IsMonotonic
				for _, dp := range d.DataPoints {
					dps = append(dps, pt{dp.Attributes, dp.Value, true, 0})
				}
			case metricdata.Sum[float64]:
				if !isFloat(in) {
					bad("wrong_number_kind", "reader %d reported float64 data for int64 instrument %s", reader, m.Name)
				}
				temp, mono = d.Temporality, d.IsMonotonic
				for _, dp := range d.DataPoints {
					switch {
					case math.IsNaN(dp.Value):
						dps = append(dps, pt{dp.Attributes, 0, true, 'n'})
						continue
					case math.IsInf(dp.Value, 1):
						dps = append(dps, pt{dp.Attributes, 0, true, '+'})
						continue
					case math.IsInf(dp.Value, -1):
						dps = append(dps, pt{dp.Attributes, 0, true, '-'})
						continue
					}
					u := math.Ldexp(dp.Value, -scaleExp(in)) // exact: a power of two
					exact := u == math.Trunc(u) && math.Abs(u) < 1<<53
					var iu int64
					if exact {
						iu = int64(u)
					}
					if !exact {
						bad("inexact_value", "reader %d reported %v for %s%s: not a sum of the recorded multiples of 2^%d", reader, dp.Value, m.Name, setKey(dp.Attributes.ToSlice()), scaleExp(in))
					}
					dps = append(dps, pt{dp.Attributes, iu, exact, 0})
				}
			default:
				bad("wrong_data_type", "reader %d reported %T for instrument %s", reader, m.Data, m.Name)
				continue
			}
			if want := tempOf(rd, isCounter(in)); temp != want {
				bad("wrong_temporality", "reader %d (%s) reported %s with temporality %v, configured %v", reader, rd.Temp, m.Name, temp, want)
			}
			if mono != isCounter(in) {
				bad("wrong_monotonic", "reader %d reported %s (%s) with IsMonotonic=%v", reader, m.Name, in.Kind, mono)
			}
			for _, dp := range dps {
				s := stream{ii, setKey(dp.set.ToSlice())}
				if _, dup := pts[s]; dup {
					bad("duplicate_point", "reader %d reported two data points for %v in one collection", reader, s)
				}
				if dp.exact {
					pts[s] += dp.units
				}
				if dp.sp != 0 {
					sps[s] = dp.sp
				}
			}
		}
	}
	return pts, sps, probs
}

var errFailCB = errors.New("c02: scripted callback failure")

var readerRe = regexp.MustCompile(`^reader (\d+) \(delta\)`)

// known holds the predicates of the open findings in known_findings.json.
var known = map[string]func(Case, vk.Violation) bool{
	// A PeriodicReader does not export a collection during which a callback
	// failed (collectAndExport: Export only when Collect returned nil) although
	// the collection has already drained the delta sums: those measurements
	// are reported by no export. Matches only missing data of a DELTA
	// PERIODIC reader in a case with a failing callback.
	"periodic_delta_dropped_when_callback_fails": func(c Case, v vk.Violation) bool {
		if c.FailCB == 0 || c.Broken != "" || c.SumView {
			return false
		}
		switch v.Kind {
		case "stream_not_reported", "delta_bracket", "delta_conservation":
		default:
			return false
		}
		msg := strings.TrimPrefix(v.Msg, lendNote) // (the note of a lent configuration, see runOnce)
		m := readerRe.FindStringSubmatch(msg)
		if m == nil {
			return false
		}
		ri, _ := strconv.Atoi(m[1])
		if ri >= len(c.Readers) || c.Readers[ri].Kind != "periodic" {
			return false
		}
		return !strings.HasSuffix(msg, ": a measurement was counted more than once")
	},
}

const lendNote = "(provider configured from option / view buffers that the caller re-used for a second provider after NewMeterProvider returned) "

type collector interface {
	Collect(context.Context, *metricdata.ResourceMetrics) error
	Shutdown(context.Context) error
}

// adder records u units (or, on a float64 instrument, the special value sp)
type adder func(ctx context.Context, u int64, sp byte, opt ...metric.AddOption)

// ---------------------------------------------------------------------
// bracket arithmetic

type bound struct {
	lo, hi  int64
	mustCnt int // adds that must be contained
	mayCnt  int // further adds that may be contained
	// special values among them: +Inf, -Inf, NaN ([0] must, [1] may)
	pinf, ninf, nan [2]int
	// hiPos: the positive units of all of them (the largest partial sum any
	// order of the Adds can reach; decides whether a huge-scale stream can
	// overflow to +Inf)
	hiPos int64
}

// bounds: adds that returned before tMust must be contained, adds issued
// before tMay may be.
func bounds(as []*addRec, tMust, tMay int64) bound {
	var b bound
	for _, a := range as {
		k := -1
		switch {
		case a.end < tMust:
			k = 0
			b.mustCnt++
			b.lo += a.units
			b.hi += a.units
		case a.start < tMay:
			k = 1
			b.mayCnt++
			if a.units < 0 {
				b.lo += a.units
			} else {
				b.hi += a.units
			}
		}
		if k < 0 {
			continue
		}
		if a.units > 0 {
			b.hiPos += a.units
		}
		switch a.sp {
		case '+':
			b.pinf[k]++
		case '-':
			b.ninf[k]++
		case 'n':
			b.nan[k]++
		}
	}
	return b
}

// obs is what a set of collections of one reader reported for one stream,
// added up: finite units and how many of the points were +Inf / -Inf / NaN.
//
// Reference arithmetic for special values. IEEE addition of a multiset that
// contains non-finite members does not depend on the order or on how the
// multiset is partitioned into collections: the result is NaN if it contains
// a NaN or infinities of both signs, else the infinity it contains, else the
// (exact) finite sum. The same holds for "the sum of what the collections
// reported": a collection that covers a +Inf reports +Inf (or NaN), and so on.
// Both sides are therefore reduced to a class (finite u | +Inf | -Inf | NaN)
// and compared as classes; NaN is compared as NaN.
type obs struct {
	u       int64
	p, n, q int
	seen    bool
}

func (o *obs) add(co *consumer, s stream) {
	v, ok := co.pts[s]
	o.u += v
	o.seen = o.seen || ok
	switch co.sp[s] {
	case '+':
		o.p++
	case '-':
		o.n++
	case 'n':
		o.q++
	}
}

func one(co *consumer, s stream) obs {
	var o obs
	o.add(co, s)
	return o
}

// class: 0 finite, '+', '-', 'n'.
func (o obs) class(huge bool) byte {
	switch {
	case o.q > 0 || (o.p > 0 && o.n > 0):
		return 'n'
	case o.p > 0:
		return '+'
	case o.n > 0:
		return '-'
	case huge && o.u >= top:
		return '+' // the reported (finite) values themselves add up to +Inf
	}
	return 0
}

func (o obs) str(huge bool) string {
	switch o.class(huge) {
	case 'n':
		return "NaN"
	case '+':
		return "+Inf"
	case '-':
		return "-Inf"
	}
	return fmt.Sprintf("%d units", o.u)
}

// ext is the value as an extended real (monotonicity comparisons).
func (o obs) ext(huge bool) float64 {
	switch o.class(huge) {
	case 'n':
		return math.NaN()
	case '+':
		return math.Inf(1)
	case '-':
		return math.Inf(-1)
	}
	return float64(o.u)
}

// fits: can o be the sum of the must-Adds and of some of the may-Adds?
// lost says whether a mismatch looks like a loss (as opposed to a double
// count / an invented value).
func fits(o obs, b bound, huge bool) (ok, lost bool) {
	anyP := b.pinf[0]+b.pinf[1] > 0 || (huge && b.hiPos >= top)
	anyN := b.ninf[0]+b.ninf[1] > 0
	anyQ := b.nan[0]+b.nan[1] > 0
	mustSpecial := b.pinf[0] > 0 || b.ninf[0] > 0 || b.nan[0] > 0
	switch o.class(huge) {
	case 'n':
		return anyQ || (anyP && anyN), false
	case '+':
		return anyP && b.ninf[0] == 0 && b.nan[0] == 0, false
	case '-':
		return anyN && b.pinf[0] == 0 && b.nan[0] == 0, false
	}
	if mustSpecial {
		return false, true
	}
	// (huge scale: a finite result below 2^53 units; when the must-Adds alone
	// reach 2^53 units - lo counts the negative may-Adds too - no order of the
	// Adds avoids the overflow)
	if o.u < b.lo || o.u > b.hi || (huge && o.u >= top) {
		return false, o.u < b.lo
	}
	return true, false
}

// allows renders what a bracket allows.
func (b bound) allows(huge bool) string {
	s := fmt.Sprintf("[%d, %d] units", b.lo, b.hi)
	note := func(name string, c [2]int) {
		if c[0] > 0 {
			s += fmt.Sprintf("; %d Add(s) of %s among the Adds that had returned", c[0], name)
		}
		if c[1] > 0 {
			s += fmt.Sprintf("; %d Add(s) of %s among the further Adds", c[1], name)
		}
	}
	note("+Inf", b.pinf)
	note("-Inf", b.ninf)
	note("NaN", b.nan)
	if huge && b.hiPos >= top {
		s += fmt.Sprintf("; the positive values add up to %d units >= 2^53 = more than MaxFloat64 (+Inf in IEEE arithmetic)", b.hiPos)
	}
	return s
}

const never = int64(1) << 62

func hint(in Inst, below bool, o ...obs) string {
	switch {
	case len(o) > 0 && (o[0].p > 0 || o[0].n > 0 || o[0].q > 0):
		return "a non-finite value was reported that no recorded measurement explains"
	case !isCounter(in):
		return "a measurement was lost or counted more than once"
	case below:
		return "a measurement was lost"
	}
	return "a measurement was counted more than once"
}

// ---------------------------------------------------------------------

func runOnce(c Case) ([]vk.Violation, map[string]bool) {
	var vs []vk.Violation
	classes := map[string]bool{}
	bad := func(kind, format string, a ...any) {
		if len(vs) < 40 {
			vs = append(vs, vk.V(kind, format, a...))
		}
	}
	if len(c.Insts) == 0 || len(c.Sets) == 0 || len(c.Readers) == 0 {
		return nil, classes
	}
	errs := &vk.ErrCapture{}
	otel.SetErrorHandler(errs)

	canon := canonical(c)
	w := &world{c: c, byIdent: map[ident]int{}, byName: map[string][]int{}}
	for ii := range c.Insts {
		if canon[ii] == ii {
			w.byIdent[identOf(c, ii)] = ii
			w.byName[metricName(c, ii)] = append(w.byName[metricName(c, ii)], ii)
		}
	}
	clock := &w.clock

	// ---- provider, readers, instruments ----
	opts := []sdkmetric.Option{sdkmetric.WithResource(resource.Empty())}
	colls := make([]collector, len(c.Readers))
	exps := make([]*recExporter, len(c.Readers))
	var ld *lender // the configuring caller re-uses its buffers (lend_test.go)
	if c.Lend != nil {
		ld = newLender(c)
	}
	for ri, rd := range c.Readers {
		if rd.Kind == "periodic" {
			exps[ri] = &recExporter{w: w, reader: ri, spec: rd}
			iv := time.Duration(rd.IntervalUs) * time.Microsecond
			if iv < 500*time.Microsecond {
				iv = 500 * time.Microsecond
			}
			popts := []sdkmetric.PeriodicReaderOption{}
			if ld != nil {
				popts = ld.popts[:0]
			}
			popts = append(popts, sdkmetric.WithInterval(iv))
			pr := sdkmetric.NewPeriodicReader(exps[ri], popts...)
			if ld != nil {
				ld.scribbleReaderOpts() // NewPeriodicReader has returned
			}
			colls[ri] = pr
			opts = append(opts, sdkmetric.WithReader(pr))
		} else {
			mopts := []sdkmetric.ManualReaderOption{}
			if ld != nil {
				mopts = ld.mopts[:0]
			}
			mopts = append(mopts, sdkmetric.WithTemporalitySelector(selector(rd)))
			if rd.DropDefault && c.SumView {
				mopts = append(mopts, sdkmetric.WithAggregationSelector(func(sdkmetric.InstrumentKind) sdkmetric.Aggregation { return sdkmetric.AggregationDrop{} }))
			}
			mr := sdkmetric.NewManualReader(mopts...)
			if ld != nil {
				ld.scribbleReaderOpts() // NewManualReader has returned
			}
			colls[ri] = mr
			opts = append(opts, sdkmetric.WithReader(mr))
		}
	}
	if c.SumView && ld == nil {
		opts = append(opts, sdkmetric.WithView(sdkmetric.NewView(sdkmetric.Instrument{Name: "*"}, sdkmetric.Stream{Aggregation: sdkmetric.AggregationSum{}})))
	}
	if c.Broken != "" {
		br := sdkmetric.WithReader(sdkmetric.NewManualReader(sdkmetric.WithAggregationSelector(func(sdkmetric.InstrumentKind) sdkmetric.Aggregation {
			return sdkmetric.AggregationLastValue{}
		})))
		if c.Broken == "first" {
			opts = append([]sdkmetric.Option{opts[0], br}, opts[1:]...)
		} else {
			opts = append(opts, br)
		}
	}
	var mp *sdkmetric.MeterProvider
	if ld != nil {
		mp = ld.provider(c, opts, classes)
	} else {
		mp = sdkmetric.NewMeterProvider(opts...)
	}
	var meters []metric.Meter
	if !c.Lazy || c.FailCB != 0 { // (lazy: the meters' first use is concurrent too)
		meters = []metric.Meter{mp.Meter(scopeName(0)), mp.Meter(scopeName(1))}
	}
	adders := make([]adder, len(c.Insts))
	for ii, in := range c.Insts {
		name := metricName(c, ii)
		fin := c.Insts[canon[ii]] // (handles of one instrument share its unit)
		if c.Lazy {
			sc, kind := scopeName(in.Scope&1), in.Kind
			adders[ii] = func(ctx context.Context, u int64, sp byte, o ...metric.AddOption) {
				m := mp.Meter(sc)
				switch kind {
				case "i64c":
					x, _ := m.Int64Counter(name)
					x.Add(ctx, u, o...)
				case "f64c":
					x, _ := m.Float64Counter(name)
					x.Add(ctx, floatOf(fin, u, sp), o...)
				case "i64u":
					x, _ := m.Int64UpDownCounter(name)
					x.Add(ctx, u, o...)
				default:
					x, _ := m.Float64UpDownCounter(name)
					x.Add(ctx, floatOf(fin, u, sp), o...)
				}
			}
			classes["instruments_obtained_at_every_add(concurrent_first_use)"] = true
			continue
		}
		m := meters[in.Scope&1]
		var err error
		switch in.Kind {
		case "i64c":
			var x metric.Int64Counter
			x, err = m.Int64Counter(name)
			adders[ii] = func(ctx context.Context, u int64, _ byte, o ...metric.AddOption) { x.Add(ctx, u, o...) }
		case "f64c":
			var x metric.Float64Counter
			x, err = m.Float64Counter(name)
			adders[ii] = func(ctx context.Context, u int64, sp byte, o ...metric.AddOption) { x.Add(ctx, floatOf(fin, u, sp), o...) }
		case "i64u":
			var x metric.Int64UpDownCounter
			x, err = m.Int64UpDownCounter(name)
			adders[ii] = func(ctx context.Context, u int64, _ byte, o ...metric.AddOption) { x.Add(ctx, u, o...) }
		default:
			var x metric.Float64UpDownCounter
			x, err = m.Float64UpDownCounter(name)
			adders[ii] = func(ctx context.Context, u int64, sp byte, o ...metric.AddOption) { x.Add(ctx, floatOf(fin, u, sp), o...) }
		}
		// (with the explicit sum view the misconfigured reader's default never
		// comes into play: no error then)
		brokenBites := c.Broken != "" && !c.SumView
		if err != nil && !brokenBites {
			bad("instrument_creation", "creating %s %s: %v", in.Kind, name, err)
		}
		if err == nil && brokenBites {
			bad("instrument_creation", "creating %s %s reported no error although one reader asks for an aggregation that is incompatible with it", in.Kind, name)
		}
	}
	// (not together with the match-all sum view or the misconfigured reader:
	// creating the gauge would itself report an error there)
	if c.FailCB != 0 && c.Broken == "" && !c.SumView {
		var calls atomic.Int64
		fail := func() error {
			if c.FailCB == 3 && calls.Add(1)%2 == 0 {
				return nil
			}
			return errFailCB
		}
		if c.FailCB == 2 {
			g, err := meters[1].Int64ObservableGauge("failing_gauge")
			if err == nil {
				_, err = meters[1].RegisterCallback(func(context.Context, metric.Observer) error { return fail() }, g)
			}
			if err != nil {
				bad("instrument_creation", "registering the failing callback: %v", err)
			}
		} else if _, err := meters[0].Int64ObservableGauge("failing_gauge", metric.WithInt64Callback(func(context.Context, metric.Int64Observer) error { return fail() })); err != nil {
			bad("instrument_creation", "creating the failing gauge: %v", err)
		}
		classes["unrelated_callback_fails"] = true
	}
	attrs := make([][]attribute.KeyValue, len(c.Sets))
	asets := make([]attribute.Set, len(c.Sets))
	keys := make([]string, len(c.Sets))
	for si, kvs := range c.Sets {
		attrs[si] = vk.ToAttrs(kvs)
		asets[si] = attribute.NewSet(vk.ToAttrs(kvs)...)
		// the model key comes from the case's own list (last value wins per key)
		last := map[attribute.Key]attribute.KeyValue{}
		for _, kv := range attrs[si] {
			last[kv.Key] = kv
		}
		var uniq []attribute.KeyValue
		for _, kv := range last {
			uniq = append(uniq, kv)
		}
		keys[si] = setKey(uniq)
	}

	// ---- number the adds ----
	var adds []*addRec
	bud := budget{}
	newAdd := func(op Op, where string) *addRec {
		ii := idx(op.I, len(c.Insts))
		in := c.Insts[canon[ii]]
		a := &addRec{id: len(adds), inst: canon[ii], raw: ii, set: keys[idx(op.S, len(c.Sets))], where: where}
		if a.sp = special(op, in); a.sp == 0 {
			a.units = bud.take(stream{a.inst, a.set}, in, units(op, in))
		}
		adds = append(adds, a)
		return a
	}
	slot := make([][][]*addRec, len(c.Phases))
	for pi, ph := range c.Phases {
		slot[pi] = make([][]*addRec, len(ph))
		for g, ops := range ph {
			slot[pi][g] = make([]*addRec, len(ops))
			for oi, op := range ops {
				if op.K == "add" {
					slot[pi][g][oi] = newAdd(op, fmt.Sprintf("phase %d", pi))
				}
			}
		}
	}
	lateConc := make([]*addRec, len(c.LateConc))
	for i, op := range c.LateConc {
		lateConc[i] = newAdd(op, "late_conc")
	}
	late := make([]*addRec, len(c.Late))
	for i, op := range c.Late {
		late[i] = newAdd(op, "late")
	}

	ctx := context.Background()
	doAdd := func(a *addRec, op Op) {
		si := idx(op.S, len(c.Sets))
		var o []metric.AddOption
		list := attrs[si]
		switch {
		case op.M == 1 && len(list) >= 2:
			h := len(list) / 2
			o = []metric.AddOption{metric.WithAttributes(list[:h]...), metric.WithAttributes(list[h:]...)}
		case op.M == 2 && len(list) >= 2:
			// last value per key, then one option per key in descending key order
			last := map[attribute.Key]attribute.KeyValue{}
			for _, kv := range list {
				last[kv.Key] = kv
			}
			ks := make([]string, 0, len(last))
			for k := range last {
				ks = append(ks, string(k))
			}
			sort.Sort(sort.Reverse(sort.StringSlice(ks)))
			for _, k := range ks {
				o = append(o, metric.WithAttributes(last[attribute.Key(k)]))
			}
		case op.M == 3 && len(list) >= 2:
			h := len(list) / 2
			o = []metric.AddOption{metric.WithAttributeSet(attribute.NewSet(append([]attribute.KeyValue{}, list[:h]...)...)), metric.WithAttributes(list[h:]...)}
		case op.M == 4 && len(list) == 0:
			o = nil // no option at all: the empty attribute set
		case op.A:
			o = []metric.AddOption{metric.WithAttributes(list...)}
		default:
			o = []metric.AddOption{metric.WithAttributeSet(asets[si])}
		}
		a.start = clock.Tick()
		adders[a.raw](ctx, a.units, a.sp, o...)
		a.end = clock.Tick()
		a.done = true
	}
	// measurements recorded from inside Export (Reader.ExpAdd)
	var xmu sync.Mutex
	var extra []*addRec
	for ri, e := range exps {
		if e == nil || !c.Readers[ri].ExpAdd {
			continue
		}
		ii := ri % len(c.Insts)
		op := Op{K: "add", I: ii, S: 0, V: exportAddUnits}
		fn := func() {
			a := &addRec{inst: canon[ii], raw: ii, set: keys[0], units: exportAddUnits, where: "export"}
			doAdd(a, op)
			xmu.Lock()
			extra = append(extra, a)
			xmu.Unlock()
		}
		e.mu.Lock()
		e.addFn = fn
		e.mu.Unlock()
	}
	var collectErrs atomic.Int32
	var classesMu sync.Mutex
	dead, kill := context.WithCancel(ctx)
	kill()
	ctxFor := func(cancelled bool) context.Context {
		if cancelled {
			return dead
		}
		return ctx
	}
	doCollect := func(ri int, rm *metricdata.ResourceMetrics, cancelled bool) *consumer {
		start := clock.Tick()
		err := colls[ri].Collect(ctxFor(cancelled), rm)
		end := clock.Tick()
		if err != nil && c.FailCB != 0 && errors.Is(err, errFailCB) {
			// only the unrelated callback failed: the collection was made
			classesMu.Lock()
			classes["collect_reported_callback_error_with_data"] = true
			classesMu.Unlock()
			err = nil
		}
		if err != nil {
			collectErrs.Add(1)
			return nil
		}
		pts, sps, probs := w.extract(rm, ri)
		co := &consumer{reader: ri, start: start, end: end, pts: pts, sp: sps, probs: probs}
		w.mu.Lock()
		w.cons = append(w.cons, co)
		w.mu.Unlock()
		return co
	}
	var cmu sync.Mutex
	var calls []*callRec
	doCall := func(kind string, cancelled bool, reader ...int) *callRec {
		r := &callRec{kind: kind, reader: -1, cancelled: cancelled}
		r.start = clock.Tick()
		switch kind {
		case "flush":
			r.err = mp.ForceFlush(ctxFor(cancelled))
		case "reader_shutdown":
			r.reader = reader[0]
			r.err = colls[r.reader].Shutdown(ctx)
		case "reader_flush":
			r.reader = reader[0]
			r.err = colls[r.reader].(*sdkmetric.PeriodicReader).ForceFlush(ctxFor(cancelled))
		default:
			r.err = mp.Shutdown(ctx)
		}
		r.end = clock.Tick()
		cmu.Lock()
		calls = append(calls, r)
		cmu.Unlock()
		return r
	}

	// ---- the program ----
	for pi, ph := range c.Phases {
		vk.Parallel(len(ph), func(g int) {
			reused := &metricdata.ResourceMetrics{}
			for oi, op := range ph[g] {
				vk.Perturb(op.P)
				switch op.K {
				case "add":
					doAdd(slot[pi][g][oi], op)
				case "collect":
					for rep := 0; rep <= repeats(op); rep++ {
						rm := reused
						if op.F {
							rm = &metricdata.ResourceMetrics{}
						}
						_ = doCollect(idx(op.R, len(c.Readers)), rm, op.X)
					}
				case "flush":
					for rep := 0; rep <= repeats(op); rep++ {
						doCall("flush", op.X)
					}
				case "reader_shutdown":
					doCall("reader_shutdown", false, idx(op.R, len(c.Readers)))
				case "reader_flush":
					if ri := idx(op.R, len(c.Readers)); c.Readers[ri].Kind == "periodic" {
						for rep := 0; rep <= repeats(op); rep++ {
							doCall("reader_flush", op.X, ri)
						}
					}
				case "sleep":
					time.Sleep(sleepFor(op.D))
				}
			}
		})
	}
	midCollectErrs := collectErrs.Load()

	// ---- closing section ----
	finalCollect := make([]*consumer, len(c.Readers))
	for ri, rd := range c.Readers {
		if rd.Kind != "periodic" {
			finalCollect[ri] = doCollect(ri, &metricdata.ResourceMetrics{}, false)
		}
	}
	var shutdown *callRec
	if len(lateConc) > 0 {
		vk.Parallel(2, func(g int) {
			if g == 0 {
				shutdown = doCall("shutdown", false)
				return
			}
			for i, a := range lateConc {
				vk.Perturb(c.LateConc[i].P)
				doAdd(a, c.LateConc[i])
			}
		})
	} else {
		shutdown = doCall("shutdown", false)
	}
	for i, a := range late {
		doAdd(a, c.Late[i])
	}
	lateCollected := 0
	for ri := range c.Readers {
		if doCollect(ri, &metricdata.ResourceMetrics{}, false) != nil {
			lateCollected++
		}
	}
	_ = mp.ForceFlush(ctx) // only: does not panic
	_ = mp.Shutdown(ctx)   // second Shutdown: only: does not panic

	// ---- oracle ----
	w.mu.Lock()
	cons := append([]*consumer{}, w.cons...)
	w.mu.Unlock()
	xmu.Lock()
	for _, a := range extra {
		a.id = len(adds)
		adds = append(adds, a)
	}
	if len(extra) > 0 {
		classes["measurement_recorded_inside_export"] = true
	}
	xmu.Unlock()
	byStream := map[stream][]*addRec{}
	for _, a := range adds {
		if a.done {
			s := stream{a.inst, a.set}
			byStream[s] = append(byStream[s], a)
		}
	}
	for _, co := range cons {
		for _, p := range co.probs {
			bad(p.Kind, "%s", p.Msg)
		}
		if co.export && co.exit == 0 {
			co.exit = never
		}
	}

	for ri, rd := range c.Readers {
		var rc []*consumer
		var exports []*consumer
		for _, co := range cons {
			if co.reader == ri {
				rc = append(rc, co)
				if co.export {
					exports = append(exports, co)
				}
			}
		}
		sort.Slice(exports, func(i, j int) bool { return exports[i].end < exports[j].end })
		byEnd := append([]*consumer{}, rc...)
		sort.Slice(byEnd, func(i, j int) bool { return byEnd[i].end < byEnd[j].end })
		periodic := rd.Kind == "periodic"
		exportsSequential := !periodic || exps[ri].overlap.Load() == 0

		// streams of this reader: model + observed
		streams := map[stream]bool{}
		for s := range byStream {
			streams[s] = true
		}
		for _, co := range rc {
			for s := range co.pts {
				streams[s] = true
			}
		}
		var ordered []stream
		for s := range streams {
			ordered = append(ordered, s)
		}
		sort.Slice(ordered, func(i, j int) bool {
			if ordered[i].inst != ordered[j].inst {
				return ordered[i].inst < ordered[j].inst
			}
			return ordered[i].set < ordered[j].set
		})

		// the calls that act as a flush of this reader
		type flushPoint struct {
			what       string
			start, end int64
			final      bool
		}
		var fps []flushPoint
		// Direct Shutdown calls on this reader: its pipeline ends there. The call
		// that returned nil performed the reader's final collection (periodic).
		firstDirect := never // first direct Shutdown issued on this reader
		for _, r := range calls {
			if r.kind == "reader_shutdown" && r.reader == ri && r.start < firstDirect {
				firstDirect = r.start
			}
		}
		// flushes decides whether a ForceFlush / Shutdown call that returned err
		// flushed this reader all the same (see classifyErr): nil, or an error
		// made of ErrReaderShutdown (no more of them than readers the program had
		// shut down directly by then: the provider calls every reader and joins
		// the errors) and of errors of the harness' exporters, which are returned
		// after the collection was made and handed over.
		flushes := func(r *callRec) bool {
			if r.err == nil {
				return true
			}
			k := classifyErr(r.err, r.cancelled)
			if k.excused != "" {
				classes[r.kind+"_not_a_flush_point:"+k.excused] = true
				return false
			}
			direct := map[int]bool{}
			for _, d := range calls {
				if d.kind == "reader_shutdown" && d.start < r.end {
					direct[d.reader] = true
				}
			}
			if k.readerShutdown > len(direct) {
				classes[r.kind+"_returned_error"] = true
				return false
			}
			if k.readerShutdown > 0 {
				classes[r.kind+"_reported_only_reader_is_shutdown"] = true
			}
			if k.exporter > 0 {
				classes[r.kind+"_reported_exporter_error(flush point all the same)"] = true
			}
			if k.unexplained > 0 {
				classes[r.kind+"_reported_unexplained_error(flush point all the same)"] = true
			}
			return true
		}
		var ownShutdown *callRec
		if periodic {
			for _, r := range calls {
				switch r.kind {
				case "reader_shutdown":
					// the direct Shutdown call that did the work (the others only
					// report ErrReaderShutdown) performed the reader's final collection
					if r.reader == ri && r.err != sdkmetric.ErrReaderShutdown && ownShutdown == nil && flushes(r) { //nolint:errorlint // identity wanted
						ownShutdown = r
					}
					continue
				case "reader_flush":
					if r.reader != ri {
						continue
					}
				}
				if r.kind != "shutdown" && shutdown != nil && r.end > shutdown.start {
					continue // overlaps or follows Shutdown
				}
				if r.kind == "shutdown" && r != shutdown {
					continue
				}
				if r.end > firstDirect {
					continue // this reader was (being) shut down directly: the call does not reach it
				}
				if !flushes(r) {
					continue
				}
				name := map[string]string{"flush": "ForceFlush", "shutdown": "Shutdown", "reader_flush": "ForceFlush of the reader itself"}[r.kind]
				fps = append(fps, flushPoint{fmt.Sprintf("%s (t=%d..%d)", name, r.start, r.end), r.start, r.end, r.kind == "shutdown"})
			}
			if ownShutdown != nil {
				fps = append(fps, flushPoint{fmt.Sprintf("Shutdown of the reader itself (t=%d..%d)", ownShutdown.start, ownShutdown.end), ownShutdown.start, ownShutdown.end, true})
			}
			// payloads handed over after the reader had shut its exporter down
			closedAt, refused, lateOK := exps[ri].state()
			if len(refused) > 0 {
				classes["payload_refused_by_exporter_after_its_shutdown"] = true
				n := 0
				for _, co := range refused {
					n += len(co.pts)
				}
				note := fmt.Sprintf(" [the reader called Shutdown of its exporter at t=%d and handed it %d payload(s) with %d data points AFTERWARDS (first at t=%d): an exporter that follows the documented contract performs no operation then, those points are reported nowhere]", closedAt, len(refused), n, refused[0].end)
				for i := range fps {
					if fps[i].final {
						fps[i].what += note
					}
				}
			}
			if lateOK > 0 {
				classes["payload_handed_to_lenient_exporter_after_its_shutdown"] = true
			}
		}
		if firstDirect != never {
			classes["reader_shut_down_directly"] = true
			if ri == 0 {
				classes["first_registered_reader_shut_down_directly"] = true
			}
			if ri < len(c.Readers)-1 {
				classes["reader_shut_down_directly_before_a_later_registered_one"] = true
			}
		}

		for _, s := range ordered {
			if s.inst < 0 || s.inst >= len(c.Insts) {
				continue
			}
			in := c.Insts[s.inst]
			as := byStream[s]
			delta := tempOf(rd, isCounter(in)) == metricdata.DeltaTemporality
			huge := isFloat(in) && in.Scale == "huge"

			if delta {
				// D1: what has been reported by T was issued before T.
				var run obs
				for _, co := range byEnd {
					run.add(co, s)
					b := bounds(as, -1, co.end)
					if run.seen && b.mayCnt == 0 {
						bad("phantom_stream", "reader %d (delta): %v reported by t=%d although no Add on it had been issued by then", ri, s, co.end)
						break
					}
					if ok, lost := fits(run, b, huge); !ok {
						bad("delta_overcount", "reader %d (delta) %v: the collections completed by t=%d add up to %s, but the %d Adds issued by then allow only %s: %s", ri, s, co.end, run.str(huge), b.mayCnt, b.allows(huge), hint(in, lost, run))
						break
					}
				}
				// D2 / D3: what was recorded before a collection / flush was issued has been reported.
				check := func(what string, tMust, tIn int64, final bool) bool {
					var sum obs
					maxEnd := int64(-1)
					for _, co := range rc {
						st := co.start
						if co.export {
							st = co.end
						}
						if st < tIn {
							sum.add(co, s)
							if co.end > maxEnd {
								maxEnd = co.end
							}
						}
					}
					b := bounds(as, tMust, maxEnd)
					kind := "delta_bracket"
					if final {
						kind = "delta_conservation"
					}
					if b.mustCnt > 0 && !sum.seen {
						bad("stream_not_reported", "reader %d (delta): %v was never reported up to %s although %d Adds on it had returned before", ri, s, what, b.mustCnt)
						return false
					}
					if ok, lost := fits(sum, b, huge); !ok {
						bad(kind, "reader %d (delta) %v: everything reported up to %s adds up to %s; the %d Adds that had returned before it was issued and the %d further Adds issued so far allow %s: %s", ri, s, what, sum.str(huge), b.mustCnt, b.mayCnt, b.allows(huge), hint(in, lost, sum))
						return false
					}
					return true
				}
				if !periodic {
					for _, co := range rc {
						if !check(co.label(), co.start, co.end, co == finalCollect[ri]) {
							break
						}
					}
				} else {
					for _, fp := range fps {
						if !check(fp.what, fp.start, fp.end, fp.final) {
							break
						}
					}
				}
				continue
			}

			// ---- cumulative ----
			// (classes: long histories during which the stream stays idle)
			if len(byEnd) > 32 && len(as) > 0 {
				byStart := append([]*addRec{}, as...)
				sort.Slice(byStart, func(i, j int) bool { return byStart[i].start < byStart[j].start })
				between := func(lo, hi int64) int { // collections completed in (lo, hi)
					i := sort.Search(len(byEnd), func(k int) bool { return byEnd[k].end > lo })
					j := sort.Search(len(byEnd), func(k int) bool { return byEnd[k].end >= hi })
					return j - i
				}
				busyUntil := int64(-1)
				for i, a := range byStart {
					if i > 0 && a.start > busyUntil {
						if n := between(busyUntil, a.start); n > 32 {
							classes["cumulative_stream_measured_again_after_more_than_32_idle_collections"] = true
							if n > 100 {
								classes["cumulative_stream_measured_again_after_more_than_100_idle_collections"] = true
							}
						}
					}
					if a.end > busyUntil {
						busyUntil = a.end
					}
				}
				if between(busyUntil, never) > 32 {
					classes["cumulative_stream_idle_through_its_last_33_or_more_collections"] = true
				}
			}
			for _, co := range rc {
				v := one(co, s)
				tMust := co.start // -1 for an export: no lower bound
				b := bounds(as, tMust, co.end)
				kind := "cumulative_bracket"
				if co == finalCollect[ri] {
					kind = "cumulative_final"
				}
				fit, _ := fits(v, b, huge)
				switch {
				case v.seen && b.mustCnt+b.mayCnt == 0:
					bad("phantom_stream", "reader %d (cumulative): %v reported by %s although no Add on it had been issued by then", ri, s, co.label())
				case !v.seen && b.mustCnt > 0:
					bad("stream_not_reported", "reader %d (cumulative): %v missing from %s although %d Adds on it had returned before", ri, s, co.label(), b.mustCnt)
				case v.seen && !fit:
					must := bounds(as, tMust, tMust)
					bad(kind, "reader %d (cumulative) %v: %s reports %s; the %d Adds returned before it was issued allow %s, with the Adds issued before it returned %s", ri, s, co.label(), v.str(huge), must.mustCnt, must.allows(huge), b.allows(huge))
				default:
					continue
				}
				break
			}
			for _, fp := range fps {
				b0 := bounds(as, fp.start, fp.start)
				if b0.mustCnt == 0 {
					continue
				}
				var cands []*consumer
				if fp.final {
					if len(exports) > 0 {
						cands = exports[len(exports)-1:]
					}
				} else {
					for _, co := range rc {
						st := co.start
						if co.export {
							st = co.end
						}
						if st < fp.end {
							cands = append(cands, co)
						}
					}
				}
				okAny := false
				var lastV obs
				for _, co := range cands {
					v := one(co, s)
					b := bounds(as, fp.start, co.end)
					if fit, _ := fits(v, b, huge); v.seen && fit {
						okAny = true
					}
					lastV = v
				}
				if !okAny {
					if fp.final {
						bad("cumulative_final", "reader %d (cumulative) %v: the last payload handed to the exporter reports %s (present=%v, of %d payloads), the Adds returned before %s was issued allow %s", ri, s, lastV.str(huge), lastV.seen, len(exports), fp.what, b0.allows(huge))
					} else {
						bad("cumulative_not_flushed", "reader %d (cumulative) %v: no collection up to the return of %s contains the %d Adds (%s) that had returned before it was issued", ri, s, fp.what, b0.mustCnt, b0.allows(huge))
					}
					break
				}
			}
			if isCounter(in) {
				// never decreases (+Inf is the largest value; a NaN compares with nothing)
				if exportsSequential {
					for i := 1; i < len(exports); i++ {
						p, q := one(exports[i-1], s), one(exports[i], s)
						if p.seen && (!q.seen || q.ext(huge) < p.ext(huge)) {
							bad("cumulative_decreased", "reader %d %v: successive payloads (t=%d, t=%d) report %s then %s (present=%v)", ri, s, exports[i-1].end, exports[i].end, p.str(huge), q.str(huge), q.seen)
							break
						}
					}
				}
			mono:
				for _, a := range rc {
					for _, b := range rc {
						if b.export || a.end >= b.start {
							continue
						}
						p, q := one(a, s), one(b, s)
						if p.seen && (!q.seen || q.ext(huge) < p.ext(huge)) {
							bad("cumulative_decreased", "reader %d %v: %s reports %s, the later %s reports %s (present=%v)", ri, s, a.label(), p.str(huge), b.label(), q.str(huge), q.seen)
							break mono
						}
					}
				}
			}
		}
	}

	// ---- classes ----
	perReader := map[int]int{}
	for _, co := range cons {
		perReader[co.reader]++
		for _, z := range co.sp {
			classes["reported_non_finite_value:"+map[byte]string{'+': "+Inf", '-': "-Inf", 'n': "NaN"}[z]] = true
		}
	}
	for _, n := range perReader {
		if n > 32 {
			classes["reader_with_more_than_32_collections"] = true
		}
		if n > 100 {
			classes["reader_with_more_than_100_collections"] = true
		}
	}
	for s, as := range byStream {
		in := c.Insts[s.inst]
		b := bounds(as, never, never)
		if b.mustCnt == 0 {
			continue
		}
		kind := map[bool]string{true: "counter", false: "updown"}[isCounter(in)]
		if len(as) >= 20 {
			classes["stream_with_20_or_more_adds"] = true
		}
		switch {
		case b.nan[0] > 0:
			classes["stream_total:NaN(recorded NaN)"] = true
		case b.pinf[0] > 0 && b.ninf[0] > 0:
			classes["stream_total:NaN(+Inf and -Inf recorded)"] = true
		case b.pinf[0] > 0:
			classes["stream_total:+Inf_recorded_on_"+kind] = true
		case b.ninf[0] > 0:
			classes["stream_total:-Inf_recorded_on_"+kind] = true
		case isFloat(in) && in.Scale == "huge" && b.lo >= top:
			classes["stream_total:finite_values_overflow_to_+Inf_on_"+kind] = true
		case isFloat(in) && in.Scale == "huge" && b.hiPos >= top:
			classes["stream_total:+Inf_or_exact(order dependent overflow, both accepted)"] = true
		case isFloat(in) && in.Scale == "huge" && b.lo >= top/4:
			classes["stream_total:above_2^1022"] = true
		case isFloat(in) && in.Scale == "sub" && b.lo != 0 && b.lo < top/2 && b.lo > -top/2:
			classes["stream_total:subnormal"] = true
		case isFloat(in) && in.Scale == "sub" && b.lo != 0:
			classes["stream_total:sum_of_subnormals_is_normal"] = true
		case !isFloat(in) && (b.lo >= top || b.lo <= -top):
			classes["stream_total:int64_beyond_2^53"] = true
			for _, a := range as {
				if a.units >= top || a.units <= -top {
					classes["int64_add_of_a_value_beyond_2^53"] = true
				}
			}
		case isFloat(in) && in.Scale == "" && (b.lo >= top/8 || b.lo <= -top/8):
			classes["stream_total:float64_needs_50_or_more_mantissa_bits"] = true
		}
	}
	okCollections := len(cons)
	if okCollections >= 2 {
		classes["two_or_more_collections"] = true
	}
	prevExit := map[int]int64{}
	sortedCons := append([]*consumer{}, cons...)
	sort.Slice(sortedCons, func(i, j int) bool { return sortedCons[i].end < sortedCons[j].end })
	for _, co := range sortedCons {
		lo := co.start
		if co.export {
			lo = prevExit[co.reader]
			prevExit[co.reader] = co.exit
			inFlush := false
			for _, r := range calls {
				if r.start < co.end && co.end < r.end {
					inFlush = true
				}
			}
			if !inFlush {
				classes["interval_export_observed"] = true
			}
			if len(co.pts) > 0 {
				classes["non_empty_export"] = true
			}
		} else if c.Readers[co.reader].Kind == "periodic" {
			classes["user_collect_on_periodic_reader"] = true
		}
		for _, a := range adds {
			if a.done && a.where != "late" && a.start < co.end && lo < a.end {
				if co.export {
					classes["export_may_overlap_add"] = true
				} else {
					classes["collect_overlaps_add"] = true
				}
				break
			}
		}
	}
	for _, r := range calls {
		if r.kind != "flush" {
			continue
		}
		for _, a := range adds {
			if a.done && a.start < r.end && r.start < a.end {
				classes["forceflush_overlaps_add"] = true
				break
			}
		}
	}
	if midCollectErrs > 0 {
		classes["collect_returned_error"] = true
	}
	if lateCollected > 0 {
		classes["collect_succeeded_after_shutdown"] = true
	}
	if len(errs.Errors()) > 0 {
		// e.g. ErrReaderNotRegistered: a 1 ms ticker of a PeriodicReader may fire
		// before NewMeterProvider has registered the reader; nothing is recorded yet.
		classes["otel_error_handler_called"] = true
	}
	for _, e := range exps {
		if e != nil && e.overlap.Load() > 0 {
			classes["overlapping_export_calls"] = true
		}
	}

	if len(vs) > 0 {
		var more []tline
		for ri, e := range exps {
			if e == nil {
				continue
			}
			closedAt, refused, _ := e.state()
			if closedAt != 0 {
				more = append(more, tline{closedAt, fmt.Sprintf("t=%d Shutdown of the exporter of reader %d (exporter: %q)", closedAt, ri, c.Readers[ri].Exp)})
			}
			for _, co := range refused {
				more = append(more, tline{co.end, fmt.Sprintf("t=%d Export reader %d REFUSED, the exporter had been shut down (stores nothing): %s", co.end, ri, ptsString(co))})
			}
		}
		vs[0].Observed = history(c, adds, cons, calls, errs.Errors(), more)
	}
	if c.Lend != nil {
		for i := range vs {
			vs[i].Msg = lendNote + vs[i].Msg
		}
	}
	return vs, classes
}

// history renders what happened, ordered by the logical clock.
type tline struct {
	t int64
	s string
}

func ptsString(co *consumer) string {
	var ps []string
	for s, v := range co.pts {
		if z := co.sp[s]; z != 0 {
			ps = append(ps, fmt.Sprintf("%v=%s", s, spName[z]))
			continue
		}
		ps = append(ps, fmt.Sprintf("%v=%d", s, v))
	}
	sort.Strings(ps)
	return strings.Join(ps, " ")
}

var spName = map[byte]string{'+': "+Inf", '-': "-Inf", 'n': "NaN", 'z': "-0"}

func history(c Case, adds []*addRec, cons []*consumer, calls []*callRec, errs []error, more []tline) []string {
	type line = tline
	ls := append([]line{}, more...)
	for _, a := range adds {
		if a.done {
			what := fmt.Sprintf("%+d units", a.units)
			if a.sp != 0 {
				what = spName[a.sp]
			}
			ls = append(ls, line{a.start, fmt.Sprintf("t=%d..%d Add#%d %s%s %s (%s)", a.start, a.end, a.id, instName(a.inst), a.set, what, a.where)})
		}
	}
	for _, co := range cons {
		ps := ptsString(co)
		if co.export {
			ls = append(ls, line{co.end, fmt.Sprintf("t=%d..%d Export reader %d (%s): %s", co.end, co.exit, co.reader, c.Readers[co.reader].Temp, ps)})
		} else {
			ls = append(ls, line{co.start, fmt.Sprintf("t=%d..%d Collect reader %d (%s %s): %s", co.start, co.end, co.reader, c.Readers[co.reader].Kind, c.Readers[co.reader].Temp, ps)})
		}
	}
	for _, r := range calls {
		what := r.kind
		if r.kind == "reader_shutdown" {
			what = fmt.Sprintf("Shutdown of reader %d", r.reader)
		}
		if r.kind == "reader_flush" {
			what = fmt.Sprintf("ForceFlush of reader %d", r.reader)
		}
		if r.cancelled {
			what += " (cancelled context)"
		}
		ls = append(ls, line{r.start, fmt.Sprintf("t=%d..%d %s -> %v", r.start, r.end, what, r.err)})
	}
	sort.Slice(ls, func(i, j int) bool { return ls[i].t < ls[j].t })
	out := make([]string, 0, len(ls)+len(errs)+len(c.Insts))
	for i, in := range c.Insts {
		unit := ""
		if isFloat(in) {
			unit = fmt.Sprintf(", 1 unit = 2^%d", scaleExp(in))
		}
		out = append(out, fmt.Sprintf("%s = %s %q of meter %s%s", instName(i), in.Kind, metricName(c, i), scopeName(in.Scope), unit))
	}
	for _, l := range ls {
		out = append(out, l.s)
	}
	if len(out) > 500 {
		out = append(out[:250:250], out[len(out)-250:]...)
	}
	for _, e := range errs {
		out = append(out, "otel.Handle: "+e.Error())
	}
	return out
}

func run(c Case) ([]vk.Violation, vk.Info) {
	var info vk.Info
	runs := c.Runs
	if runs < 1 {
		runs = 1
	}
	all := map[string]bool{}
	var vs []vk.Violation
	for i := 0; i < runs && len(vs) == 0; i++ {
		v, cl := runOnce(c)
		vs = v
		for k := range cl {
			all[k] = true
		}
	}
	info.NonTrivial = (all["collect_overlaps_add"] || all["forceflush_overlaps_add"] || all["export_may_overlap_add"]) && all["two_or_more_collections"]
	for k := range all {
		info.Class(k)
	}
	kinds := map[string]bool{}
	for _, r := range c.Readers {
		info.Class("reader:" + r.Kind + "/" + r.Temp)
		kinds[r.Temp] = true
		info.ClassIf(r.Kind == "periodic" && r.IntervalUs > 1e6, "periodic_reader_without_ticks")
		if r.Kind == "periodic" {
			info.Class("exporter:" + map[string]string{"": "lenient(stores in any state)", "contract": "contract(refuses Export after Shutdown, ErrExporterShutdown)", "contract_own": "contract(refuses Export after Shutdown, own error)"}[r.Exp])
			info.ClassIf(r.ExpFail != "", "exporter_fails:"+r.ExpFail)
			info.ClassIf(r.ExpAdd, "exporter_records_a_measurement_in_export")
		}
	}
	info.ClassIf(c.Broken != "", "extra_misconfigured_reader")
	info.ClassIf(c.SumView, "explicit_sum_view")
	for _, r := range c.Readers {
		info.ClassIf(r.DropDefault && c.SumView, "allow_list_reader(drop by default, view overrides)")
	}
	info.ClassIf(len(c.Readers) >= 2, "two_or_more_readers")
	info.ClassIf(len(c.Readers) >= 4, "four_or_more_readers")
	info.ClassIf(len(kinds) >= 2, "mixed_temporalities")
	nadds, zero, neg, recorders := 0, false, false, 0
	usedSets := map[int]bool{}
	opClasses := map[string]bool{}
	for _, ph := range c.Phases {
		n := 0
		for _, ops := range ph {
			has := false
			for _, op := range ops {
				if op.K == "reader_flush" {
					opClasses["forceflush_called_on_the_reader_itself"] = true
				}
				if op.X {
					opClasses[op.K+"_with_cancelled_context"] = true
				}
				if op.K == "add" && op.M == 4 && len(c.Sets[idx(op.S, len(c.Sets))]) == 0 {
					opClasses["add_without_any_option"] = true
				}
				if op.K == "add" {
					has = true
					nadds++
					zero = zero || op.V == 0
					neg = neg || op.V < 0
					usedSets[op.S] = true
				}
			}
			if has {
				n++
			}
		}
		if n > recorders {
			recorders = n
		}
	}
	for _, in := range c.Insts {
		info.Class("instrument:" + in.Kind)
	}
	canon := canonical(c)
	sameScope, bothScopes, alias := false, false, false
	for i := range c.Insts {
		alias = alias || canon[i] != i
		for j := 0; j < i; j++ {
			if canon[i] != i || canon[j] != j || metricName(c, i) != metricName(c, j) {
				continue
			}
			if c.Insts[i].Scope&1 == c.Insts[j].Scope&1 {
				sameScope = true
			} else {
				bothScopes = true
			}
		}
	}
	info.ClassIf(sameScope, "same_name_different_kind_in_one_meter")
	info.ClassIf(bothScopes, "same_name_in_both_meters")
	info.ClassIf(alias, "two_handles_of_one_instrument(same scope, name, kind)")
	info.ClassIf(sameScope && c.Lazy, "same_name_instruments_obtained_lazily")
	info.ClassIf(sameScope && c.SumView, "same_name_instruments_with_sum_view")
	info.ClassIf(recorders >= 2, "two_or_more_recorders_in_a_phase")
	info.ClassIf(nadds >= 100, "100_or_more_adds")
	for _, ph := range c.Phases {
		for _, ops := range ph {
			for _, op := range ops {
				switch {
				case op.K == "add":
					in := c.Insts[idx(op.I, len(c.Insts))]
					if z := special(op, in); z != 0 {
						opClasses["add_of_special_value:"+spName[z]+"_on_"+in.Kind] = true
					}
				case repeats(op) > 32:
					opClasses[op.K+"_repeated_more_than_32_times"] = true
				case repeats(op) > 0:
					opClasses[op.K+"_repeated"] = true
				}
			}
		}
	}
	for k := range opClasses {
		info.Class(k)
	}
	unitClasses := map[string]bool{}
	for _, in := range c.Insts {
		if isFloat(in) && in.Scale != "" {
			unitClasses["float64_unit:"+map[string]string{"sub": "2^-1074(subnormal)", "huge": "2^971(MaxFloat64 = 2^53-1 units)"}[in.Scale]] = true
		}
	}
	for k := range unitClasses {
		info.Class(k)
	}
	info.ClassIf(zero, "zero_value_add")
	info.ClassIf(neg, "negative_add_on_updown_counter")
	info.ClassIf(len(usedSets) < len(c.Sets), "pool_set_never_used")
	info.ClassIf(len(c.LateConc) > 0, "adds_concurrent_with_shutdown")
	info.ClassIf(len(c.Late) > 0, "adds_after_shutdown")
	return vs, info
}

// runSeq: same execution and oracle; non-trivial when the single goroutine
// records between two collection points.
func runSeq(c Case) ([]vk.Violation, vk.Info) {
	vs, info := run(c)
	between, state := false, 0 // 0 nothing, 1 collection seen, 2 add after a collection
	adds := 0
	for _, ph := range c.Phases {
		for _, ops := range ph {
			for _, op := range ops {
				switch op.K {
				case "add":
					adds++
					if state == 1 {
						state = 2
					}
				case "collect", "flush", "reader_flush":
					if state == 2 {
						between = true
					}
					state = 1
				}
			}
		}
	}
	if state == 2 {
		between = true // the closing collection / Shutdown follows
	}
	info.NonTrivial = between && adds >= 2
	info.ClassIf(between, "adds_between_two_collections")
	return vs, info
}

func TestSequentialModel(t *testing.T) {
	vk.Run(t, vk.Spec[Case]{
		Property: "C02", Check: "sequential_model",
		Rule: "the same instruments / attribute-set pool / readers as sum_conservation, but one goroutine issuing 1-80 Adds (same value dimensions: wide exact values, float64 units 1/8 / 2^-1074 / 2^971, special values +Inf -Inf NaN -0, hot stream), Collects (any reader, reused or fresh ResourceMetrics), ForceFlushes (provider, or directly on a periodic reader; a twelfth of the calls with a cancelled context, a sixteenth repeated 1-200 times in a row), rare sleeps and (a quarter of the cases) 1-2 direct Shutdown calls on a reader in sequence, final Collect, Shutdown, late calls; in a quarter of the cases the configuring caller lends its memory: the Option list, the WithView argument lists (0-6 views matching nothing plus the optional sum view, in generated groups = WithView options, each a sub-slice of one view buffer with spare capacity or fresh memory) and the reader option lists are slices of buffers that are re-used, once the constructor returned, to configure a second decoy provider whose views drop / rename every instrument (instruments are created afterwards; the oracle is unchanged and applies to the first provider); every bracket collapses to equality with the model at every collection point (interval exports of periodic readers still run beside it); " +
			"non-trivial = >= 2 Adds and at least one Add between two collection points; distinct = distinct case encodings",
		Quick: 1500, Thorough: 15000,
		Gen: genSeq, Run: runSeq, Repeat: 20, Known: known,
	})
}

func TestSumConservation(t *testing.T) {
	vk.Run(t, vk.Spec[Case]{
		Property: "C02", Check: "sum_conservation",
		Rule: "generated concurrent programs: 1-4 instruments (Int64/Float64 Counter/UpDownCounter, two meters; in a quarter of the cases 2-4 instruments of one meter - and optionally 1-2 of the other meter - share ONE name and differ in kind / number type), a pool of 1-6 near-identical attribute sets, 1-5 readers (ManualReader or PeriodicReader with a 1 ms - 5 ms or 1 h interval and a recording exporter that is lenient or follows the Exporter contract (refuses Export after its Shutdown), optionally with scripted Export / ForceFlush / Shutdown errors or recording a measurement inside Export; delta / cumulative / delta-for-counters temporality), 1-4 barrier-separated phases of 1-8 recorder goroutines (0-200 Adds of exact, pairwise distinct values up to 2^60 (int64) / 2^52 units of 1/8, 2^-1074 or 2^971 (float64: subnormal totals, totals beyond MaxFloat64), <= 1000 per program; in half of the programs one in 3-24 float64 Adds records +Inf / -0 / (up-down counters) -Inf / NaN; in a third of the programs half of the Adds go to one hot stream) and 0-3 collector goroutines (Collect on any reader, provider ForceFlush, ForceFlush of a periodic reader itself, a twelfth of them with a cancelled context, a sixteenth of them repeated 1-200 times in a row, sleeps) with generated schedule perturbations, in a quarter of the cases 1-2 direct Shutdown calls on a reader at a generated position, a final Collect on manual readers, Shutdown (optionally racing further Adds) and late calls; in a quarter of the cases the configuring caller lends its memory: the Option list, the WithView argument lists (0-6 views matching nothing plus the optional sum view, in generated groups = WithView options, each a sub-slice of one view buffer with spare capacity or fresh memory) and the reader option lists are slices of buffers that are re-used, once the constructor returned, to configure a second decoy provider whose views drop / rename every instrument (instruments are created afterwards; the oracle is unchanged and applies to the first provider); each program is executed twice; " +
			"non-trivial = >= 1 collection (Collect / ForceFlush by logical-clock overlap, or an export whose collection window contains an Add) ran concurrently with >= 1 Add and >= 2 collections happened; distinct = distinct case encodings",
		Quick: 300, Thorough: 3000,
		Gen: gen, Run: run, Repeat: 100, Known: known,
		ShrinkTime: 30 * time.Second,
	})
}
