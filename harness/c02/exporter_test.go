package c02

// The recording exporter of the periodic readers and its generated
// behaviours, and the classification of the errors ForceFlush / Shutdown
// return.
//
// Life cycle (Reader.Exp). The Exporter interface documents: "After Shutdown
// is called, calls to Export will perform no operation and instead will return
// an error indicating the shutdown state" (sdk/metric/exporter.go), which is
// what the OTLP and stdout exporters do. The "contract" variants follow it: a
// payload handed over after the reader has called the exporter's Shutdown is
// NOT stored, i.e. not reported by the reader. The lenient variant ("")
// stores whatever it is given in any state.
//
// Scripted failures (Reader.ExpFail): Export / ForceFlush / Shutdown of the
// exporter return an error AFTER the payload has been stored. A payload that
// was handed to an open exporter counts as reported whatever Export returns;
// the ForceFlush / Shutdown of the reader then report the error although the
// collection was made and handed over.
//
// Re-entrancy (Reader.ExpAdd): Export itself records a measurement (an
// exporter instrumented with the SDK it exports for); it is one more Add of
// the model.

import (
	"context"
	"errors"
	"sync"
	"sync/atomic"

	sdkmetric "go.opentelemetry.io/otel/sdk/metric"
	"go.opentelemetry.io/otel/sdk/metric/metricdata"
	"go.opentelemetry.io/otel/verif/internal/vk"
)

var (
	errExpClosed = errors.New("c02 exporter: Export / Shutdown called after Shutdown")
	errExpFail   = errors.New("c02 exporter: scripted failure")
)

// maxExportAdds bounds the measurements one exporter records from inside
// Export (keeps every sum exact).
const maxExportAdds = 40

// exportAddUnits is the value of a measurement recorded from inside Export.
const exportAddUnits = int64(1) << 20

// recExporter records every payload (copied inside Export).
type recExporter struct {
	w        *world
	reader   int
	spec     Reader
	inflight atomic.Int32
	overlap  atomic.Int32

	mu       sync.Mutex
	closedAt int64       // logical instant of the first Shutdown call; 0 = open
	exports  int         // Export calls so far
	refused  []*consumer // payloads handed over after Shutdown that a contract exporter did not store
	lateOK   int         // payloads a lenient exporter stored after its Shutdown
	addFn    func()      // ExpAdd: records one measurement
}

func (e *recExporter) contract() bool { return e.spec.Exp == "contract" || e.spec.Exp == "contract_own" }

func (e *recExporter) closedErr() error {
	if e.spec.Exp == "contract_own" {
		return errExpClosed
	}
	return sdkmetric.ErrExporterShutdown
}

func (e *recExporter) Temporality(k sdkmetric.InstrumentKind) metricdata.Temporality {
	return selector(e.spec)(k)
}

func (e *recExporter) Aggregation(k sdkmetric.InstrumentKind) sdkmetric.Aggregation {
	return sdkmetric.DefaultAggregationSelector(k)
}

func (e *recExporter) Export(_ context.Context, rm *metricdata.ResourceMetrics) error {
	if e.inflight.Add(1) > 1 {
		e.overlap.Add(1)
	}
	defer e.inflight.Add(-1)
	enter := e.w.clock.Tick()
	pts, sps, probs := e.w.extract(rm, e.reader)
	co := &consumer{reader: e.reader, export: true, start: -1, end: enter, pts: pts, sp: sps, probs: probs}
	e.mu.Lock()
	closed := e.closedAt != 0
	e.exports++
	n := e.exports
	addFn := e.addFn
	if closed && e.contract() {
		// the documented contract: no operation, an error
		co.exit = enter
		e.refused = append(e.refused, co)
		e.mu.Unlock()
		return e.closedErr()
	}
	if closed {
		e.lateOK++
	}
	e.mu.Unlock()
	e.w.mu.Lock()
	e.w.cons = append(e.w.cons, co)
	e.w.mu.Unlock()
	if e.spec.ExpAdd && addFn != nil && n <= maxExportAdds {
		addFn()
	}
	vk.Perturb(e.spec.ExportP)
	exit := e.w.clock.Tick()
	e.w.mu.Lock()
	co.exit = exit
	e.w.mu.Unlock()
	if e.spec.ExpFail == "export" && n%every(e.spec) == 0 {
		return errExpFail
	}
	return nil
}

func every(r Reader) int {
	if r.ExpFailEvery < 1 {
		return 1
	}
	return r.ExpFailEvery
}

func (e *recExporter) ForceFlush(context.Context) error {
	if e.spec.ExpFail == "flush" {
		return errExpFail
	}
	return nil
}

func (e *recExporter) Shutdown(context.Context) error {
	t := e.w.clock.Tick()
	e.mu.Lock()
	was := e.closedAt != 0
	if !was {
		e.closedAt = t
	}
	e.mu.Unlock()
	if was && e.contract() {
		return e.closedErr()
	}
	if e.spec.ExpFail == "shutdown" {
		return errExpFail
	}
	return nil
}

// state returns what happened to the exporter's life cycle.
func (e *recExporter) state() (closedAt int64, refused []*consumer, lateOK int) {
	e.mu.Lock()
	defer e.mu.Unlock()
	return e.closedAt, append([]*consumer{}, e.refused...), e.lateOK
}

// errLeaves flattens joined and wrapped errors.
func errLeaves(err error, out []error) []error {
	if err == nil {
		return out
	}
	if j, ok := err.(interface{ Unwrap() []error }); ok {
		for _, e := range j.Unwrap() {
			out = errLeaves(e, out)
		}
		return out
	}
	if u := errors.Unwrap(err); u != nil {
		return errLeaves(u, out)
	}
	return append(out, err)
}

// errKind says what the error of a ForceFlush / Shutdown call means for the
// question "did this call flush the (other) readers?".
type errKind struct {
	readerShutdown int    // ErrReaderShutdown leaves: a reader that had been shut down said so
	exporter       int    // leaves produced by the harness' exporters (scripted failure, refusal after Shutdown)
	unexplained    int    // anything else
	excused        string // "" or why the call is not taken as a flush point
}

// classifyErr: a scripted callback failure and an ended context (the call was
// given a cancelled context, or the reader's 30 s timeout fired under load)
// excuse the call: the SDK documents that nothing is guaranteed then. Errors
// of the harness' exporters do not: they are returned after the payload was
// stored or, for the refusal after Shutdown, are themselves the consequence
// of the order in which the reader called Export and Shutdown. An error the
// harness cannot explain (no collaborator failed, the context is alive) does
// not excuse a loss either.
func classifyErr(err error, cancelledCtx bool) errKind {
	var k errKind
	for _, l := range errLeaves(err, nil) {
		switch {
		case l == sdkmetric.ErrReaderShutdown: //nolint:errorlint // leaf identity wanted
			k.readerShutdown++
		case l == errFailCB: //nolint:errorlint
			k.excused = "callback_failed"
		case l == context.DeadlineExceeded: //nolint:errorlint
			k.excused = "deadline_exceeded"
		case l == context.Canceled && cancelledCtx: //nolint:errorlint
			k.excused = "cancelled_context"
		case l == errExpFail || l == errExpClosed || l == sdkmetric.ErrExporterShutdown: //nolint:errorlint
			k.exporter++
		default:
			k.unexplained++
		}
	}
	if cancelledCtx && err != nil && k.excused == "" {
		k.excused = "cancelled_context"
	}
	return k
}
