package c02

// Dimension "lent configuration" (Case.Lend): the configuring caller owns
// its memory and goes on using it.
//
// The provider under test is configured from buffers: the Option list handed
// to NewMeterProvider(opts...), the views handed to WithView(views...) (in
// generated groups: one WithView option per group, a group being a sub-slice
// of the caller's view buffer with the spare capacity behind it, or fresh
// memory, or empty) and the ManualReaderOption / PeriodicReaderOption lists
// are slices of buffers that the caller overwrites as soon as the constructor
// it handed them to has RETURNED: a second, decoy MeterProvider with a reader
// of its own is configured from the same buffers (its views drop or rename
// every instrument) and the buffers are left holding the decoy's
// configuration. Nothing is overwritten between WithView(...) and
// NewMeterProvider: an Option takes effect when the provider is built.
//
// The views of the provider under test are neutral for the sums: views whose
// criteria match no generated instrument and (SumView) the explicit sum view.
// Instruments are created after all of this, as always. No clause is added to
// the oracle: every measurement recorded on the provider under test must still
// be seen by every one of ITS readers, exactly as without the decoy.

import (
	"fmt"
	"time"

	sdkmetric "go.opentelemetry.io/otel/sdk/metric"
	"go.opentelemetry.io/otel/sdk/resource"
	"pgregory.net/rapid"
)

// Lend describes how the configuration arguments are lent.
type Lend struct {
	// Decoy: what the views of the second provider (and the buffers afterwards)
	// do to every instrument: "drop" | "rename".
	Decoy string `json:"decoy"`
	// Views: number of views matching nothing that the provider under test is
	// given besides the optional sum view (inserted at position SumPos).
	Views  int `json:"views"`
	SumPos int `json:"sum_pos,omitempty"`
	// Groups: one WithView option per group; |g| views (0 = WithView() without
	// arguments); g > 0 a sub-slice of the shared view buffer, g < 0 fresh memory
	// of exactly that size. Views left over form one last lent group.
	Groups []int `json:"groups"`
	// Spare: capacity of every buffer beyond its content.
	Spare int `json:"spare,omitempty"`
}

func genLend(t *rapid.T, c *Case, oneIn int) {
	if rapid.IntRange(0, oneIn-1).Draw(t, "lent_configuration") != 0 {
		return
	}
	c.Lend = &Lend{
		Decoy:  rapid.SampledFrom([]string{"drop", "rename"}).Draw(t, "decoy"),
		Views:  rapid.SampledFrom([]int{0, 1, 1, 2, 3, 4, 6}).Draw(t, "lent_views"),
		SumPos: rapid.IntRange(0, 6).Draw(t, "sum_pos"),
		Groups: rapid.SliceOfN(rapid.IntRange(-3, 4), 0, 4).Draw(t, "view_groups"),
		Spare:  rapid.SampledFrom([]int{0, 0, 1, 2, 8}).Draw(t, "spare"),
	}
}

type lender struct {
	decoy string
	spare int
	views []sdkmetric.View
	opts  []sdkmetric.Option
	mopts []sdkmetric.ManualReaderOption
	popts []sdkmetric.PeriodicReaderOption
}

func newLender(c Case) *lender {
	l := &lender{decoy: c.Lend.Decoy, spare: c.Lend.Spare}
	if l.spare < 0 {
		l.spare = 0
	}
	if l.spare > 16 {
		l.spare = 16
	}
	l.mopts = make([]sdkmetric.ManualReaderOption, 2+l.spare)
	l.popts = make([]sdkmetric.PeriodicReaderOption, 1+l.spare)
	l.scribbleReaderOpts()
	return l
}

func (l *lender) decoyView() sdkmetric.View {
	if l.decoy == "rename" {
		return func(i sdkmetric.Instrument) (sdkmetric.Stream, bool) {
			return sdkmetric.Stream{Name: "decoy." + i.Name, Description: i.Description, Unit: i.Unit}, true
		}
	}
	return sdkmetric.NewView(sdkmetric.Instrument{Name: "*"}, sdkmetric.Stream{Aggregation: sdkmetric.AggregationDrop{}})
}

func (l *lender) scribbleViews() {
	for i := range l.views {
		l.views[i] = l.decoyView()
	}
}

func (l *lender) scribbleOpts() {
	for i := range l.opts {
		l.opts[i] = sdkmetric.WithView(l.decoyView())
	}
}

func (l *lender) scribbleReaderOpts() {
	for i := range l.mopts {
		l.mopts[i] = sdkmetric.WithAggregationSelector(func(sdkmetric.InstrumentKind) sdkmetric.Aggregation {
			return sdkmetric.AggregationDrop{}
		})
	}
	for i := range l.popts {
		l.popts[i] = sdkmetric.WithInterval(24 * time.Hour)
	}
}

// fixGroups makes groups a partition of n views.
func fixGroups(groups []int, n int) []int {
	out := []int{}
	left := n
	for _, g := range groups {
		if len(out) >= 8 {
			break
		}
		size := g
		if size < 0 {
			size = -size
		}
		if size > left {
			size = left
		}
		if g < 0 {
			out = append(out, -size)
		} else {
			out = append(out, size)
		}
		left -= size
	}
	if left > 0 {
		out = append(out, left)
	}
	return out
}

// provider builds the provider under test from base (resource and reader
// options, in registration order) and the views, all lent, then the decoy.
func (l *lender) provider(c Case, base []sdkmetric.Option, classes map[string]bool) *sdkmetric.MeterProvider {
	ld := c.Lend
	nv := ld.Views
	if nv < 0 {
		nv = 0
	}
	if nv > 12 {
		nv = 12
	}
	var views []sdkmetric.View
	for i := 0; i < nv; i++ {
		var crit sdkmetric.Instrument
		switch i % 3 {
		case 0:
			crit.Name = fmt.Sprintf("c02.nomatch%d", i)
		case 1:
			crit.Name = fmt.Sprintf("c02.nomatch%d.*", i)
		default:
			crit.Name, crit.Kind = "*", sdkmetric.InstrumentKindHistogram
		}
		views = append(views, sdkmetric.NewView(crit, sdkmetric.Stream{Name: map[bool]string{true: fmt.Sprintf("c02.renamed%d", i)}[i%3 == 0], Aggregation: sdkmetric.AggregationDrop{}}))
	}
	if c.SumView {
		at := idx(ld.SumPos, len(views)+1)
		sum := sdkmetric.NewView(sdkmetric.Instrument{Name: "*"}, sdkmetric.Stream{Aggregation: sdkmetric.AggregationSum{}})
		views = append(views[:at], append([]sdkmetric.View{sum}, views[at:]...)...)
	}
	groups := fixGroups(ld.Groups, len(views))
	l.views = make([]sdkmetric.View, len(views)+l.spare)
	l.scribbleViews()
	copy(l.views, views)
	l.opts = make([]sdkmetric.Option, len(base)+len(groups)+l.spare)
	l.scribbleOpts()
	opts := append(l.opts[:0], base...)
	lo, lent := 0, 0
	for gi, g := range groups {
		size := g
		if size < 0 {
			size = -size
		}
		hi := lo + size
		if g < 0 || (g == 0 && gi%2 == 1) {
			fresh := make([]sdkmetric.View, size)
			copy(fresh, l.views[lo:hi])
			opts = append(opts, sdkmetric.WithView(fresh...))
		} else {
			opts = append(opts, sdkmetric.WithView(l.views[lo:hi]...))
			lent += size
			if gi == 0 && size > 0 {
				classes["lent:first_WithView_option_is_a_slice_of_the_callers_buffer"] = true
			}
		}
		lo = hi
	}
	classes["lent:configuration_buffers_reused_for_a_decoy_provider("+l.decoy+")"] = true
	if lent > 0 {
		classes["lent:views_lent"] = true
	}
	if len(groups) > 1 {
		classes["lent:two_or_more_WithView_options"] = true
	}
	mp := sdkmetric.NewMeterProvider(opts...)

	// NewMeterProvider has returned: the caller configures its next provider
	// from the same memory.
	l.scribbleViews()
	l.scribbleReaderOpts()
	dr := sdkmetric.NewManualReader(l.mopts[:0]...)
	dopts := append(l.opts[:0], sdkmetric.WithResource(resource.Empty()), sdkmetric.WithReader(dr))
	if len(l.views) > 0 {
		dopts = append(dopts, sdkmetric.WithView(l.views...))
	}
	_ = sdkmetric.NewMeterProvider(dopts...)
	l.scribbleOpts()
	return mp
}
