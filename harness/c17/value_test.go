package c17

import (
	"encoding/json"
	"fmt"
	"math"
	"strings"
	"unicode/utf8"

	"go.opentelemetry.io/otel/log"
	"go.opentelemetry.io/otel/verif/internal/vk"
)

// VD is a JSON-serialisable log.Value (recursive).
type VD struct {
	T string `json:"t"` // bool int float str bytes slice map empty
	B bool   `json:"b,omitempty"`
	I int64  `json:"i,omitempty"`
	F vk.F64 `json:"f"`
	S vk.Str `json:"s,omitempty"` // str and bytes payload
	L []VD   `json:"l,omitempty"` // slice elements
	M []KVD  `json:"m,omitempty"` // map entries, in order, duplicates possible
}

// KVD is a JSON-serialisable log.KeyValue.
type KVD struct {
	K vk.Str `json:"k"`
	V VD     `json:"v"`
}

// MarshalJSON writes only the field the tag selects.
func (v VD) MarshalJSON() ([]byte, error) {
	m := map[string]any{"t": v.T}
	switch v.T {
	case "bool":
		m["b"] = v.B
	case "int":
		m["i"] = v.I
	case "float":
		m["f"] = v.F
	case "str", "bytes":
		m["s"] = v.S
	case "slice":
		l := v.L
		if l == nil {
			l = []VD{}
		}
		m["l"] = l
	case "map":
		mm := v.M
		if mm == nil {
			mm = []KVD{}
		}
		m["m"] = mm
	}
	return json.Marshal(m)
}

// toValue builds a FRESH log.Value (fresh backing arrays for slices, maps and
// bytes: the SDK edits nested slices and maps of the values it is handed in
// place, so a value must never be handed over twice).
func (v VD) toValue() log.Value {
	switch v.T {
	case "bool":
		return log.BoolValue(v.B)
	case "int":
		return log.Int64Value(v.I)
	case "float":
		return log.Float64Value(float64(v.F))
	case "str":
		return log.StringValue(string(v.S))
	case "bytes":
		return log.BytesValue([]byte(string(v.S)))
	case "slice":
		vs := make([]log.Value, len(v.L))
		for i, e := range v.L {
			vs[i] = e.toValue()
		}
		return log.SliceValue(vs...)
	case "map":
		return log.MapValue(toKVs(v.M)...)
	case "empty":
		return log.Value{}
	}
	panic("c17: unknown VD type " + v.T)
}

func toKVs(kvs []KVD) []log.KeyValue {
	out := make([]log.KeyValue, len(kvs))
	for i, kv := range kvs {
		out[i] = log.KeyValue{Key: string(kv.K), Value: kv.V.toValue()}
	}
	return out
}

// fromValue copies a held log.Value into data (so that later edits of the
// record cannot change what was observed).
func fromValue(v log.Value) VD {
	switch v.Kind() {
	case log.KindBool:
		return VD{T: "bool", B: v.AsBool()}
	case log.KindInt64:
		return VD{T: "int", I: v.AsInt64()}
	case log.KindFloat64:
		return VD{T: "float", F: vk.F64(v.AsFloat64())}
	case log.KindString:
		return VD{T: "str", S: vk.Str(v.AsString())}
	case log.KindBytes:
		return VD{T: "bytes", S: vk.Str(string(v.AsBytes()))}
	case log.KindSlice:
		sl := v.AsSlice()
		out := VD{T: "slice", L: make([]VD, len(sl))}
		for i, e := range sl {
			out.L[i] = fromValue(e)
		}
		return out
	case log.KindMap:
		m := v.AsMap()
		out := VD{T: "map", M: make([]KVD, len(m))}
		for i, e := range m {
			out.M[i] = KVD{K: vk.Str(e.Key), V: fromValue(e.Value)}
		}
		return out
	case log.KindEmpty:
		return VD{T: "empty"}
	}
	return VD{T: fmt.Sprintf("unknown-kind-%d", int(v.Kind()))}
}

// render is a canonical bit-exact rendering (for messages and for comparing
// observations of one record at two moments).
func (v VD) render() string {
	var sb strings.Builder
	v.renderTo(&sb)
	return sb.String()
}

func (v VD) renderTo(sb *strings.Builder) {
	switch v.T {
	case "bool":
		fmt.Fprintf(sb, "bool(%v)", v.B)
	case "int":
		fmt.Fprintf(sb, "int(%d)", v.I)
	case "float":
		fmt.Fprintf(sb, "float(%016x)", math.Float64bits(float64(v.F)))
	case "str":
		fmt.Fprintf(sb, "str(%q)", string(v.S))
	case "bytes":
		fmt.Fprintf(sb, "bytes(%x)", string(v.S))
	case "slice":
		sb.WriteString("[")
		for i, e := range v.L {
			if i > 0 {
				sb.WriteString(",")
			}
			e.renderTo(sb)
		}
		sb.WriteString("]")
	case "map":
		sb.WriteString("{")
		for i, e := range v.M {
			if i > 0 {
				sb.WriteString(",")
			}
			fmt.Fprintf(sb, "%q:", string(e.K))
			e.V.renderTo(sb)
		}
		sb.WriteString("}")
	default:
		sb.WriteString(v.T)
	}
}

func renderKVs(kvs []KVD) string {
	return VD{T: "map", M: kvs}.render()
}

// nestedDups counts, over all maps reachable in v, entries whose key occurs
// earlier in the same map.
func (v VD) nestedDups() int {
	n := 0
	switch v.T {
	case "slice":
		for _, e := range v.L {
			n += e.nestedDups()
		}
	case "map":
		seen := map[string]bool{}
		for _, e := range v.M {
			if seen[string(e.K)] {
				n++
			}
			seen[string(e.K)] = true
			n += e.V.nestedDups()
		}
	}
	return n
}

// ---------------------------------------------------------------------
// reference string limit

// cleanString removes every byte that is not part of a valid UTF-8 encoding.
// A correctly encoded U+FFFD is a character like any other and stays.
func cleanString(s string) string {
	if utf8.ValidString(s) {
		return s
	}
	var sb strings.Builder
	for i := 0; i < len(s); {
		r, size := utf8.DecodeRuneInString(s[i:])
		if r == utf8.RuneError && size == 1 {
			i++
			continue
		}
		sb.WriteString(s[i : i+size])
		i += size
	}
	return sb.String()
}

// firstRunes returns the first n characters of the valid string s.
func firstRunes(s string, n int) string {
	c := 0
	for i := range s {
		if c == n {
			return s[:i]
		}
		c++
	}
	return s
}

// walker visits every string reachable in a value.
func (v VD) walkStrings(path string, f func(path, s string)) {
	switch v.T {
	case "str":
		f(path, string(v.S))
	case "slice":
		for i, e := range v.L {
			e.walkStrings(fmt.Sprintf("%s[%d]", path, i), f)
		}
	case "map":
		for i, e := range v.M {
			e.V.walkStrings(fmt.Sprintf("%s{#%d %q}", path, i, string(e.K)), f)
		}
	}
}

// valueFacts are class labels derived while comparing.
type valueFacts struct {
	topTruncated     bool
	nestedTruncated  bool
	invalidTruncated bool // a string with invalid bytes went through truncation
	fffdTruncated    bool // a string containing a literal U+FFFD was cut
	multibyteFits    bool // byte length over the limit, character count within it
	nestedDupMap     bool
	shortInvalidKept bool // invalid string within the byte limit held unchanged
	// depth = number of slices / maps that enclose a value
	deepestTruncated int // ... of the deepest string that was cut
	deepestDupMap    int // ... of the deepest map offered with a duplicate key
	deepestHeld      int // ... of the deepest value compared
}

// cmp compares what a record holds with what was offered under length limit
// lim; it emits one violation per broken clause through bad.
type cmp struct {
	lim   int
	bad   func(kind, format string, a ...any)
	facts *valueFacts
}

func (c cmp) value(path string, depth int, held, offered VD) {
	c.facts.deepestHeld = max(c.facts.deepestHeld, depth)
	if held.T != offered.T {
		c.bad("value_mismatch", "%s: holds kind %s (%s), offered kind %s (%s)", path, held.T, held.render(), offered.T, offered.render())
		c.anyStrings(path, held)
		return
	}
	switch offered.T {
	case "str":
		c.str(path, depth, string(held.S), string(offered.S))
	case "slice":
		if len(held.L) != len(offered.L) {
			c.bad("value_mismatch", "%s: holds a slice of %d, offered %d", path, len(held.L), len(offered.L))
			c.anyStrings(path, held)
			return
		}
		for i := range offered.L {
			c.value(fmt.Sprintf("%s[%d]", path, i), depth+1, held.L[i], offered.L[i])
		}
	case "map":
		// Maps are compared as key -> value supplied last, on both sides:
		// the record may or may not remove duplicate nested keys.
		ho, hm := lastWins(held.M)
		oo, om := lastWins(offered.M)
		if len(offered.M) != len(oo) {
			c.facts.nestedDupMap = true
			c.facts.deepestDupMap = max(c.facts.deepestDupMap, depth+1)
		}
		if len(held.M) > len(offered.M) {
			c.bad("value_mismatch", "%s: holds a map of %d entries, offered %d", path, len(held.M), len(offered.M))
		}
		for _, k := range oo {
			hv, ok := hm[k]
			if !ok {
				c.bad("value_mismatch", "%s: nested key %q offered but not held (%s)", path, k, held.render())
				continue
			}
			c.value(fmt.Sprintf("%s{%q}", path, k), depth+1, hv, om[k])
		}
		for _, k := range ho {
			if _, ok := om[k]; !ok {
				c.bad("value_mismatch", "%s: nested key %q held but never offered", path, k)
			}
		}
		// every string held, including shadowed duplicates, obeys the limit.
		if len(held.M) != len(ho) {
			c.anyStrings(path, held)
		}
	default:
		if held.render() != offered.render() {
			c.bad("value_mismatch", "%s: holds %s, offered %s", path, held.render(), offered.render())
		}
	}
}

// anyStrings checks the model-free clause on a value that has no usable
// counterpart: every reachable string has at most lim characters.
func (c cmp) anyStrings(path string, held VD) {
	if c.lim < 0 {
		return
	}
	held.walkStrings(path, func(p, s string) {
		if n := utf8.RuneCountInString(s); n > c.lim {
			c.bad("string_exceeds_length_limit", "%s: holds %q (%d characters), limit %d", p, s, n, c.lim)
		}
	})
}

func (c cmp) str(path string, depth int, h, s string) {
	lim := c.lim
	if lim < 0 || len(s) <= lim {
		// "If s already contains less than the limit number of bytes, it is
		// returned unchanged."
		if h != s {
			c.bad("short_string_changed", "%s: offered %q (%d bytes, limit %d) but holds %q", path, s, len(s), lim, h)
		}
		if lim >= 0 && !utf8.ValidString(s) {
			c.facts.shortInvalidKept = true
		}
		return
	}
	clean := cleanString(s)
	want := firstRunes(clean, lim)
	if h == want {
		if h != s {
			if depth == 0 {
				c.facts.topTruncated = true
			} else {
				c.facts.nestedTruncated = true
			}
			c.facts.deepestTruncated = max(c.facts.deepestTruncated, depth)
			if clean != s {
				c.facts.invalidTruncated = true
			}
			if strings.ContainsRune(clean, utf8.RuneError) && h != clean {
				c.facts.fffdTruncated = true
			}
		} else {
			c.facts.multibyteFits = true
		}
		return
	}
	n := utf8.RuneCountInString(h)
	switch {
	case n > lim:
		c.bad("string_exceeds_length_limit", "%s: offered %q, holds %q = %d characters, limit %d", path, s, h, n, lim)
	case !utf8.ValidString(h) || !strings.HasPrefix(clean, h):
		c.bad("string_not_prefix", "%s: offered %q, holds %q which is not a character-boundary prefix of the offered string without its invalid bytes (%q)", path, s, h, clean)
	default:
		c.bad("string_truncated_too_short", "%s: offered %q, limit %d, holds %q (%d characters) although %d valid characters were available", path, s, lim, h, n, utf8.RuneCountInString(clean))
	}
}

// lastWins returns the distinct keys in order of first occurrence and the
// value supplied last for each.
func lastWins(kvs []KVD) ([]string, map[string]VD) {
	m := make(map[string]VD, len(kvs))
	var order []string
	for _, kv := range kvs {
		k := string(kv.K)
		if _, ok := m[k]; !ok {
			order = append(order, k)
		}
		m[k] = kv.V
	}
	return order, m
}
