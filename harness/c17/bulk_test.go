package c17

import (
	"runtime"
	"strconv"

	"go.opentelemetry.io/otel/verif/internal/vk"
	"pgregory.net/rapid"
)

// Bulk is a compact description of a long argument list (the statement
// quantifies over ANY sequence of calls: the size of a call is a dimension of
// its own - de-duplication indexes, pooled scratch maps, the overflow slice
// and the count limit all behave differently once a call carries hundreds or
// thousands of attributes). It expands by construction into N key-values:
//
//	key   of element i = "k" + decimal(Start + (i*Step) mod Mod)   (Mod 0: no wrap)
//	value of element i = Vals[i mod len(Vals)], an "int" template has i added
//
// so that the case stays small data whatever N is and shrinks on N itself.
type Bulk struct {
	N     int  `json:"n"`
	Start int  `json:"start,omitempty"`
	Step  int  `json:"step,omitempty"` // < 1 is read as 1
	Mod   int  `json:"mod,omitempty"`  // 0 < Mod < N*Step: keys repeat inside the call
	Vals  []VD `json:"vals"`
}

func bulkKey(j int) string { return "k" + strconv.Itoa(j) }

func (b *Bulk) expand() []KVD {
	if b == nil || b.N <= 0 {
		return nil
	}
	step := max(b.Step, 1)
	out := make([]KVD, b.N)
	for i := range out {
		off := i * step
		if b.Mod > 0 {
			off %= b.Mod
		}
		v := VD{T: "int", I: int64(i)}
		if len(b.Vals) > 0 {
			v = b.Vals[i%len(b.Vals)]
			if v.T == "int" {
				v.I += int64(i)
			}
		}
		out[i] = KVD{K: vk.Str(bulkKey(b.Start + off)), V: v}
	}
	return out
}

// hasDuplicates reports whether the expansion repeats a key.
func (b *Bulk) hasDuplicates() bool {
	return b != nil && b.Mod > 0 && (b.N-1)*max(b.Step, 1) >= b.Mod
}

// args are the arguments an op describes: the explicit ones followed by the
// expansion of the bulk part.
func (op Op) args() []KVD {
	if op.Bulk == nil {
		return op.KVs
	}
	return append(append([]KVD{}, op.KVs...), op.Bulk.expand()...)
}

func (c Case) emitArgs() []KVD {
	if c.EmitBulk == nil {
		return c.Emit
	}
	return append(append([]KVD{}, c.Emit...), c.EmitBulk.expand()...)
}

func (c Case) hasBulk() bool {
	if c.EmitBulk != nil {
		return true
	}
	for _, op := range c.Ops {
		if op.Bulk != nil {
			return true
		}
	}
	return false
}

// flushPools empties every sync.Pool of the process (two collections: the
// first moves the pools to the victim cache, the second drops the victim
// cache). Harness hygiene, not an oracle: README "Run must never depend on
// state left by an earlier case". It is called after a case that found a
// violation (so that minimisation and the cases after it start from a clean
// process and the replay file reproduces on its own) and after every case
// that made a bulk call.
func flushPools() {
	runtime.GC()
	runtime.GC()
}

// genLogInt draws from 1 .. 2^(maxExp+1)-1 on a log scale, with extra weight
// on powers of two and their neighbours.
func genLogInt(t *rapid.T, maxExp int, label string) int {
	e := rapid.IntRange(0, maxExp).Draw(t, label+"_exp")
	if rapid.IntRange(0, 3).Draw(t, label+"_shape") == 0 {
		return max(1, (1<<e)+rapid.IntRange(-1, 1).Draw(t, label+"_delta"))
	}
	return (1 << e) + rapid.IntRange(0, (1<<e)-1).Draw(t, label+"_frac")
}

func (g genCtx) genBulk(t *rapid.T, maxExp int) *Bulk {
	b := &Bulk{N: genLogInt(t, maxExp, "bulk_n")}
	if rapid.IntRange(0, 4).Draw(t, "bulk_start_kind") == 0 {
		b.Start = rapid.IntRange(0, 2*b.N).Draw(t, "bulk_start")
	}
	if rapid.IntRange(0, 4).Draw(t, "bulk_step_kind") == 0 {
		b.Step = rapid.SampledFrom([]int{2, 3, 7}).Draw(t, "bulk_step")
	}
	switch rapid.IntRange(0, 7).Draw(t, "bulk_mod_kind") {
	case 0: // a few distinct keys offered over and over
		b.Mod = rapid.IntRange(1, 12).Draw(t, "bulk_mod_small")
	case 1: // about every key twice
		b.Mod = max(1, b.N*max(b.Step, 1)/2+rapid.IntRange(-1, 1).Draw(t, "bulk_mod_half"))
	case 2: // only the last few wrap
		b.Mod = max(1, b.N*max(b.Step, 1)-rapid.IntRange(1, 3).Draw(t, "bulk_mod_tail"))
	}
	// the long strings that a large length limit calls for are left to the
	// small calls: N copies of them would make every observation of a large
	// record cost megabytes.
	g.lenLimit = min(g.lenLimit, 8)
	n := rapid.IntRange(1, 3).Draw(t, "bulk_nvals")
	b.Vals = make([]VD, n)
	for i := range b.Vals {
		b.Vals[i] = g.genValue(t, 2) // depth 2: nested templates hold leaves only
	}
	if rapid.Bool().Draw(t, "bulk_int_first") {
		// element i carries i: every element of the call is distinguishable.
		b.Vals[0] = VD{T: "int", I: int64(rapid.IntRange(0, 3).Draw(t, "bulk_int_base"))}
	}
	return b
}

// genBulkCase: as genCase, with (a) one or two calls (or the emitted API
// record) carrying 1 .. ~16000 attributes on a log scale, surrounded by small
// calls on the same and on other records whose keys come from the same key
// space, and (b) count limits drawn from a log scale as well as from the fixed
// corner set.
func genBulkCase(t *rapid.T, path string) Case {
	c := Case{Path: path}
	if rapid.Bool().Draw(t, "count_limit_wide") {
		c.CountLimit = genLogInt(t, 13, "count_limit_log")
	} else {
		c.CountLimit = rapid.SampledFrom(countLimits).Draw(t, "count_limit")
	}
	if rapid.IntRange(0, 3).Draw(t, "len_limit_wide") == 0 {
		c.LenLimit = genLogInt(t, 8, "len_limit_log")
	} else {
		c.LenLimit = rapid.SampledFrom(lenLimits).Draw(t, "len_limit")
	}
	g := genCtx{lenLimit: c.LenLimit}
	g.nestedDup = rapid.IntRange(0, 5).Draw(t, "nested_dup_class") == 0

	// the small calls use the low keys of the bulk key space plus a few keys
	// anywhere in it.
	alphabet := []string{bulkKey(0), bulkKey(1), bulkKey(2), bulkKey(3), bulkKey(4), bulkKey(5)}
	for i := 0; i < 6; i++ {
		alphabet = append(alphabet, bulkKey(genLogInt(t, 13, "far_key")))
	}

	c.Extra = rapid.IntRange(0, 2).Draw(t, "extra_records")
	maxExp := 13
	if path == "emit" {
		// the logger adds the attributes of the API record one by one, each
		// add indexes what the record already holds: quadratic when unlimited.
		maxExp = 11
		c.Emit = g.genKVs(t, alphabet, 4)
		c.EmitBulk = g.genBulk(t, maxExp)
		c.EmitSpare = rapid.IntRange(0, 3).Draw(t, "emit_spare")
		if sc := rapid.IntRange(0, 5).Draw(t, "emit_scribble"); sc >= 3 {
			c.EmitScribble = sc - 2
		}
		c.EmitTwice = rapid.IntRange(0, 3).Draw(t, "emit_twice") == 0
		genEmitConfig(t, &c)
	}
	small := g.opGen(alphabet, false, 8)
	bulkOp := rapid.Custom(func(t *rapid.T) Op {
		op := Op{Op: "add", Rec: rapid.IntRange(0, maxRecords-1).Draw(t, "rec")}
		if rapid.Bool().Draw(t, "bulk_set") {
			op.Op = "set"
		}
		switch a := rapid.IntRange(0, 5).Draw(t, "arg"); {
		case a < 3:
		case a < 4:
			op.Arg = "spare"
			op.Spare = rapid.IntRange(1, 4).Draw(t, "spare")
		default:
			op.Arg = "scratch"
		}
		if sc := rapid.IntRange(0, 5).Draw(t, "scribble"); sc >= 3 {
			op.Scribble = sc - 2
		}
		if rapid.IntRange(0, 3).Draw(t, "bulk_prefix") == 0 {
			op.KVs = g.genKVs(t, alphabet, 3)
		}
		op.Bulk = g.genBulk(t, maxExp)
		return op
	})
	c.Ops = append(c.Ops, rapid.SliceOfN(small, 0, 3).Draw(t, "ops_before")...)
	if path != "emit" || rapid.Bool().Draw(t, "bulk_op_too") {
		c.Ops = append(c.Ops, bulkOp.Draw(t, "bulk_op"))
	}
	c.Ops = append(c.Ops, rapid.SliceOfN(small, 1, 5).Draw(t, "ops_after")...)
	if rapid.IntRange(0, 3).Draw(t, "second_bulk") == 0 {
		c.Ops = append(c.Ops, bulkOp.Draw(t, "bulk_op2"))
		c.Ops = append(c.Ops, rapid.SliceOfN(small, 1, 3).Draw(t, "ops_after2")...)
	}
	return c
}
