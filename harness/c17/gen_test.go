package c17

import (
	"strings"

	"go.opentelemetry.io/otel/verif/internal/vk"
	"pgregory.net/rapid"
)

type rapidT = rapid.T

var (
	countLimits = []int{-1, 0, 1, 2, 3, 5, 6, 7, 128}
	lenLimits   = []int{-1, 0, 1, 3, 8}

	keys12     = []string{"a", "b", "c", "d", "e", "f", "g", "h", "i", "j", "k", "l"}
	oddKeys    = []string{"", "\xff", "k\x00", "�", "k.long.key"}
	nestedKeys = []string{"x", "y", "z", "w", ""}

	repeatRunes = []rune{'a', 'é', '世', '😀', 0xFFFD}
	invalidBits = append([]string{"\xff", "\x80", "\xc3", "\xff\xfe", "a\xff", "\xffa", "\xff\xff\xff\xff", "\xffabcdefgh", "ab\xffcd\xfeef"}, vk.InvalidFragments...)
)

type genCtx struct {
	lenLimit  int
	nestedDup bool
	strHeavy  bool
}

// genText draws a string value biased to what truncation goes wrong on.
func (g genCtx) genText(t *rapid.T) vk.Str {
	switch rapid.IntRange(0, 6).Draw(t, "textkind") {
	case 0, 1:
		return vk.GenText(12, true).Draw(t, "text")
	case 2: // one rune repeated
		r := rapid.SampledFrom(repeatRunes).Draw(t, "rune")
		n := rapid.IntRange(0, 10).Draw(t, "times")
		return vk.Str(strings.Repeat(string(r), n))
	case 3: // ASCII
		n := rapid.IntRange(0, 12).Draw(t, "asciilen")
		b := make([]byte, n)
		for i := range b {
			b[i] = "ab"[rapid.IntRange(0, 1).Draw(t, "ch")]
		}
		return vk.Str(b)
	case 4: // short invalid strings
		return vk.Str(rapid.SampledFrom(invalidBits).Draw(t, "invalid"))
	case 5: // exactly limit-1 / limit / limit+1 / limit+2 characters of mixed width
		lim := g.lenLimit
		if lim < 0 {
			lim = 3
		}
		n := lim + rapid.IntRange(-1, 2).Draw(t, "delta")
		var sb strings.Builder
		if lim > 16 {
			// long strings: a short pattern of mixed-width characters repeated
			// up to the length, optionally with invalid bytes between two
			// characters at the start / just before / at / after the cut / at
			// the end.
			pat := rapid.SliceOfN(rapid.SampledFrom(repeatRunes), 1, 4).Draw(t, "pattern")
			inv, at := "", -1
			if rapid.Bool().Draw(t, "long_invalid") {
				inv = rapid.SampledFrom(vk.InvalidFragments).Draw(t, "frag")
				at = min(n, max(0, rapid.SampledFrom([]int{0, 1, lim - 1, lim, lim + 1, n}).Draw(t, "at")))
			}
			for i := 0; i < n; i++ {
				if i == at {
					sb.WriteString(inv)
				}
				sb.WriteRune(pat[i%len(pat)])
			}
			if at == n {
				sb.WriteString(inv)
			}
			return vk.Str(sb.String())
		}
		for i := 0; i < n; i++ {
			sb.WriteRune(rapid.SampledFrom(repeatRunes).Draw(t, "r"))
		}
		return vk.Str(sb.String())
	default: // valid characters and invalid bytes interleaved
		n := rapid.IntRange(1, 10).Draw(t, "parts")
		var sb strings.Builder
		for i := 0; i < n; i++ {
			if rapid.IntRange(0, 2).Draw(t, "inv") == 0 {
				sb.WriteString(rapid.SampledFrom(vk.InvalidFragments).Draw(t, "frag"))
			} else {
				sb.WriteRune(rapid.SampledFrom(vk.HostileRunes).Draw(t, "r"))
			}
		}
		return vk.Str(sb.String())
	}
}

var (
	kindsAll   = []string{"str", "str", "str", "str", "str", "str", "int", "int", "bool", "float", "bytes", "empty", "slice", "slice", "slice", "map", "map", "map"}
	kindsLeaf  = []string{"str", "str", "str", "str", "str", "str", "int", "int", "bool", "float", "bytes", "empty"}
	kindsStr   = []string{"str", "str", "str", "str", "str", "slice", "map", "map", "int"}
	kindsStrLf = []string{"str", "str", "str", "str", "str", "str", "str", "int"}
)

// deepCorners are nesting depths around powers of two (recursion guards,
// fixed-size stacks and depth budgets live there).
var deepCorners = []int{4, 7, 8, 9, 15, 16, 17, 31, 32, 33, 34, 48, 63, 64, 65, 100}

// genDeep draws a value whose nesting DEPTH is the dimension ("every string
// value it holds, whether top-level or nested in slices and maps"): a chain of
// 1..127 enclosing slices and maps (corners around 8/16/32/64 or log-uniform),
// every level a slice or a map by choice, with a few short siblings, the
// bottom a string that is usually longer than the length limit. In the
// duplicate-nested-keys class a map level may carry an earlier entry with the
// same key (shadowed by the chain, itself an over-long string).
func (g genCtx) genDeep(t *rapid.T) VD {
	var d int
	if rapid.Bool().Draw(t, "deep_corner") {
		d = rapid.SampledFrom(deepCorners).Draw(t, "deep_depth")
	} else {
		d = genLogInt(t, 6, "deep_depth_log")
	}
	long := func(label string) VD {
		if rapid.IntRange(0, 5).Draw(t, label+"_any") == 0 {
			return VD{T: "str", S: g.genText(t)}
		}
		lim := g.lenLimit
		if lim < 0 {
			lim = 3
		}
		n := lim + rapid.IntRange(1, 3).Draw(t, label+"_over")
		pat := rapid.SliceOfN(rapid.SampledFrom(repeatRunes), 1, 3).Draw(t, label+"_pattern")
		var sb strings.Builder
		for i := 0; i < n; i++ {
			sb.WriteRune(pat[i%len(pat)])
		}
		return VD{T: "str", S: vk.Str(sb.String())}
	}
	v := long("bottom")
	for i := 0; i < d; i++ {
		sib := rapid.IntRange(0, 7).Draw(t, "deep_sibling")
		if rapid.Bool().Draw(t, "deep_map") {
			k := rapid.SampledFrom(nestedKeys).Draw(t, "deep_key")
			m := VD{T: "map"}
			switch {
			case sib == 0 && g.nestedDup:
				m.M = append(m.M, KVD{K: vk.Str(k), V: long("shadowed")})
			case sib == 1:
				m.M = append(m.M, KVD{K: vk.Str(k + "'"), V: long("sibling")})
			}
			m.M = append(m.M, KVD{K: vk.Str(k), V: v})
			if sib == 2 {
				m.M = append(m.M, KVD{K: vk.Str(k + "\""), V: g.genValue(t, 3)})
			}
			v = m
			continue
		}
		l := VD{T: "slice"}
		if sib == 0 {
			l.L = append(l.L, long("sibling"))
		}
		l.L = append(l.L, v)
		if sib == 1 {
			l.L = append(l.L, g.genValue(t, 3))
		}
		v = l
	}
	return v
}

func (g genCtx) genValue(t *rapid.T, depth int) VD {
	if depth == 0 && rapid.IntRange(0, 79).Draw(t, "deep") == 0 {
		return g.genDeep(t)
	}
	ks := kindsAll
	switch {
	case g.strHeavy && depth >= 2:
		ks = kindsStrLf
	case g.strHeavy:
		ks = kindsStr
	case depth >= 3:
		ks = kindsLeaf
	}
	v := VD{T: rapid.SampledFrom(ks).Draw(t, "kind")}
	switch v.T {
	case "bool":
		v.B = rapid.Bool().Draw(t, "b")
	case "int":
		v.I = vk.GenI64().Draw(t, "i")
	case "float":
		v.F = vk.GenF64().Draw(t, "f")
	case "str":
		v.S = g.genText(t)
	case "bytes":
		v.S = vk.GenText(6, true).Draw(t, "bytes")
	case "slice":
		n := rapid.IntRange(0, 3).Draw(t, "slicelen")
		v.L = make([]VD, n)
		for i := range v.L {
			v.L[i] = g.genValue(t, depth+1)
		}
	case "map":
		n := rapid.IntRange(0, 4).Draw(t, "maplen")
		var ks []string
		if g.nestedDup && rapid.Bool().Draw(t, "dupmap") {
			// duplicates by construction: two-key alphabet.
			ks = rapid.SliceOfN(rapid.SampledFrom(nestedKeys[:2]), n, n).Draw(t, "dupkeys")
		} else {
			ks = rapid.Permutation(nestedKeys).Draw(t, "keys")[:n]
		}
		v.M = make([]KVD, n)
		for i := range v.M {
			v.M[i] = KVD{K: vk.Str(ks[i]), V: g.genValue(t, depth+1)}
		}
	}
	return v
}

// genKVs draws the arguments of one call.
func (g genCtx) genKVs(t *rapid.T, alphabet []string, maxN int) []KVD {
	n := vk.GenLen(maxN, 0, 1, 2, 5, 6, maxN).Draw(t, "nkvs")
	out := make([]KVD, n)
	// "spread" calls walk through the alphabet: many distinct keys, so that
	// the inline array fills up and the overflow slice is reached.
	spread := rapid.IntRange(0, 2).Draw(t, "spread") == 0
	off := 0
	if spread {
		off = rapid.IntRange(0, len(alphabet)-1).Draw(t, "off")
	}
	for i := range out {
		var k string
		if spread {
			k = alphabet[(off+i)%len(alphabet)]
		} else {
			k = rapid.SampledFrom(alphabet).Draw(t, "key")
		}
		out[i] = KVD{K: vk.Str(k), V: g.genValue(t, 0)}
	}
	return out
}

func genCase(t *rapid.T, path string, strHeavy bool) Case {
	c := Case{Path: path}
	c.CountLimit = rapid.SampledFrom(countLimits).Draw(t, "count_limit")
	c.LenLimit = rapid.SampledFrom(lenLimits).Draw(t, "len_limit")
	if strHeavy {
		if rapid.IntRange(0, 2).Draw(t, "unlimited_count") > 0 {
			c.CountLimit = rapid.SampledFrom([]int{-1, 128, 7}).Draw(t, "count_limit2")
		}
		if c.LenLimit < 0 && rapid.IntRange(0, 3).Draw(t, "keep_unlimited_len") > 0 {
			c.LenLimit = rapid.SampledFrom([]int{0, 1, 3, 8}).Draw(t, "len_limit2")
		}
		if rapid.IntRange(0, 4).Draw(t, "len_limit_wide") == 0 {
			// any limit, not only the corner set: 1..511 on a log scale
			// (strings near the limit follow it, see genText).
			c.LenLimit = genLogInt(t, 8, "len_limit_log")
		}
	}
	g := genCtx{lenLimit: c.LenLimit, strHeavy: strHeavy}
	g.nestedDup = rapid.IntRange(0, 3).Draw(t, "nested_dup_class") == 0

	var alphabet []string
	switch rapid.IntRange(0, 3).Draw(t, "alphabet") {
	case 0:
		alphabet = keys12[:2]
	case 1:
		alphabet = keys12[:7]
	case 2:
		alphabet = keys12
	default:
		alphabet = append(append([]string{}, keys12[:6]...), oddKeys...)
	}
	if strHeavy {
		alphabet = keys12[:7]
	}

	if rapid.Bool().Draw(t, "extra") {
		c.Extra = rapid.IntRange(1, 2).Draw(t, "extra_records")
	}
	maxOps := 12
	switch {
	case strHeavy:
		maxOps = 5
	case path == "emit":
		maxOps = 8
	}
	minOps := 1
	if path == "emit" {
		c.Emit = g.genKVs(t, alphabet, 12)
		c.EmitSpare = rapid.IntRange(0, 3).Draw(t, "emit_spare")
		if sc := rapid.IntRange(0, 5).Draw(t, "emit_scribble"); sc >= 3 {
			c.EmitScribble = sc - 2
		}
		c.EmitTwice = rapid.IntRange(0, 2).Draw(t, "emit_twice") == 0
		genEmitConfig(t, &c)
		minOps = 0
	}
	if strHeavy && rapid.IntRange(0, 9).Draw(t, "first_set_all") < 6 {
		// a Set of all seven keys: later calls overwrite inline and overflow
		// keys.
		op := Op{Op: "set", KVs: make([]KVD, len(alphabet))}
		for j, key := range alphabet {
			op.KVs[j] = KVD{K: vk.Str(key), V: g.genValue(t, 0)}
		}
		c.Ops = append(c.Ops, op)
		minOps, maxOps = 0, maxOps-1
	}
	opGen := g.opGen(alphabet, strHeavy, 10)
	c.Ops = append(c.Ops, rapid.SliceOfN(opGen, minOps, maxOps).Draw(t, "ops")...)
	return c
}

// opGen draws one small step. Ops are drawn without state (a slice generator
// shrinks by deleting elements): a clone beyond the record budget is skipped
// when the case runs and the target index is taken modulo the number of
// records alive.
func (g genCtx) opGen(alphabet []string, strHeavy bool, maxKVs int) *rapid.Generator[Op] {
	return rapid.Custom(func(t *rapid.T) Op {
		op := Op{}
		k := rapid.IntRange(0, 9).Draw(t, "opkind")
		switch {
		case k < 3:
			op.Op = "set"
		case k < 8 || (k == 8 && strHeavy):
			op.Op = "add"
		case k == 8:
			op.Op = "clone"
		default:
			op.Op = "new"
		}
		op.Rec = rapid.IntRange(0, maxRecords-1).Draw(t, "rec")
		if op.Op == "clone" || op.Op == "new" {
			return op
		}
		// the hostile caller: where the arguments live and what happens to
		// that memory once the call has returned.
		switch a := rapid.IntRange(0, 9).Draw(t, "arg"); {
		case a < 4:
		case a < 6:
			op.Arg = "spare"
			op.Spare = rapid.IntRange(1, 4).Draw(t, "spare")
		case a < 8:
			op.Arg = "scratch"
		default:
			op.Arg = "same"
		}
		if sc := rapid.IntRange(0, 5).Draw(t, "scribble"); sc >= 3 {
			op.Scribble = sc - 2
		}
		if op.Arg != "same" {
			op.KVs = g.genKVs(t, alphabet, maxKVs)
		}
		return op
	})
}

// genEmitConfig draws how the limits reach the LoggerProvider: through the
// options (default of the generator), through the two environment variables,
// through both (the option is documented to win) or not at all (documented
// defaults 128 / unlimited, which then are the limits of the case).
func genEmitConfig(t *rapid.T, c *Case) {
	switch rapid.IntRange(0, 9).Draw(t, "config") {
	case 0, 1:
		c.Config = "env"
	case 2:
		c.Config = "env_and_option"
		c.EnvCount = rapid.SampledFrom(countLimits).Draw(t, "env_count")
		c.EnvLen = rapid.SampledFrom(lenLimits).Draw(t, "env_len")
	case 3:
		c.Config = "default"
		c.CountLimit, c.LenLimit = 128, -1
	case 4:
		// one limit by option, the other one by environment variable.
		c.Config = rapid.SampledFrom([]string{"count_env_len_option", "count_option_len_env"}).Draw(t, "mixed")
	}
}
