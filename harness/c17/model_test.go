package c17

// model is the reference for one record: an ordered map with capacity.
//
//   - each key at most once; the value supplied last wins (within one call
//     and across calls); the position of a key is that of its first insertion;
//   - when the capacity is reached new keys are dropped (the earliest keys
//     stay), an update of a key that is held still applies;
//   - SetAttributes forgets everything (held attributes and counts) first.
//
// "offered" = the number of log.KeyValue arguments (top level, duplicates
// included) passed to the most recent SetAttributes call and to every
// AddAttributes call after it (since the record was created when there was
// no SetAttributes; an attribute carried by the API record that is emitted
// counts as one AddAttributes argument).
type model struct {
	cap     int // <= 0: no capacity
	keys    []string
	pos     map[string]int // key -> index in keys
	val     map[string]VD  // as offered (limits are applied when comparing)
	offered int
	// nestedDups is the number of duplicate nested map entries among the
	// values offered since the last SetAttributes (0 in the counting class).
	nestedDups int
}

type opFacts struct {
	overwriteInline   bool // a later call overwrote one of the first 5 keys
	overwriteOverflow bool // ... a key beyond the first 5
	dupWithinCall     bool
	limitMidCall      bool // capacity reached while the call still had new keys
	updateWhenFull    bool // an existing key updated while at capacity
	droppedByLimit    int
}

func newModel(capacity int) *model {
	return &model{cap: capacity, val: map[string]VD{}, pos: map[string]int{}}
}

func (m *model) clone() *model {
	c := &model{cap: m.cap, keys: append([]string{}, m.keys...), val: make(map[string]VD, len(m.val)),
		pos: make(map[string]int, len(m.pos)), offered: m.offered, nestedDups: m.nestedDups}
	for k, v := range m.val {
		c.val[k] = v
	}
	for k, v := range m.pos {
		c.pos[k] = v
	}
	return c
}

func (m *model) set(kvs []KVD, f *opFacts) {
	m.keys = nil
	m.val = map[string]VD{}
	m.pos = map[string]int{}
	m.offered = 0
	m.nestedDups = 0
	m.add(kvs, f)
}

func (m *model) add(kvs []KVD, f *opFacts) {
	inCall := map[string]bool{}
	heldBefore := len(m.keys)
	for _, kv := range kvs {
		k := string(kv.K)
		m.offered++
		m.nestedDups += kv.V.nestedDups()
		if inCall[k] {
			f.dupWithinCall = true
		}
		inCall[k] = true
		if _, ok := m.val[k]; ok {
			m.val[k] = kv.V
			pos := m.pos[k]
			if pos < heldBefore {
				if pos < 5 {
					f.overwriteInline = true
				} else {
					f.overwriteOverflow = true
				}
			}
			if m.cap > 0 && len(m.keys) >= m.cap {
				f.updateWhenFull = true
			}
			continue
		}
		if m.cap > 0 && len(m.keys) >= m.cap {
			f.droppedByLimit++
			if len(m.keys) > heldBefore {
				f.limitMidCall = true
			}
			continue
		}
		m.pos[k] = len(m.keys)
		m.keys = append(m.keys, k)
		m.val[k] = kv.V
	}
}
