// Package c17 decides property C17 (log records obey the attribute count and
// value-length limits for every edit sequence) by running generated sequences
// of SetAttributes / AddAttributes / Clone against a reference model (an
// ordered map with capacity) on records obtained from logtest.RecordFactory
// and on records built by a real LoggerProvider while emitting.
//
// Readings of the statement (see also the final report of the check author):
//
//   - "offered" = number of top-level log.KeyValue arguments (duplicates
//     included) passed to the most recent SetAttributes and to every
//     AddAttributes after it; SetAttributes "sets (and overrides)" and resets
//     the dropped count. An attribute carried by an emitted API record counts
//     as one AddAttributes argument.
//   - counting class = no value offered since the last SetAttributes contains
//     a map with a duplicate nested key: AttributesLen + DroppedAttributes ==
//     offered. Otherwise (the SDK removes duplicate nested keys while it
//     stores a value and counts each removal as a dropped attribute, which
//     the statement neither demands nor excludes) only
//     offered <= Len + Dropped <= offered + (duplicate nested entries offered)
//     is asserted, and nested maps are compared as key -> value supplied last.
//   - the order in which WalkAttributes yields the attributes is not asserted
//     (the statement speaks of which keys are retained, not of their order).
//   - characters = runes; a string of at most `limit` BYTES is unchanged, a
//     longer one becomes the first `limit` valid characters of the offered
//     string (invalid bytes removed, a correctly encoded U+FFFD is a
//     character) - "truncated to this length" (WithAttributeValueLengthLimit)
//     and the doc comment of truncate. Bytes values are not subject to the
//     limit ("only applies to string and string slice attribute values").
//   - a count limit of 0 is documented as "no attributes will be recorded":
//     a record that holds nothing and reports everything as dropped is
//     accepted; one that holds something is reported with Kind
//     count_limit_zero_not_enforced (known finding) and then compared with the
//     unlimited model for all other clauses.
//   - SetAttributes / AddAttributes reorder the caller's slice in place (and
//     write truncated values into it) while the call runs; the statement does
//     not forbid it, nothing is asserted about it. The arguments of a call are
//     defined as what the argument slice holds when the call is made.
//   - hostile caller: once a call has returned the record is independent of
//     the caller's top-level argument slice ("holds each key once with the
//     value supplied last" for EVERY edit sequence, "shares no mutable state"):
//     arguments are lent in caller-owned slices (exact size, with spare
//     capacity, one reused scratch buffer, or the very slice of the previous
//     call - possibly for another record); a generated fraction of calls is
//     followed by the caller scribbling over the whole slice including spare
//     capacity, and at the end of every case the caller scribbles over every
//     slice it ever passed. After every step each record other than the one
//     the call was made on must return bit for bit (order included) what it
//     returned before (Kind record_changed_without_call), and every record
//     must equal its own model. The arrays behind SliceValue / MapValue /
//     BytesValue are NOT scribbled: their constructors document "the passed
//     slice must not be changed after it is passed", so nested sharing with
//     the caller is the documented contract.
//   - records that were handed the same values share the nested arrays of
//     those values; the SDK re-applies limits / nested de-duplication in place
//     when the values are offered again. All records of a case have the same
//     limits, so this is idempotent; nothing beyond the final state is asserted.
//   - size is a dimension ("for ANY sequence of calls ... under ANY limits"):
//     sub-check bulk_calls draws the number of attributes of a call, the count
//     limit and the length limit from log scales (up to ~16000 / ~16000 / 511)
//     and surrounds the large calls with small calls on the same and on other
//     records whose keys come from the same key space. No new clause: the same
//     model decides. What a large call leaves behind in the process (the SDK
//     keeps its de-duplication scratch maps in a sync.Pool) must not change
//     what any record - the same or another - does with the calls that
//     follow; that IS "holds each key once with the value supplied last" and
//     "count + dropped = offered" for those later calls.
//   - a panic raised by SetAttributes / AddAttributes / Emit is reported as
//     Kind "panic" with the step that raised it (a record that cannot take a
//     call holds nothing the statement promises).
//   - "configured" limits (emit path): the limits reach the provider through
//     WithAttributeCountLimit / WithAttributeValueLengthLimit, through
//     OTEL_LOGRECORD_ATTRIBUTE_COUNT_LIMIT / ..._VALUE_LENGTH_LIMIT (plain
//     decimal integers; "If the ... environment variable is set, and this
//     option is not passed, that variable value will be used"), through both
//     (then the option is the configured value) or not at all ("By default ...
//     128 will be used" / "no limit (-1) will be used"). Invalid environment
//     values are not generated (nothing is "configured" then).
//   - process-wide state a case touches is put back: the two environment
//     variables right after the provider was built, the collector settings
//     (held back while a case with a bulk call runs so that search,
//     minimisation and replay agree on what the SDK's pools hold) at the end
//     of the case, and the pools are emptied (two collections) after a case
//     that made a call of >= 100 attributes or found a violation.
package c17

import (
	"context"
	"fmt"
	"math"
	"os"
	"runtime"
	"runtime/debug"
	"strconv"
	"testing"

	"go.opentelemetry.io/otel/log"
	sdklog "go.opentelemetry.io/otel/sdk/log"
	"go.opentelemetry.io/otel/sdk/log/logtest"
	"go.opentelemetry.io/otel/sdk/resource"
	"go.opentelemetry.io/otel/verif/internal/vk"
	"pgregory.net/rapid"
)

// Op is one step of the program.
type Op struct {
	Op  string `json:"op"`  // set | add | clone | new (a second, unrelated record with the same limits)
	Rec int    `json:"rec"` // target record (modulo the number of records alive)
	KVs []KVD  `json:"kvs,omitempty"`
	// Bulk: a long argument list in compact form, appended to KVs (bulk_test.go).
	Bulk *Bulk `json:"bulk,omitempty"`
	// Arg says which caller-owned slice carries the arguments of a set/add:
	//   ""        a freshly built slice of exactly the right size
	//   "spare"   a fresh slice with Spare elements of spare capacity
	//   "scratch" the caller's one scratch buffer, refilled (buf = append(buf[:0], ...))
	//   "same"    the very slice (same memory, same length) the previous set/add
	//             was given, with whatever it holds now; KVs is ignored
	Arg   string `json:"arg,omitempty"`
	Spare int    `json:"spare,omitempty"`
	// Scribble > 0: right after the call returned the caller overwrites the
	// whole slice including its spare capacity (1: key "a" everywhere,
	// 2: zero KeyValues, 3: distinct junk keys).
	Scribble int `json:"scribble,omitempty"`
}

// Case is one generated input.
type Case struct {
	CountLimit int    `json:"count_limit"`
	LenLimit   int    `json:"len_limit"`
	Path       string `json:"path"`                // direct | emit
	Emit       []KVD  `json:"emit,omitempty"`      // attributes of the emitted API record (emit path)
	EmitBulk   *Bulk  `json:"emit_bulk,omitempty"` // ... followed by the expansion of this
	// EmitSpare / EmitScribble: the slice handed to the API record's
	// AddAttributes has spare capacity / is scribbled over before Emit.
	EmitSpare    int `json:"emit_spare,omitempty"`
	EmitScribble int `json:"emit_scribble,omitempty"`
	// EmitTwice: the same API record is emitted a second time after the
	// first Emit returned (and after the program ran on the first SDK record).
	EmitTwice bool `json:"emit_twice,omitempty"`
	// Config says how the limits reach the LoggerProvider (emit path):
	//   ""                      WithAttributeCountLimit + WithAttributeValueLengthLimit
	//   "env"                   the two OTEL_LOGRECORD_ATTRIBUTE_* variables, no option
	//   "env_and_option"        the variables carry EnvCount / EnvLen, the options the
	//                           limits of the case (documented: the option wins)
	//   "count_env_len_option"  / "count_option_len_env": one of each
	//   "default"               nothing is configured (documented: 128 / no limit;
	//                           the generator sets the limits of the case to that)
	Config   string `json:"config,omitempty"`
	EnvCount int    `json:"env_count,omitempty"`
	EnvLen   int    `json:"env_len,omitempty"`
	// Extra unrelated records (same limits) exist from the start, so that
	// the program can hand one slice to several records right away.
	Extra int  `json:"extra_records,omitempty"`
	Ops   []Op `json:"ops"`
}

const maxRecords = 4

type obs struct {
	kvs     []KVD
	n, drop int
}

func observe(r *sdklog.Record) obs {
	var o obs
	r.WalkAttributes(func(kv log.KeyValue) bool {
		o.kvs = append(o.kvs, KVD{K: vk.Str(kv.Key), V: fromValue(kv.Value)})
		return true
	})
	o.n = r.AttributesLen()
	o.drop = r.DroppedAttributes()
	return o
}

// fingerprint is the bit-exact, ordered rendering of everything a record
// returns about its attributes.
func (o obs) fingerprint() string {
	if len(o.kvs) <= 64 {
		return fmt.Sprintf("%s len=%d dropped=%d", renderKVs(o.kvs), o.n, o.drop)
	}
	// large records: a digest of the same bit-exact, ordered content.
	d := digest(14695981039346656037)
	for _, kv := range o.kvs {
		d.str(string(kv.K))
		kv.V.digestTo(&d)
	}
	return fmt.Sprintf("{%d attributes starting with %s, digest %016x} len=%d dropped=%d", len(o.kvs), renderKVs(o.kvs[:3]), uint64(d), o.n, o.drop)
}

// digest is FNV-1a over a self-delimiting encoding of values.
type digest uint64

func (d *digest) byte(b byte) { *d = (*d ^ digest(b)) * 1099511628211 }
func (d *digest) u64(x uint64) {
	for i := 0; i < 8; i++ {
		d.byte(byte(x >> (8 * i)))
	}
}

func (d *digest) str(s string) {
	d.u64(uint64(len(s)))
	for i := 0; i < len(s); i++ {
		d.byte(s[i])
	}
}

func (v VD) digestTo(d *digest) {
	d.str(v.T)
	switch v.T {
	case "bool":
		if v.B {
			d.byte(1)
		} else {
			d.byte(0)
		}
	case "int":
		d.u64(uint64(v.I))
	case "float":
		d.u64(math.Float64bits(float64(v.F)))
	case "str", "bytes":
		d.str(string(v.S))
	case "slice":
		d.u64(uint64(len(v.L)))
		for _, e := range v.L {
			e.digestTo(d)
		}
	case "map":
		d.u64(uint64(len(v.M)))
		for _, e := range v.M {
			d.str(string(e.K))
			e.V.digestTo(d)
		}
	}
}

// fromKVs copies what a caller-owned slice holds right now into data.
func fromKVs(kvs []log.KeyValue) []KVD {
	out := make([]KVD, len(kvs))
	for i, kv := range kvs {
		out[i] = KVD{K: vk.Str(kv.Key), V: fromValue(kv.Value)}
	}
	return out
}

// scribble overwrites the whole slice including its spare capacity. Only the
// top-level KeyValue elements are written: the arrays behind log.SliceValue /
// MapValue / BytesValue "must not be changed after" they are passed (doc
// comments of those constructors), so a well-behaved caller leaves them alone.
func scribble(s []log.KeyValue, mode int) {
	s = s[:cap(s)]
	for i := range s {
		switch mode {
		case 1:
			s[i] = log.Int("a", 9000+i)
		case 2:
			s[i] = log.KeyValue{}
		default:
			s[i] = log.Int(fmt.Sprintf("scribble%d", i), -i)
		}
	}
}

// withSpare builds a caller-owned slice holding kvs with spare elements of
// spare capacity (pre-filled with a sentinel attribute).
func withSpare(kvs []KVD, spare int) []log.KeyValue {
	n := len(kvs)
	s := make([]log.KeyValue, n+spare)
	copy(s, toKVs(kvs))
	for i := n; i < len(s); i++ {
		s[i] = log.Int("spare!", i)
	}
	return s[:n]
}

type hostileFacts struct {
	spare, scratch, scratchReused, same   bool
	sameOtherRecord                       bool // the same slice went to two different records
	scribbled                             bool
	setKeptOverflow                       bool // one SetAttributes call kept more than 5 attributes
	setOverflowScribbled                  bool // ... and its argument slice was scribbled over right away
	setOverflowSameOther                  bool // ... and its argument slice was then handed to another record
	setOverflowThenReuse                  bool // ... and its argument slice (the scratch buffer) was refilled for the next call
	clones, fresh                         int
	editedAfterFork                       map[int]bool
	setAfterAdd, sawAdd                   bool
	emitTwice, emitScribbled, finalSweeps bool
	// sizes
	maxCall              int  // most arguments in one call
	maxCallDistinct      int  // most distinct keys in one call
	bulkDup              bool // a bulk call repeated keys
	smallAfterBig        bool // a call of <= 12 arguments after one of >= 100 ...
	smallAfterBigOther   bool // ... on a record other than the one that got the big call
	smallAfterBigOverlap bool // ... and it offered a key that the big call offered as well
	bigKeys              map[string]bool
	bigTarget            int
}

type runState struct {
	c      Case
	vs     []vk.Violation
	seen   map[string]bool
	fatal  bool // a violation other than a suspended clause was recorded
	recs   []*sdklog.Record
	models []*model
	fps    []string // fingerprint of every record after the latest step
	vf     valueFacts
	of     opFacts
	hf     hostileFacts

	// the caller's memory
	scratch []log.KeyValue
	last    []log.KeyValue   // slice given to the previous set/add
	lent    [][]log.KeyValue // every slice ever handed to the library
	// bookkeeping about the previous set/add (class labels only)
	lastTarget      int
	lastSetOverflow bool
	lastWasScratch  bool
}

// suspended are the clauses behind a known finding: reported once per case,
// the case goes on (so that the rest of it is still checked).
var suspended = map[string]bool{"count_limit_zero_not_enforced": true}

func (s *runState) bad(kind, format string, a ...any) {
	msg := fmt.Sprintf(format, a...)
	id := kind + "\x00" + msg
	if suspended[kind] {
		id = kind
	}
	if s.seen[id] {
		return
	}
	s.seen[id] = true
	s.vs = append(s.vs, vk.Violation{Kind: kind, Msg: msg})
	if !suspended[kind] {
		s.fatal = true
	}
}

// checkRecord compares one observation with the record's model.
func (s *runState) checkRecord(who string, o obs, m *model) {
	C := s.c.CountLimit
	if o.n != len(o.kvs) {
		s.bad("len_walk_mismatch", "%s: AttributesLen() = %d but WalkAttributes yields %d", who, o.n, len(o.kvs))
	}
	if C > 0 && o.n > C {
		s.bad("count_limit_exceeded", "%s: holds %d attributes, count limit %d: %s", who, o.n, C, renderKVs(o.kvs))
	}
	if C == 0 {
		if o.n == 0 && len(o.kvs) == 0 && o.drop == m.offered {
			return // documented behaviour: nothing recorded, everything dropped.
		}
		if o.n > 0 || len(o.kvs) > 0 {
			s.bad("count_limit_zero_not_enforced", "count limit 0 (documented: \"no attributes will be recorded\") but the record holds %d attribute(s)", max(o.n, len(o.kvs)))
		}
		// all other clauses: against the unlimited model.
	}
	held := map[string]VD{}
	for _, kv := range o.kvs {
		k := string(kv.K)
		if _, dup := held[k]; dup {
			s.bad("duplicate_key", "%s: key %q is held more than once: %s", who, k, renderKVs(o.kvs))
		}
		held[k] = kv.V
	}
	cm := cmp{lim: s.c.LenLimit, bad: s.bad, facts: &s.vf}
	for _, k := range m.keys {
		hv, ok := held[k]
		if !ok {
			s.bad("missing_key", "%s: key %q should be held (model keys %q), record holds %s", who, k, m.keys, renderKVs(o.kvs))
			continue
		}
		cm.value(fmt.Sprintf("%s key %q", who, k), 0, hv, m.val[k])
	}
	for _, kv := range o.kvs {
		if _, ok := m.val[string(kv.K)]; !ok {
			s.bad("unexpected_key", "%s: key %q is held but the model (earliest keys retained, capacity %d) holds %q", who, string(kv.K), C, m.keys)
			cm.anyStrings(fmt.Sprintf("%s key %q", who, string(kv.K)), kv.V)
		}
	}
	sum := o.n + o.drop
	if m.nestedDups == 0 {
		if sum != m.offered {
			s.bad("len_plus_dropped_ne_offered", "%s: AttributesLen %d + DroppedAttributes %d = %d, offered since the last SetAttributes %d", who, o.n, o.drop, sum, m.offered)
		}
	} else if sum < m.offered || sum > m.offered+m.nestedDups {
		s.bad("len_plus_dropped_out_of_bounds", "%s: AttributesLen %d + DroppedAttributes %d = %d, offered %d with %d duplicate nested map entries", who, o.n, o.drop, sum, m.offered, m.nestedDups)
	}
}

// checkAll observes every record after a step: each must equal its own model,
// and every record other than the one the step was a call on (touched, -1 for
// none) must return bit for bit what it returned after the previous step -
// whatever happened to other records and to the caller's memory.
func (s *runState) checkAll(step string, touched int) {
	for i, r := range s.recs {
		o := observe(r)
		fp := o.fingerprint()
		if i < len(s.fps) {
			if i != touched && s.fps[i] != fp {
				s.bad("record_changed_without_call", "after %s: record %d changed although no call was made on it: returned %s, now returns %s", step, i, s.fps[i], fp)
			}
			s.fps[i] = fp
		} else {
			s.fps = append(s.fps, fp)
		}
		s.checkRecord(fmt.Sprintf("after %s: record %d", step, i), o, s.models[i])
	}
}

// lend returns the caller-owned slice that carries the arguments of op.
func (s *runState) lend(op Op, t int) []log.KeyValue {
	h := &s.hf
	var arg []log.KeyValue
	wasScratch := false
	switch {
	case op.Arg == "same" && s.last != nil:
		arg = s.last
		h.same = true
		if s.lastTarget != t {
			h.sameOtherRecord = true
			if s.lastSetOverflow {
				h.setOverflowSameOther = true
			}
		}
		wasScratch = s.lastWasScratch
	case op.Arg == "scratch":
		if s.scratch == nil {
			s.scratch = withSpare(nil, 24)
		} else {
			h.scratchReused = true
			if s.lastWasScratch && s.lastSetOverflow {
				h.setOverflowThenReuse = true
			}
		}
		arg = append(s.scratch[:0], toKVs(op.args())...)
		s.scratch = arg[:0] // the caller keeps the buffer it grew
		h.scratch = true
		wasScratch = true
	case op.Arg == "spare":
		arg = withSpare(op.args(), op.Spare)
		h.spare = true
	default:
		arg = toKVs(op.args())
	}
	s.lastWasScratch = wasScratch
	return arg
}

// applyOps runs the program on s.recs / s.models (record 0 must exist).
func (s *runState) applyOps() {
	h := &s.hf
	if h.editedAfterFork == nil {
		h.editedAfterFork = map[int]bool{}
	}
	fresh := func() *sdklog.Record {
		r := logtest.RecordFactory{AttributeCountLimit: s.c.CountLimit, AttributeValueLengthLimit: s.c.LenLimit}.NewRecord()
		return &r
	}
	for i := 0; i < s.c.Extra && len(s.recs) < maxRecords; i++ {
		s.recs = append(s.recs, fresh())
		s.models = append(s.models, newModel(s.c.CountLimit))
		h.fresh++
	}
	if s.c.Extra > 0 {
		s.checkAll("creation of the extra records", -1)
	}
	for i, op := range s.c.Ops {
		if s.fatal {
			return
		}
		t := op.Rec % len(s.recs)
		if t < 0 {
			t = 0
		}
		touched := -1
		step := fmt.Sprintf("op %d %s(rec %d)", i, op.Op, t)
		switch op.Op {
		case "set", "add":
			arg := s.lend(op, t)
			// The arguments of the call are what the slice holds when the
			// call is made (for "same": whatever the previous call and the
			// caller left in it).
			offered := fromKVs(arg)
			step = fmt.Sprintf("op %d %s(rec %d, %d kvs, arg %q, scribble %d)", i, op.Op, t, len(offered), op.Arg, op.Scribble)
			s.sizeFacts(op, t, offered)
			if op.Op == "set" {
				if h.sawAdd {
					h.setAfterAdd = true
				}
				if !s.call(step, func() { s.recs[t].SetAttributes(arg...) }) {
					return
				}
				s.models[t].set(offered, &s.of)
			} else {
				h.sawAdd = true
				if !s.call(step, func() { s.recs[t].AddAttributes(arg...) }) {
					return
				}
				s.models[t].add(offered, &s.of)
			}
			setOverflow := op.Op == "set" && len(s.models[t].keys) > 5
			if setOverflow {
				h.setKeptOverflow = true
			}
			s.last, s.lastTarget, s.lastSetOverflow = arg, t, setOverflow
			s.lent = append(s.lent, arg)
			if op.Scribble > 0 {
				scribble(arg, op.Scribble)
				h.scribbled = true
				if setOverflow {
					h.setOverflowScribbled = true
				}
			}
			if len(s.recs) > 1 && len(offered) > 0 {
				h.editedAfterFork[t] = true
			}
			touched = t
		case "clone":
			if len(s.recs) >= maxRecords {
				continue
			}
			c := s.recs[t].Clone()
			s.recs = append(s.recs, &c)
			s.models = append(s.models, s.models[t].clone())
			h.clones++
		case "new":
			if len(s.recs) >= maxRecords {
				continue
			}
			s.recs = append(s.recs, fresh())
			s.models = append(s.models, newModel(s.c.CountLimit))
			h.fresh++
		default:
			panic("c17: unknown op " + op.Op)
		}
		s.checkAll(step, touched)
	}
}

// call runs one call into the library; a panic is a violation of its own
// (reported with the step that caused it) and ends the case.
func (s *runState) call(step string, f func()) (ok bool) {
	defer func() {
		if p := recover(); p != nil {
			s.bad("panic", "%s: panic: %v", step, p)
			ok = false
		}
	}()
	f()
	return true
}

// sizeFacts keeps the class labels about call sizes.
func (s *runState) sizeFacts(op Op, t int, offered []KVD) {
	h := &s.hf
	h.maxCall = max(h.maxCall, len(offered))
	if op.Bulk.hasDuplicates() {
		h.bulkDup = true
	}
	if len(offered) <= 12 && h.bigKeys != nil {
		h.smallAfterBig = true
		if t != h.bigTarget {
			h.smallAfterBigOther = true
		}
		for _, kv := range offered {
			if h.bigKeys[string(kv.K)] {
				h.smallAfterBigOverlap = true
			}
		}
	}
	if len(offered) >= 100 {
		keys := make(map[string]bool, len(offered))
		for _, kv := range offered {
			keys[string(kv.K)] = true
		}
		h.maxCallDistinct = max(h.maxCallDistinct, len(keys))
		if h.bigKeys == nil {
			h.bigKeys = keys
		} else {
			for k := range keys {
				h.bigKeys[k] = true
			}
		}
		h.bigTarget = t
	}
}

// finalSweep: at the end of the case the caller reuses all of its memory; no
// record may notice.
func (s *runState) finalSweep() {
	if s.fatal || len(s.recs) == 0 {
		return
	}
	for _, l := range s.lent {
		scribble(l, 1)
	}
	if s.scratch != nil {
		scribble(s.scratch, 3)
	}
	s.hf.finalSweeps = true
	s.checkAll("the caller scribbled over every slice it ever passed", -1)
}

const (
	envCount = "OTEL_LOGRECORD_ATTRIBUTE_COUNT_LIMIT"
	envLen   = "OTEL_LOGRECORD_ATTRIBUTE_VALUE_LENGTH_LIMIT"
)

// limitConfig turns Case.Config into provider options plus environment; the
// returned function puts the environment back.
func limitConfig(c Case) ([]sdklog.LoggerProviderOption, func()) {
	var opts []sdklog.LoggerProviderOption
	env := map[string]string{} // variables to set; all others of the two are unset
	cnt, ln := strconv.Itoa(c.CountLimit), strconv.Itoa(c.LenLimit)
	optCount := func() { opts = append(opts, sdklog.WithAttributeCountLimit(c.CountLimit)) }
	optLen := func() { opts = append(opts, sdklog.WithAttributeValueLengthLimit(c.LenLimit)) }
	switch c.Config {
	case "":
		optCount()
		optLen()
	case "env":
		env[envCount], env[envLen] = cnt, ln
	case "env_and_option":
		env[envCount], env[envLen] = strconv.Itoa(c.EnvCount), strconv.Itoa(c.EnvLen)
		optLen()
		optCount()
	case "count_env_len_option":
		env[envCount] = cnt
		optLen()
	case "count_option_len_env":
		env[envLen] = ln
		optCount()
	case "default":
	default:
		panic("c17: unknown config " + c.Config)
	}
	type saved struct {
		v  string
		ok bool
	}
	old := map[string]saved{}
	for _, k := range []string{envCount, envLen} {
		v, ok := os.LookupEnv(k)
		old[k] = saved{v, ok}
		if nv, set := env[k]; set {
			_ = os.Setenv(k, nv)
		} else {
			_ = os.Unsetenv(k)
		}
	}
	return opts, func() {
		for k, o := range old {
			if o.ok {
				_ = os.Setenv(k, o.v)
			} else {
				_ = os.Unsetenv(k)
			}
		}
	}
}

type editProc struct{ fn func(*sdklog.Record) }

func (p *editProc) OnEmit(_ context.Context, r *sdklog.Record) error { p.fn(r); return nil }
func (p *editProc) Shutdown(context.Context) error                   { return nil }
func (p *editProc) ForceFlush(context.Context) error                 { return nil }

type recExporter struct{ got []sdklog.Record }

func (e *recExporter) Export(_ context.Context, rs []sdklog.Record) error {
	for i := range rs {
		e.got = append(e.got, rs[i].Clone())
	}
	return nil
}
func (e *recExporter) Shutdown(context.Context) error   { return nil }
func (e *recExporter) ForceFlush(context.Context) error { return nil }

func run(c Case) ([]vk.Violation, vk.Info) { return runWith(c, true) }

// runWith runs one case. solo = the case has the process to itself (every
// sub-check but concurrent_twins): it may then hold the collector back, empty
// the pools and configure the limits through the environment. With solo ==
// false nothing process-wide is touched (the limits are passed as options).
func runWith(c Case, solo bool) ([]vk.Violation, vk.Info) {
	s := &runState{c: c, seen: map[string]bool{}}
	// No case may leave process-wide state (the SDK's pooled scratch maps)
	// behind that a later case - or the minimisation of this one - would see.
	// A case with a bulk call allocates enough to start several collections
	// between two of its steps, and a collection empties the SDK's pools: for
	// the outcome to be a function of the case (search, minimisation and
	// replay in a fresh process must agree) the collector is held back while
	// such a case runs (soft memory limit as the safety net) and the pools are
	// emptied when a case that made a call of 100 or more attributes ends.
	if solo && c.hasBulk() {
		gc := debug.SetGCPercent(-1)
		lim := debug.SetMemoryLimit(3 << 30)
		defer func() {
			debug.SetMemoryLimit(lim)
			debug.SetGCPercent(gc)
		}()
	}
	defer func() {
		p := recover()
		if solo && (p != nil || s.fatal || s.hf.maxCall >= 100) {
			flushPools()
		}
		if p != nil {
			panic(p)
		}
	}()
	switch c.Path {
	case "direct":
		r := logtest.RecordFactory{AttributeCountLimit: c.CountLimit, AttributeValueLengthLimit: c.LenLimit}.NewRecord()
		s.recs = []*sdklog.Record{&r}
		s.models = []*model{newModel(c.CountLimit)}
		s.checkAll("creation", -1)
		s.applyOps()
		s.finalSweep()
	case "emit":
		emitted := c.emitArgs()
		s.hf.maxCall = len(emitted)
		calls := 0
		var second []KVD // what the API record holds when it is emitted again
		var m2 *model
		proc := &editProc{fn: func(r *sdklog.Record) {
			calls++
			switch calls {
			case 1:
				m := newModel(c.CountLimit)
				for _, kv := range emitted {
					m.add([]KVD{kv}, &s.of) // the logger adds them one by one
				}
				s.recs = []*sdklog.Record{r}
				s.models = []*model{m}
				s.checkAll("Emit", -1)
				s.applyOps()
			case 2:
				m2 = newModel(c.CountLimit)
				for _, kv := range second {
					m2.add([]KVD{kv}, &s.of)
				}
				if !s.fatal {
					s.checkRecord("second Emit of the same API record: record", observe(r), m2)
				}
			}
		}}
		exp := &recExporter{}
		var opts []sdklog.LoggerProviderOption
		restore := func() {}
		if solo {
			opts, restore = limitConfig(c)
		} else {
			if c.Config != "" {
				panic("c17: a case that shares the process configures its limits by option")
			}
			opts = []sdklog.LoggerProviderOption{sdklog.WithAttributeCountLimit(c.CountLimit), sdklog.WithAttributeValueLengthLimit(c.LenLimit)}
		}
		opts = append(opts,
			sdklog.WithResource(resource.Empty()),
			sdklog.WithProcessor(proc),
			sdklog.WithProcessor(sdklog.NewSimpleProcessor(exp)),
		)
		p := sdklog.NewLoggerProvider(opts...)
		restore() // the provider is documented to read its configuration when it is built
		var rec log.Record
		rec.SetBody(log.StringValue("c17"))
		arg := withSpare(emitted, c.EmitSpare)
		rec.AddAttributes(arg...)
		s.lent = append(s.lent, arg)
		if c.EmitScribble > 0 {
			scribble(arg, c.EmitScribble)
			s.hf.emitScribbled = true
		}
		lg := p.Logger("c17")
		lg.Emit(context.Background(), rec)
		want := 1
		var fp0 string
		if calls == 1 && len(exp.got) == 1 && !s.fatal {
			// what the next processor / the exporter sees is the record as
			// the first processor left it.
			o := observe(&exp.got[0])
			fp0 = o.fingerprint()
			s.checkRecord("exported record", o, s.models[0])
		}
		if c.EmitTwice && calls == 1 && !s.fatal {
			want = 2
			s.hf.emitTwice = true
			rec.WalkAttributes(func(kv log.KeyValue) bool {
				second = append(second, KVD{K: vk.Str(kv.Key), V: fromValue(kv.Value)})
				return true
			})
			lg.Emit(context.Background(), rec)
			if calls == 2 && len(exp.got) == 2 && !s.fatal {
				s.checkRecord("second exported record", observe(&exp.got[1]), m2)
			}
		}
		_ = p.Shutdown(context.Background())
		if !s.fatal && (calls != want || len(exp.got) != want) {
			s.bad("emit_delivery", "%d Emit: processor called %d times, exporter received %d records", want, calls, len(exp.got))
		}
		s.finalSweep()
		if !s.fatal && fp0 != "" {
			// the exporter's copy of the first record is retained output:
			// nothing that happened afterwards may have changed it.
			if fp := observe(&exp.got[0]).fingerprint(); fp != fp0 {
				s.bad("record_changed_without_call", "the exporter's Clone of the first emitted record changed after it was exported: returned %s, now returns %s", fp0, fp)
			}
		}
	default:
		panic("c17: unknown path " + c.Path)
	}

	var info vk.Info
	f, v, h := s.of, s.vf, s.hf
	overwrite := f.overwriteInline || f.overwriteOverflow
	info.NonTrivial = overwrite || f.limitMidCall || v.nestedTruncated
	info.Class("path=" + c.Path)
	if c.Path == "emit" {
		cfg := c.Config
		if cfg == "" {
			cfg = "options"
		}
		info.Class("limits_configured_by=" + cfg)
		info.ClassIf(c.Config == "default" && f.droppedByLimit > 0, "default_count_limit_128_reached")
	}
	info.ClassIf(c.LenLimit > 8 && (v.topTruncated || v.nestedTruncated), "string_truncated_under_len_limit>8")
	info.ClassIf(c.LenLimit > 8 && v.invalidTruncated, "invalid_utf8_string_truncated_under_len_limit>8")
	info.Class(limitLabel("count_limit", c.CountLimit, countLimits))
	info.Class(limitLabel("len_limit", c.LenLimit, lenLimits))
	info.ClassIf(f.overwriteInline, "later_call_overwrites_inline_key")
	info.ClassIf(f.overwriteOverflow, "later_call_overwrites_overflow_key")
	info.ClassIf(f.dupWithinCall, "duplicate_key_within_call")
	info.ClassIf(f.limitMidCall, "limit_reached_mid_call")
	info.ClassIf(f.updateWhenFull, "update_of_held_key_when_full")
	info.ClassIf(f.droppedByLimit > 0, "dropped_by_count_limit")
	info.ClassIf(v.topTruncated, "top_level_string_truncated")
	info.ClassIf(v.nestedTruncated, "nested_string_truncated")
	info.ClassIf(v.invalidTruncated, "invalid_utf8_string_truncated")
	info.ClassIf(v.fffdTruncated, "string_with_literal_U+FFFD_truncated")
	info.ClassIf(v.multibyteFits, "bytes_over_limit_characters_within")
	info.ClassIf(v.shortInvalidKept, "invalid_utf8_within_byte_limit_kept")
	info.ClassIf(v.nestedDupMap, "held_value_offered_with_duplicate_nested_keys")
	for _, d := range []int{9, 17, 32, 33, 65} {
		info.ClassIf(v.deepestTruncated >= d, fmt.Sprintf("string_truncated_under>=%d_levels_of_slices/maps", d))
		info.ClassIf(v.deepestDupMap >= d, fmt.Sprintf("duplicate_nested_keys_under>=%d_levels", d))
	}
	info.ClassIf(v.deepestHeld >= 33, "held_value_nested>=33_deep")
	info.ClassIf(h.clones > 0, "cloned")
	info.ClassIf(h.fresh > 0, "second_unrelated_record")
	info.ClassIf(len(h.editedAfterFork) >= 2, "two_or_more_records_edited_side_by_side")
	overflowMulti := false
	maxHeld := 0
	nd := false
	for _, m := range s.models {
		if len(s.recs) > 1 && len(m.keys) > 5 {
			overflowMulti = true
		}
		maxHeld = max(maxHeld, len(m.keys))
		nd = nd || m.nestedDups > 0
	}
	info.ClassIf(overflowMulti, "several_records_one_uses_overflow_slice")
	info.ClassIf(h.setAfterAdd, "set_after_add")
	info.ClassIf(maxHeld > 5, "overflow_slice_used(>5 held)")
	info.ClassIf(maxHeld == 5, "exactly_5_held")
	info.ClassIf(nd, "non_counting_class(duplicate nested keys offered)")
	info.ClassIf(!nd, "counting_class")
	// the hostile caller
	info.ClassIf(h.spare, "hostile:arg_slice_with_spare_capacity")
	info.ClassIf(h.scratch, "hostile:arg_in_scratch_buffer")
	info.ClassIf(h.scratchReused, "hostile:scratch_buffer_reused_for_a_later_call")
	info.ClassIf(h.same, "hostile:same_slice_passed_again")
	info.ClassIf(h.sameOtherRecord, "hostile:same_slice_passed_to_two_records")
	info.ClassIf(h.scribbled, "hostile:slice_scribbled_right_after_call")
	info.ClassIf(h.setKeptOverflow, "one_Set_keeps_>5_attributes")
	info.ClassIf(h.setOverflowScribbled, "hostile:Set_keeping_>5_then_slice_scribbled")
	info.ClassIf(h.setOverflowSameOther, "hostile:Set_keeping_>5_then_same_slice_to_other_record")
	info.ClassIf(h.setOverflowThenReuse, "hostile:Set_keeping_>5_then_scratch_refilled")
	info.ClassIf(h.setKeptOverflow && h.finalSweeps, "hostile:Set_keeping_>5_then_final_sweep")
	info.ClassIf(h.emitScribbled, "hostile:api_record_arg_scribbled_before_emit")
	info.ClassIf(h.emitTwice, "same_api_record_emitted_twice")
	// sizes
	switch {
	case h.maxCall >= 10000:
		info.Class("largest_call>=10000_kvs")
	case h.maxCall >= 1000:
		info.Class("largest_call_1000-9999_kvs")
	case h.maxCall >= 100:
		info.Class("largest_call_100-999_kvs")
	case h.maxCall > 12:
		info.Class("largest_call_13-99_kvs")
	}
	info.ClassIf(maxHeld >= 1000, "record_holds>=1000")
	info.ClassIf(maxHeld >= 100 && maxHeld < 1000, "record_holds_100-999")
	info.ClassIf(h.maxCallDistinct >= 1000, "one_call_offers>=1000_distinct_keys")
	info.ClassIf(h.bulkDup, "bulk_call_repeats_keys")
	info.ClassIf(h.smallAfterBig, "small_call_after_call_of>=100")
	info.ClassIf(h.smallAfterBigOther, "small_call_on_other_record_after_call_of>=100")
	info.ClassIf(h.smallAfterBigOverlap, "small_call_after_call_of>=100_shares_a_key_with_it")
	info.ClassIf(c.CountLimit > 7 && c.CountLimit != 128, "count_limit_from_log_scale")
	info.ClassIf(c.CountLimit > 128 && f.droppedByLimit > 0, "count_limit>128_reached")
	info.ClassIf(c.LenLimit > 8, "len_limit>8")
	return s.vs, info
}

// limitLabel names a limit exactly when it is one of the corner values and by
// its decade otherwise (limits drawn from a log scale).
func limitLabel(name string, v int, corners []int) string {
	for _, c := range corners {
		if c == v {
			return fmt.Sprintf("%s=%d", name, v)
		}
	}
	lo := 1
	for lo*10 <= v {
		lo *= 10
	}
	return fmt.Sprintf("%s=%d..%d(log scale)", name, lo, lo*10-1)
}

var known = map[string]func(Case, vk.Violation) bool{
	// WithAttributeCountLimit(0): documented "no attributes will be
	// recorded", implemented as unlimited.
	"log_count_limit_zero": func(c Case, v vk.Violation) bool {
		return c.CountLimit == 0 && v.Kind == "count_limit_zero_not_enforced"
	},
}

func TestRecordModel(t *testing.T) {
	vk.Run(t, vk.Spec[Case]{
		Property: "C17", Check: "record_model",
		Rule: "count limit in {-1,0,1,2,3,5,6,7,128} x length limit in {-1,0,1,3,8}; 1..12 SetAttributes/AddAttributes/Clone/new-record steps (0..10 kvs each, key alphabets of 2/7/12 keys + empty/invalid keys, every log.Value kind, nesting depth <= 3 and, for 1 value in 80, a chain of 1..127 slice / map levels (corners around 8, 16, 32, 33, 64) over a string 1-3 characters beyond the limit, hostile/invalid strings) on a logtest.RecordFactory record and up to three more records (clones or unrelated ones), every record compared after every step with its own ordered-map-with-capacity model and with its previous fingerprint when the step was not a call on it; hostile caller: arguments lent in exact / spare-capacity / reused scratch / the previous call's very slice (also to another record), scribbled over after a generated fraction of calls and all of them at the end of the case; " +
			"non-trivial = a later call overwrites a key that is already held, or the count limit is reached in the middle of a call, or a nested string is truncated",
		Quick: 30000, Thorough: 400000,
		Gen: func(t *rapidT) Case { return genCase(t, "direct", false) }, Run: run,
		Known: known,
	})
}

func TestEmitModel(t *testing.T) {
	vk.Run(t, vk.Spec[Case]{
		Property: "C17", Check: "emit_model",
		Rule: "same limits; an API log.Record carrying 0..12 attributes is emitted through a LoggerProvider configured with the limits - by the two options (half of the cases), by the two OTEL_LOGRECORD_ATTRIBUTE_* environment variables, by both with different values (the option wins), one of each, or not at all (defaults 128 / unlimited) - (the SDK adds them one by one); the first processor checks the record, applies 0..8 further Set/Add/Clone/new-record steps inside OnEmit with the same hostile caller (checked after every step); a SimpleProcessor + recording exporter registered after it must see the same final record; the slice given to the API record is scribbled before Emit in a fraction of cases; in a third of the cases the same API record is emitted a second time and the exporter's Clone of the first record must not change; " +
			"non-trivial = as for record_model",
		Quick: 15000, Thorough: 200000,
		Gen: func(t *rapidT) Case { return genCase(t, "emit", false) }, Run: run,
		Known: known,
	})
}

func TestStringLimits(t *testing.T) {
	vk.Run(t, vk.Spec[Case]{
		Property: "C17", Check: "string_limits",
		Rule: "length limit in {0,1,3,8} (-1 rarely; one case in five log-uniform in 1..511 with strings of limit-1..limit+2 mixed-width characters, optionally with invalid bytes around the cut), count limit mostly unlimited/128; 1..5 steps whose values are strings or slices/maps of strings near the limit (repeated multi-byte runes, literal U+FFFD, invalid bytes at every position, exactly limit / limit+1 characters), first step often a 7-key Set so that later calls overwrite inline and overflow keys; " +
			"non-trivial = as for record_model",
		Quick: 20000, Thorough: 280000,
		Gen: func(t *rapidT) Case { return genCase(t, "direct", true) }, Run: run,
		Known: known,
	})
}

func TestBulkCalls(t *testing.T) {
	// Every case of this check ends with two forced collections and switches
	// the collector off and on (see run); with few Ps those stop-the-world
	// phases stay cheap on a busy machine. The cases are single-goroutine.
	defer runtime.GOMAXPROCS(runtime.GOMAXPROCS(2))
	vk.Run(t, vk.Spec[Case]{
		Property: "C17", Check: "bulk_calls",
		Rule: "size as a dimension: count limit from the corner set or log-uniform in 1..16383, length limit from the corner set or log-uniform in 1..511; one or two Set/Add calls (3 in 4 cases direct, else also the emitted API record) carry 1..16383 attributes on a log scale (keys k<j> walking an arithmetic progression, optionally wrapping so that keys repeat inside the call; element i carries i), surrounded by 1..11 small calls on the same and on up to three other records whose keys are the low keys of that key space and a few keys anywhere in it; same model, same hostile caller, every record checked after every step; " +
			"non-trivial = as for record_model",
		Quick: 1000, Thorough: 14000,
		Gen: func(t *rapidT) Case {
			if rapid.IntRange(0, 3).Draw(t, "emit_path") == 0 {
				return genBulkCase(t, "emit")
			}
			return genBulkCase(t, "direct")
		}, Run: run,
		Known: known,
	})
}
