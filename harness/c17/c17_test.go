// Package c17 decides property C17 (log records obey the attribute count and
// value-length limits for every edit sequence) by running generated sequences
// of SetAttributes / AddAttributes / Clone against a reference model (an
// ordered map with capacity) on records obtained from logtest.RecordFactory
// and on records built by a real LoggerProvider while emitting.
//
// Readings of the statement (see also the final report of the check author):
//
//   - "offered" = number of top-level log.KeyValue arguments (duplicates
//     included) passed to the most recent SetAttributes and to every
//     AddAttributes after it; SetAttributes "sets (and overrides)" and resets
//     the dropped count. An attribute carried by an emitted API record counts
//     as one AddAttributes argument.
//   - counting class = no value offered since the last SetAttributes contains
//     a map with a duplicate nested key: AttributesLen + DroppedAttributes ==
//     offered. Otherwise (the SDK removes duplicate nested keys while it
//     stores a value and counts each removal as a dropped attribute, which
//     the statement neither demands nor excludes) only
//     offered <= Len + Dropped <= offered + (duplicate nested entries offered)
//     is asserted, and nested maps are compared as key -> value supplied last.
//   - the order in which WalkAttributes yields the attributes is not asserted
//     (the statement speaks of which keys are retained, not of their order).
//   - characters = runes; a string of at most `limit` BYTES is unchanged, a
//     longer one becomes the first `limit` valid characters of the offered
//     string (invalid bytes removed, a correctly encoded U+FFFD is a
//     character) - "truncated to this length" (WithAttributeValueLengthLimit)
//     and the doc comment of truncate. Bytes values are not subject to the
//     limit ("only applies to string and string slice attribute values").
//   - a count limit of 0 is documented as "no attributes will be recorded":
//     a record that holds nothing and reports everything as dropped is
//     accepted; one that holds something is reported with Kind
//     count_limit_zero_not_enforced (known finding) and then compared with the
//     unlimited model for all other clauses.
//   - SetAttributes / AddAttributes reorder the caller's slice in place; the
//     statement does not forbid it, nothing is asserted about it. Every call
//     gets freshly built values.
package c17

import (
	"context"
	"fmt"
	"testing"

	"go.opentelemetry.io/otel/log"
	sdklog "go.opentelemetry.io/otel/sdk/log"
	"go.opentelemetry.io/otel/sdk/log/logtest"
	"go.opentelemetry.io/otel/sdk/resource"
	"go.opentelemetry.io/otel/verif/internal/vk"
)

// Op is one step of the program.
type Op struct {
	Op  string `json:"op"`  // set | add | clone
	Rec int    `json:"rec"` // target record (modulo the number of records alive)
	KVs []KVD  `json:"kvs,omitempty"`
}

// Case is one generated input.
type Case struct {
	CountLimit int    `json:"count_limit"`
	LenLimit   int    `json:"len_limit"`
	Path       string `json:"path"`           // direct | emit
	Emit       []KVD  `json:"emit,omitempty"` // attributes of the emitted API record (emit path)
	Ops        []Op   `json:"ops"`
}

const maxRecords = 3

type obs struct {
	kvs     []KVD
	n, drop int
}

func observe(r *sdklog.Record) obs {
	var o obs
	r.WalkAttributes(func(kv log.KeyValue) bool {
		o.kvs = append(o.kvs, KVD{K: vk.Str(kv.Key), V: fromValue(kv.Value)})
		return true
	})
	o.n = r.AttributesLen()
	o.drop = r.DroppedAttributes()
	return o
}

type runState struct {
	c      Case
	vs     []vk.Violation
	seen   map[string]bool
	fatal  bool // a violation other than a suspended clause was recorded
	recs   []*sdklog.Record
	models []*model
	vf     valueFacts
	of     opFacts
}

// suspended are the clauses behind a known finding: reported once per case,
// the case goes on (so that the rest of it is still checked).
var suspended = map[string]bool{"count_limit_zero_not_enforced": true}

func (s *runState) bad(kind, format string, a ...any) {
	msg := fmt.Sprintf(format, a...)
	id := kind + "\x00" + msg
	if suspended[kind] {
		id = kind
	}
	if s.seen[id] {
		return
	}
	s.seen[id] = true
	s.vs = append(s.vs, vk.Violation{Kind: kind, Msg: msg})
	if !suspended[kind] {
		s.fatal = true
	}
}

// checkRecord compares one observation with the record's model.
func (s *runState) checkRecord(who string, o obs, m *model) {
	C := s.c.CountLimit
	if o.n != len(o.kvs) {
		s.bad("len_walk_mismatch", "%s: AttributesLen() = %d but WalkAttributes yields %d", who, o.n, len(o.kvs))
	}
	if C > 0 && o.n > C {
		s.bad("count_limit_exceeded", "%s: holds %d attributes, count limit %d: %s", who, o.n, C, renderKVs(o.kvs))
	}
	if C == 0 {
		if o.n == 0 && len(o.kvs) == 0 && o.drop == m.offered {
			return // documented behaviour: nothing recorded, everything dropped.
		}
		if o.n > 0 || len(o.kvs) > 0 {
			s.bad("count_limit_zero_not_enforced", "count limit 0 (documented: \"no attributes will be recorded\") but the record holds %d attribute(s)", max(o.n, len(o.kvs)))
		}
		// all other clauses: against the unlimited model.
	}
	held := map[string]VD{}
	for _, kv := range o.kvs {
		k := string(kv.K)
		if _, dup := held[k]; dup {
			s.bad("duplicate_key", "%s: key %q is held more than once: %s", who, k, renderKVs(o.kvs))
		}
		held[k] = kv.V
	}
	cm := cmp{lim: s.c.LenLimit, bad: s.bad, facts: &s.vf}
	for _, k := range m.keys {
		hv, ok := held[k]
		if !ok {
			s.bad("missing_key", "%s: key %q should be held (model keys %q), record holds %s", who, k, m.keys, renderKVs(o.kvs))
			continue
		}
		cm.value(fmt.Sprintf("%s key %q", who, k), 0, hv, m.val[k])
	}
	for _, kv := range o.kvs {
		if _, ok := m.val[string(kv.K)]; !ok {
			s.bad("unexpected_key", "%s: key %q is held but the model (earliest keys retained, capacity %d) holds %q", who, string(kv.K), C, m.keys)
			cm.anyStrings(fmt.Sprintf("%s key %q", who, string(kv.K)), kv.V)
		}
	}
	sum := o.n + o.drop
	if m.nestedDups == 0 {
		if sum != m.offered {
			s.bad("len_plus_dropped_ne_offered", "%s: AttributesLen %d + DroppedAttributes %d = %d, offered since the last SetAttributes %d", who, o.n, o.drop, sum, m.offered)
		}
	} else if sum < m.offered || sum > m.offered+m.nestedDups {
		s.bad("len_plus_dropped_out_of_bounds", "%s: AttributesLen %d + DroppedAttributes %d = %d, offered %d with %d duplicate nested map entries", who, o.n, o.drop, sum, m.offered, m.nestedDups)
	}
}

func (s *runState) checkAll(step string) {
	for i, r := range s.recs {
		s.checkRecord(fmt.Sprintf("after %s: record %d", step, i), observe(r), s.models[i])
	}
}

// applyOps runs the program on s.recs / s.models (record 0 must exist).
func (s *runState) applyOps() {
	for i, op := range s.c.Ops {
		if s.fatal {
			return
		}
		t := op.Rec % len(s.recs)
		if t < 0 {
			t = 0
		}
		step := fmt.Sprintf("op %d %s(rec %d, %d kvs)", i, op.Op, t, len(op.KVs))
		switch op.Op {
		case "set":
			s.recs[t].SetAttributes(toKVs(op.KVs)...)
			s.models[t].set(op.KVs, &s.of)
		case "add":
			s.recs[t].AddAttributes(toKVs(op.KVs)...)
			s.models[t].add(op.KVs, &s.of)
		case "clone":
			if len(s.recs) >= maxRecords {
				continue
			}
			c := s.recs[t].Clone()
			s.recs = append(s.recs, &c)
			s.models = append(s.models, s.models[t].clone())
		default:
			panic("c17: unknown op " + op.Op)
		}
		s.checkAll(step)
	}
}

type editProc struct{ fn func(*sdklog.Record) }

func (p *editProc) OnEmit(_ context.Context, r *sdklog.Record) error { p.fn(r); return nil }
func (p *editProc) Shutdown(context.Context) error                   { return nil }
func (p *editProc) ForceFlush(context.Context) error                 { return nil }

type recExporter struct{ got []sdklog.Record }

func (e *recExporter) Export(_ context.Context, rs []sdklog.Record) error {
	for i := range rs {
		e.got = append(e.got, rs[i].Clone())
	}
	return nil
}
func (e *recExporter) Shutdown(context.Context) error   { return nil }
func (e *recExporter) ForceFlush(context.Context) error { return nil }

func run(c Case) ([]vk.Violation, vk.Info) {
	s := &runState{c: c, seen: map[string]bool{}}
	switch c.Path {
	case "direct":
		r := logtest.RecordFactory{AttributeCountLimit: c.CountLimit, AttributeValueLengthLimit: c.LenLimit}.NewRecord()
		s.recs = []*sdklog.Record{&r}
		s.models = []*model{newModel(c.CountLimit)}
		s.checkAll("creation")
		s.applyOps()
	case "emit":
		calls := 0
		proc := &editProc{fn: func(r *sdklog.Record) {
			calls++
			if calls > 1 {
				return
			}
			m := newModel(c.CountLimit)
			for _, kv := range c.Emit {
				m.add([]KVD{kv}, &s.of) // the logger adds them one by one
			}
			s.recs = []*sdklog.Record{r}
			s.models = []*model{m}
			s.checkAll("Emit")
			s.applyOps()
		}}
		exp := &recExporter{}
		p := sdklog.NewLoggerProvider(
			sdklog.WithResource(resource.Empty()),
			sdklog.WithAttributeCountLimit(c.CountLimit),
			sdklog.WithAttributeValueLengthLimit(c.LenLimit),
			sdklog.WithProcessor(proc),
			sdklog.WithProcessor(sdklog.NewSimpleProcessor(exp)),
		)
		var rec log.Record
		rec.SetBody(log.StringValue("c17"))
		rec.AddAttributes(toKVs(c.Emit)...)
		p.Logger("c17").Emit(context.Background(), rec)
		_ = p.Shutdown(context.Background())
		if calls != 1 || len(exp.got) != 1 {
			s.bad("emit_delivery", "one Emit: processor called %d times, exporter received %d records", calls, len(exp.got))
		} else if !s.fatal {
			// what the next processor / the exporter sees is the record as
			// the first processor left it.
			s.checkRecord("exported record", observe(&exp.got[0]), s.models[0])
		}
	default:
		panic("c17: unknown path " + c.Path)
	}

	var info vk.Info
	f, v := s.of, s.vf
	overwrite := f.overwriteInline || f.overwriteOverflow
	info.NonTrivial = overwrite || f.limitMidCall || v.nestedTruncated
	info.Class("path=" + c.Path)
	info.Class(fmt.Sprintf("count_limit=%d", c.CountLimit))
	info.Class(fmt.Sprintf("len_limit=%d", c.LenLimit))
	info.ClassIf(f.overwriteInline, "later_call_overwrites_inline_key")
	info.ClassIf(f.overwriteOverflow, "later_call_overwrites_overflow_key")
	info.ClassIf(f.dupWithinCall, "duplicate_key_within_call")
	info.ClassIf(f.limitMidCall, "limit_reached_mid_call")
	info.ClassIf(f.updateWhenFull, "update_of_held_key_when_full")
	info.ClassIf(f.droppedByLimit > 0, "dropped_by_count_limit")
	info.ClassIf(v.topTruncated, "top_level_string_truncated")
	info.ClassIf(v.nestedTruncated, "nested_string_truncated")
	info.ClassIf(v.invalidTruncated, "invalid_utf8_string_truncated")
	info.ClassIf(v.fffdTruncated, "string_with_literal_U+FFFD_truncated")
	info.ClassIf(v.multibyteFits, "bytes_over_limit_characters_within")
	info.ClassIf(v.shortInvalidKept, "invalid_utf8_within_byte_limit_kept")
	info.ClassIf(v.nestedDupMap, "held_value_offered_with_duplicate_nested_keys")
	info.ClassIf(len(s.recs) > 1, "cloned")
	overflowClone, setAfterAdd, sawAdd := false, false, len(c.Emit) > 0
	nrec := 1
	edited := map[int]bool{}
	for _, op := range c.Ops {
		if op.Op == "clone" {
			if nrec < maxRecords {
				nrec++
			}
			continue
		}
		if op.Op == "set" && sawAdd {
			setAfterAdd = true
		}
		if op.Op == "add" {
			sawAdd = true
		}
		if nrec > 1 && len(op.KVs) > 0 {
			edited[op.Rec%nrec] = true
		}
	}
	divergent := len(edited)
	for _, m := range s.models {
		if len(s.recs) > 1 && len(m.keys) > 5 {
			overflowClone = true
		}
	}
	info.ClassIf(divergent >= 2, "clone_and_original_both_edited")
	info.ClassIf(overflowClone, "cloned_record_uses_overflow_slice")
	info.ClassIf(setAfterAdd, "set_after_add")
	maxHeld := 0
	nd := false
	for _, m := range s.models {
		maxHeld = max(maxHeld, len(m.keys))
		nd = nd || m.nestedDups > 0
	}
	info.ClassIf(maxHeld > 5, "overflow_slice_used(>5 held)")
	info.ClassIf(maxHeld == 5, "exactly_5_held")
	info.ClassIf(nd, "non_counting_class(duplicate nested keys offered)")
	info.ClassIf(!nd, "counting_class")
	return s.vs, info
}

var known = map[string]func(Case, vk.Violation) bool{
	// WithAttributeCountLimit(0): documented "no attributes will be
	// recorded", implemented as unlimited.
	"log_count_limit_zero": func(c Case, v vk.Violation) bool {
		return c.CountLimit == 0 && v.Kind == "count_limit_zero_not_enforced"
	},
}

func TestRecordModel(t *testing.T) {
	vk.Run(t, vk.Spec[Case]{
		Property: "C17", Check: "record_model",
		Rule: "count limit in {-1,0,1,2,3,5,6,7,128} x length limit in {-1,0,1,3,8}; 1..12 SetAttributes/AddAttributes/Clone steps (0..10 kvs each, key alphabets of 2/7/12 keys + empty/invalid keys, every log.Value kind, nesting depth <= 3, hostile/invalid strings) on a logtest.RecordFactory record and up to two clones, compared after every step with an ordered-map-with-capacity model per record; " +
			"non-trivial = a later call overwrites a key that is already held, or the count limit is reached in the middle of a call, or a nested string is truncated",
		Quick: 60000, Thorough: 600000,
		Gen: func(t *rapidT) Case { return genCase(t, "direct", false) }, Run: run,
		Known: known,
	})
}

func TestEmitModel(t *testing.T) {
	vk.Run(t, vk.Spec[Case]{
		Property: "C17", Check: "emit_model",
		Rule: "same limits; an API log.Record carrying 0..12 attributes is emitted through a LoggerProvider configured with the limits (the SDK adds them one by one); the first processor checks the record, applies 0..8 further Set/Add/Clone steps inside OnEmit (checked after every step); a SimpleProcessor + recording exporter registered after it must see the same final record; " +
			"non-trivial = as for record_model",
		Quick: 30000, Thorough: 300000,
		Gen: func(t *rapidT) Case { return genCase(t, "emit", false) }, Run: run,
		Known: known,
	})
}

func TestStringLimits(t *testing.T) {
	vk.Run(t, vk.Spec[Case]{
		Property: "C17", Check: "string_limits",
		Rule: "length limit in {0,1,3,8} (-1 rarely), count limit mostly unlimited/128; 1..5 steps whose values are strings or slices/maps of strings near the limit (repeated multi-byte runes, literal U+FFFD, invalid bytes at every position, exactly limit / limit+1 characters), first step often a 7-key Set so that later calls overwrite inline and overflow keys; " +
			"non-trivial = as for record_model",
		Quick: 40000, Thorough: 400000,
		Gen: func(t *rapidT) Case { return genCase(t, "direct", true) }, Run: run,
		Known: known,
	})
}
