package c17

import (
	"fmt"
	"runtime"
	"sync"
	"testing"

	"go.opentelemetry.io/otel/verif/internal/vk"
	"pgregory.net/rapid"
)

// concurrent_twins: the statement is about every record and every sequence of
// calls made on it (including those made while emitting); it does not say "as
// long as no other record is emitted in the process meanwhile", and
// Logger.Emit is documented as safe for concurrent use. Here 2..8 goroutines
// ("twins") each run the ORDINARY SEQUENTIAL emit_model property on their OWN
// data: own LoggerProvider and Logger, own API record, own attributes, own
// processor, own reference model - nothing of the harness is shared between
// them - released together, many rounds. The oracle stays the sequential
// model per goroutine, so it does not depend on the schedule: whatever the
// interleaving, the record built for API record R holds R's keys once with
// the value supplied last, count + dropped = offered, strings within the
// limit. Cross-talk through anything the SDK keeps at package level (scratch
// pools, shared buffers) shows as an ordinary violation in one of the twins.
//
// Every twin's case is first run once on its own (kinds "sequential/..."): a
// violation there is not a concurrency matter and the concurrent phase is
// skipped. Violations of the concurrent phase have kinds "concurrent/...".
//
// Schedule dimensions (part of the case): the number of twins, GOMAXPROCS
// during the case (unchanged, 1, 2: several twins per processor), and a
// helper goroutine that forces garbage collections meanwhile (a collection
// stops and re-queues every goroutine wherever it is). None of them can make
// a correct library fail. Unlike the other sub-checks a twin touches nothing
// process-wide: limits are configured by option, the collector is left alone.

// Twin is the program of one goroutine.
type Twin struct {
	Rounds int  `json:"rounds"`
	C      Case `json:"c"`
}

// TwinsCase is one concurrent program.
type TwinsCase struct {
	Twins []Twin `json:"twins"`
	Procs int    `json:"procs"` // GOMAXPROCS during the case; 0 = unchanged
	GC    bool   `json:"gc"`    // a helper goroutine calls runtime.GC() while the twins run
}

func genTwins(t *rapid.T) TwinsCase {
	c := TwinsCase{}
	n := rapid.SampledFrom([]int{2, 2, 3, 4, 4, 6, 8, 8}).Draw(t, "ntwins")
	c.Procs = rapid.SampledFrom([]int{0, 0, 1, 2, 2}).Draw(t, "procs")
	c.GC = rapid.IntRange(0, 3).Draw(t, "gc") != 0
	// the size of the emitted records is a dimension of the case (twins of one
	// case are of a kind: that is when they meet in the same code).
	size := rapid.IntRange(0, 3).Draw(t, "size")
	for i := 0; i < n; i++ {
		var tc Case
		if size == 0 {
			tc = genCase(t, "emit", false)
		} else {
			tc = genTwinBulk(t, []int{6, 9, 11}[size-1]) // up to 127 / 1023 / 4095 attributes
		}
		// nothing process-wide: limits by option; the open finding about a
		// count limit of 0 is record_model's business.
		tc.Config, tc.EnvCount, tc.EnvLen = "", 0, 0
		if tc.CountLimit == 0 {
			tc.CountLimit = 1
		}
		tw := Twin{C: tc}
		if size <= 1 {
			tw.Rounds = 1 << rapid.IntRange(0, 7).Draw(t, "roundbits")
		} else {
			tw.Rounds = 1 << rapid.IntRange(0, 4).Draw(t, "roundbits")
		}
		c.Twins = append(c.Twins, tw)
	}
	return c
}

// genTwinBulk: an emitted API record carrying up to 2^(maxExp+1)-1 attributes
// (element i carries i or a template value), followed by a few small steps
// inside OnEmit. The count limit is finite so that one Emit stays cheap.
func genTwinBulk(t *rapid.T, maxExp int) Case {
	c := Case{Path: "emit"}
	if rapid.Bool().Draw(t, "count_limit_wide") {
		c.CountLimit = genLogInt(t, 8, "count_limit_log")
	} else {
		c.CountLimit = rapid.SampledFrom([]int{1, 2, 3, 5, 6, 7, 128}).Draw(t, "count_limit")
	}
	c.LenLimit = rapid.SampledFrom(lenLimits).Draw(t, "len_limit")
	g := genCtx{lenLimit: c.LenLimit}
	alphabet := []string{bulkKey(0), bulkKey(1), bulkKey(2), bulkKey(3), bulkKey(4), bulkKey(5), bulkKey(genLogInt(t, 12, "far_key"))}
	c.Emit = g.genKVs(t, alphabet, 4)
	c.EmitBulk = g.genBulk(t, maxExp)
	c.EmitSpare = rapid.IntRange(0, 3).Draw(t, "emit_spare")
	c.EmitTwice = rapid.IntRange(0, 3).Draw(t, "emit_twice") == 0
	c.Ops = rapid.SliceOfN(g.opGen(alphabet, false, 6), 0, 3).Draw(t, "ops")
	return c
}

func runTwins(c TwinsCase) ([]vk.Violation, vk.Info) {
	var out []vk.Violation
	var info vk.Info
	body := func(tc Case, rounds int) []vk.Violation {
		for r := 0; r < rounds; r++ {
			if vs, _ := runWith(tc, false); len(vs) > 0 {
				for i := range vs {
					vs[i].Msg = fmt.Sprintf("round %d: %s", r, vs[i].Msg)
				}
				return vs
			}
		}
		return nil
	}
	// each twin alone first
	for i, tw := range c.Twins {
		for _, v := range body(tw.C, 1) {
			out = append(out, vk.V("sequential/"+v.Kind, "twin %d of %d running alone: %s", i, len(c.Twins), v.Msg))
		}
	}
	if len(out) > 0 {
		return out, info
	}

	if c.Procs > 0 {
		prev := runtime.GOMAXPROCS(c.Procs)
		defer runtime.GOMAXPROCS(prev)
	}
	results := make([][]vk.Violation, len(c.Twins))
	panics := make([]any, len(c.Twins))
	start := make(chan struct{})
	stop := make(chan struct{})
	var wg, gcwg sync.WaitGroup
	for i := range c.Twins {
		wg.Add(1)
		go func(i int) {
			defer wg.Done()
			defer func() {
				if p := recover(); p != nil {
					panics[i] = p
				}
			}()
			<-start
			results[i] = body(c.Twins[i].C, c.Twins[i].Rounds)
		}(i)
	}
	if c.GC {
		gcwg.Add(1)
		go func() {
			defer gcwg.Done()
			<-start
			for {
				select {
				case <-stop:
					return
				default:
					runtime.GC()
				}
			}
		}()
	}
	close(start)
	wg.Wait()
	close(stop)
	gcwg.Wait()

	for i := range c.Twins {
		if panics[i] != nil {
			out = append(out, vk.V("concurrent/panic", "twin %d of %d, %d others emitting their own records through their own providers: panic: %v", i, len(c.Twins), len(c.Twins)-1, panics[i]))
		}
		for _, v := range results[i] {
			if len(out) < 12 {
				out = append(out, vk.V("concurrent/"+v.Kind, "twin %d of %d, %d others emitting their own records through their own providers at the same time (alone the same program held): %s", i, len(c.Twins), len(c.Twins)-1, v.Msg))
			}
		}
	}

	work, biggest := 0, 0
	for _, tw := range c.Twins {
		work += tw.Rounds
		biggest = max(biggest, len(tw.C.emitArgs()))
	}
	info.NonTrivial = true
	info.Class(fmt.Sprintf("twins=%d", len(c.Twins)))
	info.Class(fmt.Sprintf("gomaxprocs=%d", c.Procs))
	info.ClassIf(c.GC, "forced_collections_meanwhile")
	info.ClassIf(work >= 100, "rounds_total>=100")
	switch {
	case biggest >= 1000:
		info.Class("largest_emitted_record>=1000_attributes")
	case biggest >= 100:
		info.Class("largest_emitted_record_100-999_attributes")
	case biggest > 12:
		info.Class("largest_emitted_record_13-99_attributes")
	default:
		info.Class("largest_emitted_record<=12_attributes")
	}
	return out, info
}

func TestConcurrentTwins(t *testing.T) {
	vk.Run(t, vk.Spec[TwinsCase]{
		Property: "C17", Check: "concurrent_twins",
		Rule: "2..8 goroutines, each with its own emit_model case (own LoggerProvider configured by option, own Logger, API record of 0..12 or - size is a dimension - up to ~4000 attributes, own OnEmit program, own model; count limit never 0), each running the sequential emit_model property on it 1..128 times (1..16 for the large sizes) - first alone, then released together; GOMAXPROCS unchanged / 1 / 2 and forced garbage collections meanwhile are part of the case; the oracle is the sequential model per goroutine (schedule independent); " +
			"non-trivial = every case (at least two goroutines ran together); distinct = distinct case encodings",
		Quick: 150, Thorough: 2500,
		Repeat: 20,
		Gen:    genTwins, Run: runTwins,
	})
}
