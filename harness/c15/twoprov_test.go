package c15

import (
	"context"
	"fmt"
	"runtime"
	"sort"
	"strconv"
	"strings"
	"sync"
	"testing"
	"time"

	"go.opentelemetry.io/otel"
	sdktrace "go.opentelemetry.io/otel/sdk/trace"
	"go.opentelemetry.io/otel/trace"
	"go.opentelemetry.io/otel/verif/internal/vk"
	"pgregory.net/rapid"
)

// trace_providers: the membership clause ("ended spans are delivered to
// exactly the processors currently registered") judged PER PROVIDER when 2-3
// independent TracerProviders live in one process and their collaborators
// call into EACH OTHER's provider: the exporter behind a stock simple / batch
// span processor of provider i (inside ExportSpans) and a recording processor
// of provider i (inside OnEnd) may start and end a span through a tracer of
// provider j. To keep the unchanged tree free of lock cycles (OnEnd of the
// simple span processor holds its exporterMu while it calls ExportSpans) the
// calls only go "upwards": j > i.
//
// The op lists (one per provider: Start / End / Register / Unregister of
// members and non-members) are run either by ONE goroutine in a generated
// interleaving (the cross calls are then re-entrant across providers on one
// goroutine) or by one goroutine per provider at the same moment, optionally
// with GOMAXPROCS 1 / 2 and with exporters that yield the processor inside
// ExportSpans. Every provider's membership is edited by one goroutine only,
// so the model is sequential per provider and independent of the schedule.
//
// Oracle, by span identity (span names carry provider and number): a
// recording exporter reads the batch it is given when ExportSpans is entered
// (copied at once) and again just before it returns (an exporter may read its
// batch during the whole call); a recording processor copies the name in
// OnEnd. After every provider was shut down with a live context, for each
// processor ever registered with provider i both readings must be exactly the
// multiset of provider i's spans whose End was issued while it was
// registered, and no reading may contain a span of another provider. The
// spans the collaborators start themselves are ignored by the multiset
// comparison (as in trace_membership) but do count as foreign when they show
// up at another provider's processor. Shutdown counts: == 1 for every
// processor / exporter that was ever registered.

type XOp struct {
	K string `json:"k"` // start | end | reg | unreg
	X int    `json:"x"` // end: picks an open span; reg / unreg: processor of the provider's pool
}

type XProc struct {
	Kind  string `json:"kind"`  // simple | batch | rec
	Cross int    `json:"cross"` // 0 = no call; d > 0: ExportSpans / OnEnd starts and ends a span on provider own+d (if there is one)
	Yield int    `json:"yield"` // runtime.Gosched() calls inside ExportSpans / OnEnd before the batch is read again
}

type XProv struct {
	Pool []XProc `json:"pool"`
	Init []int   `json:"init"` // registered at construction
	Ops  []XOp   `json:"ops"`
}

type XProg struct {
	Provs []XProv `json:"provs"`
	Conc  bool    `json:"conc"`  // one goroutine per provider
	Sched []int   `json:"sched"` // sequential mode: whose op comes next
	Procs int     `json:"procs"` // GOMAXPROCS during the case; 0 = unchanged
}

type xobs struct {
	mu             sync.Mutex
	early, late    []string
	shutdowns      int
	registered     bool
	expected       []string
	member         bool
	prov, idx      int
	kind           string
	proc           sdktrace.SpanProcessor
	conf           XProc
	tracers        []trace.Tracer
	nested         int
	exportsEntered int
}

func batchNames(spans []sdktrace.ReadOnlySpan) []string {
	out := make([]string, len(spans))
	for i, s := range spans {
		if s == nil {
			out[i] = "<nil>"
			continue
		}
		out[i] = s.Name()
	}
	return out
}

func (o *xobs) crossCall() {
	for i := 0; i < o.conf.Yield; i++ {
		runtime.Gosched()
	}
	j := o.prov + o.conf.Cross
	if o.conf.Cross > 0 && j < len(o.tracers) {
		o.mu.Lock()
		o.nested++
		n := o.nested
		o.mu.Unlock()
		_, sp := o.tracers[j].Start(context.Background(), fmt.Sprintf("p%dn%d.%d.%d", j, o.prov, o.idx, n))
		sp.End()
	}
}

type xExp struct{ o *xobs }

func (e xExp) ExportSpans(_ context.Context, spans []sdktrace.ReadOnlySpan) error {
	early := batchNames(spans) // copied at once
	e.o.mu.Lock()
	e.o.exportsEntered++
	e.o.early = append(e.o.early, early...)
	e.o.mu.Unlock()
	e.o.crossCall()
	late := batchNames(spans) // the batch is the exporter's for the whole call
	e.o.mu.Lock()
	e.o.late = append(e.o.late, late...)
	e.o.mu.Unlock()
	return nil
}

func (e xExp) Shutdown(context.Context) error {
	e.o.mu.Lock()
	e.o.shutdowns++
	e.o.mu.Unlock()
	return nil
}

type xRec struct{ o *xobs }

func (r *xRec) OnStart(context.Context, sdktrace.ReadWriteSpan) {}
func (r *xRec) OnEnd(s sdktrace.ReadOnlySpan) {
	n := s.Name()
	r.o.mu.Lock()
	r.o.early = append(r.o.early, n)
	r.o.mu.Unlock()
	r.o.crossCall()
	n2 := s.Name()
	r.o.mu.Lock()
	r.o.late = append(r.o.late, n2)
	r.o.mu.Unlock()
}
func (r *xRec) ForceFlush(context.Context) error { return nil }
func (r *xRec) Shutdown(context.Context) error {
	r.o.mu.Lock()
	r.o.shutdowns++
	r.o.mu.Unlock()
	return nil
}

func (o *xobs) build() {
	switch o.kind {
	case "simple":
		o.proc = sdktrace.NewSimpleSpanProcessor(xExp{o})
	case "batch":
		o.proc = sdktrace.NewBatchSpanProcessor(xExp{o})
	default:
		o.proc = &xRec{o}
	}
	o.registered = true
	o.member = true
}

// spanProv parses the provider out of a span name "p<i>s<n>" / "p<i>n...".
func spanProv(name string) (prov int, own bool) {
	if !strings.HasPrefix(name, "p") {
		return -1, false
	}
	i := 1
	for i < len(name) && name[i] >= '0' && name[i] <= '9' {
		i++
	}
	n, err := strconv.Atoi(name[1:i])
	if err != nil || i >= len(name) {
		return -1, false
	}
	return n, name[i] == 's'
}

func validX(p XProg) bool {
	if len(p.Provs) < 2 || len(p.Provs) > 3 || p.Procs < 0 || p.Procs > 4 {
		return false
	}
	for _, pv := range p.Provs {
		if len(pv.Pool) < 1 || len(pv.Pool) > 4 || len(pv.Ops) > 64 {
			return false
		}
		seen := map[int]bool{}
		for _, x := range pv.Init {
			if x < 0 || x >= len(pv.Pool) || seen[x] {
				return false
			}
			seen[x] = true
		}
		for _, pc := range pv.Pool {
			if pc.Kind != "simple" && pc.Kind != "batch" && pc.Kind != "rec" {
				return false
			}
			if pc.Cross < 0 || pc.Cross > 2 || pc.Yield < 0 || pc.Yield > 8 {
				return false
			}
		}
		for _, op := range pv.Ops {
			switch op.K {
			case "start", "end":
			case "reg", "unreg":
				if op.X < 0 || op.X >= len(pv.Pool) {
					return false
				}
			default:
				return false
			}
			if op.X < 0 {
				return false
			}
		}
	}
	return true
}

func runProviders(p XProg) ([]vk.Violation, vk.Info) {
	var info vk.Info
	if !validX(p) {
		info.Class("invalid_program(not run)")
		return nil, info
	}
	otel.SetErrorHandler(&vk.ErrCapture{})
	if p.Procs > 0 {
		defer runtime.GOMAXPROCS(runtime.GOMAXPROCS(p.Procs))
	}
	n := len(p.Provs)
	tps := make([]*sdktrace.TracerProvider, n)
	tracers := make([]trace.Tracer, n)
	obs := make([][]*xobs, n)
	for i, pv := range p.Provs {
		obs[i] = make([]*xobs, len(pv.Pool))
		for k, pc := range pv.Pool {
			obs[i][k] = &xobs{prov: i, idx: k, kind: pc.Kind, conf: pc, tracers: tracers}
		}
		var opts []sdktrace.TracerProviderOption
		for _, x := range pv.Init {
			obs[i][x].build()
			opts = append(opts, sdktrace.WithSpanProcessor(obs[i][x].proc))
		}
		tps[i] = sdktrace.NewTracerProvider(opts...)
		tracers[i] = tps[i].Tracer("c15/providers")
	}

	var pmu sync.Mutex
	var panics []string
	cls := map[string]bool{}
	var cmu sync.Mutex
	class := func(c string) { cmu.Lock(); cls[c] = true; cmu.Unlock() }

	type state struct {
		open  []trace.Span
		names []string
		next  int
		pos   int
	}
	sts := make([]*state, n)
	for i := range sts {
		sts[i] = &state{}
	}
	// step runs the next op of provider i; false when it has none left.
	step := func(i int) bool {
		st := sts[i]
		if st.pos >= len(p.Provs[i].Ops) {
			return false
		}
		op := p.Provs[i].Ops[st.pos]
		st.pos++
		defer func() {
			if r := recover(); r != nil {
				pmu.Lock()
				panics = append(panics, fmt.Sprintf("provider %d op %d %s x=%d panicked: %v", i, st.pos-1, op.K, op.X, r))
				pmu.Unlock()
			}
		}()
		switch op.K {
		case "start":
			name := fmt.Sprintf("p%ds%d", i, st.next)
			st.next++
			_, sp := tracers[i].Start(context.Background(), name)
			st.open = append(st.open, sp)
			st.names = append(st.names, name)
		case "end":
			if len(st.open) == 0 {
				return true
			}
			k := op.X % len(st.open)
			sp, name := st.open[k], st.names[k]
			st.open = append(st.open[:k], st.open[k+1:]...)
			st.names = append(st.names[:k], st.names[k+1:]...)
			for _, o := range obs[i] {
				if o.member {
					o.expected = append(o.expected, name)
				}
			}
			sp.End()
		case "reg":
			o := obs[i][op.X]
			if o.registered {
				return true // every processor is registered at most once
			}
			o.build()
			tps[i].RegisterSpanProcessor(o.proc)
			class("register")
		case "unreg":
			o := obs[i][op.X]
			if !o.registered {
				// a processor that was never registered: changes nothing
				tps[i].UnregisterSpanProcessor(&xRec{&xobs{prov: i, idx: -1, tracers: tracers}})
				class("unregister_non_member")
				return true
			}
			if o.member {
				class("unregister_member")
			} else {
				class("unregister_former_member")
			}
			o.member = false
			tps[i].UnregisterSpanProcessor(o.proc)
		}
		return true
	}

	if p.Conc {
		var wg sync.WaitGroup
		gate := make(chan struct{})
		for i := 0; i < n; i++ {
			wg.Add(1)
			go func(i int) {
				defer wg.Done()
				<-gate
				for step(i) {
				}
			}(i)
		}
		close(gate)
		wg.Wait()
	} else {
		for _, s := range p.Sched {
			if s >= 0 {
				step(s % n)
			}
		}
		for i := 0; i < n; i++ {
			for step(i) {
			}
		}
	}
	var vs []vk.Violation
	for i := range tps {
		func() {
			defer func() {
				if r := recover(); r != nil {
					panics = append(panics, fmt.Sprintf("Shutdown of provider %d panicked: %v", i, r))
				}
			}()
			if err := tps[i].Shutdown(context.Background()); err != nil {
				vs = append(vs, vk.V("shutdown_error", "Shutdown(live ctx) of provider %d returned %v", i, err))
			}
		}()
	}
	for _, m := range panics {
		vs = append(vs, vk.V("panic", "%s", m))
	}

	// oracle
	for i := range obs {
		for _, o := range obs[i] {
			if !o.registered {
				continue
			}
			o.mu.Lock()
			early, late, sd := append([]string{}, o.early...), append([]string{}, o.late...), o.shutdowns
			nested := o.nested
			o.mu.Unlock()
			who := fmt.Sprintf("%s processor %d of provider %d", o.kind, o.idx, i)
			if sd != 1 {
				vs = append(vs, vk.V("shutdown_count", "%s was registered once and shut down %d times after its provider's Shutdown(live ctx) returned", who, sd))
			}
			want := append([]string{}, o.expected...)
			sort.Strings(want)
			for ri, reading := range [][]string{early, late} {
				rname := "on entry of ExportSpans / OnEnd"
				if ri == 1 {
					rname = "read again before ExportSpans / OnEnd returned"
				}
				var got []string
				for _, nm := range reading {
					pr, own := spanProv(nm)
					if pr != i {
						vs = append(vs, vk.Violation{Kind: "membership/foreign_span", Msg: fmt.Sprintf("%s was delivered span %q, which was ended on provider %d where it was never registered (batch %s)", who, nm, pr, rname), Observed: reading, Expected: want})
						continue
					}
					if own {
						got = append(got, nm)
					}
				}
				sort.Strings(got)
				if strings.Join(got, ",") != strings.Join(want, ",") {
					vs = append(vs, vk.Violation{Kind: "membership/delivery", Msg: fmt.Sprintf("%s: the spans delivered (batch %s) are not exactly the spans ended on provider %d while it was registered", who, rname, i), Observed: got, Expected: want})
				}
			}
			info.Class("kind:" + o.kind)
			info.ClassIf(nested > 0, "cross_provider_call_from:"+o.kind)
			info.ClassIf(nested > 0 && len(want) > 0, "cross_provider_call_during_delivery")
			info.ClassIf(o.conf.Yield > 0 && len(want) > 0, "yielding_collaborator")
		}
	}
	if len(vs) > 8 {
		vs = vs[:8]
	}
	for c := range cls {
		info.Class(c)
	}
	info.ClassIf(p.Conc, "mode:goroutine_per_provider")
	info.ClassIf(!p.Conc, "mode:one_goroutine_interleaved")
	info.Class(fmt.Sprintf("providers:%d", n))
	info.Class(fmt.Sprintf("gomaxprocs:%d", p.Procs))
	sort.Strings(info.Classes)
	info.Classes = dedup(info.Classes)
	contains := func(c string) bool {
		for _, x := range info.Classes {
			if x == c {
				return true
			}
		}
		return false
	}
	info.NonTrivial = contains("cross_provider_call_during_delivery") || (p.Conc && contains("yielding_collaborator"))
	return vs, info
}

func genProviders(t *rapid.T) XProg {
	var p XProg
	n := rapid.IntRange(2, 3).Draw(t, "providers")
	p.Conc = rapid.Bool().Draw(t, "conc")
	p.Procs = rapid.SampledFrom([]int{0, 0, 1, 1, 2, 4}).Draw(t, "procs")
	total := 0
	for i := 0; i < n; i++ {
		var pv XProv
		k := rapid.IntRange(1, 3).Draw(t, "pool")
		for j := 0; j < k; j++ {
			pv.Pool = append(pv.Pool, XProc{
				Kind:  rapid.SampledFrom([]string{"simple", "simple", "simple", "batch", "rec"}).Draw(t, "kind"),
				Cross: rapid.SampledFrom([]int{0, 1, 1, 1, 2}).Draw(t, "cross"),
				Yield: rapid.SampledFrom([]int{0, 0, 1, 2, 4}).Draw(t, "yield"),
			})
			if rapid.IntRange(0, 2).Draw(t, "init") > 0 {
				pv.Init = append(pv.Init, j)
			}
		}
		ops := rapid.IntRange(1, 24).Draw(t, "nops")
		for j := 0; j < ops; j++ {
			kind := rapid.SampledFrom([]string{"start", "start", "start", "end", "end", "end", "reg", "unreg"}).Draw(t, "k")
			x := 0
			switch kind {
			case "end":
				x = rapid.IntRange(0, 7).Draw(t, "x")
			case "reg", "unreg":
				x = rapid.IntRange(0, k-1).Draw(t, "x")
			}
			pv.Ops = append(pv.Ops, XOp{K: kind, X: x})
		}
		total += ops
		p.Provs = append(p.Provs, pv)
	}
	if !p.Conc {
		for j := 0; j < total; j++ {
			p.Sched = append(p.Sched, rapid.IntRange(0, n-1).Draw(t, "sched"))
		}
	}
	return p
}

func TestTraceProviders(t *testing.T) {
	vk.Run(t, vk.Spec[XProg]{
		Property: "C15", Check: "trace_providers",
		Rule: "2-3 independent TracerProviders in one process, each with a pool of 1-3 processors (stock simple / batch span processors around a recording exporter, recording processors) registered at construction or by Register, op lists of 1-24 Start / End / Register / Unregister (members, former members, never-registered) per provider, run by one goroutine in a generated interleaving or by one goroutine per provider at the same moment (GOMAXPROCS unchanged / 1 / 2 / 4); the exporters (inside ExportSpans) and recording processors (inside OnEnd) optionally yield the processor and start and end a span on a provider with a larger index (re-entrant across providers, acyclic); the exporter copies the batch on entry and reads it again before it returns; all providers are shut down with a live context at the end; per provider and per processor the delivered spans (by name) must be exactly the provider's own spans ended while the processor was registered, no span of another provider, shutdown count 1; " +
			"non-trivial = a collaborator called into another provider while a span was being delivered to it, or (goroutine-per-provider mode) a yielding collaborator received spans; distinct = distinct case encodings",
		Quick: 1500, Thorough: 20000,
		Gen: genProviders, Run: runProviders,
		Known:       map[string]func(XProg, vk.Violation) bool{},
		CaseTimeout: 60 * time.Second,
		Repeat:      3,
	})
}
