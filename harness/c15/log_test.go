package c15

import (
	"context"
	"fmt"
	"sync"
	"testing"
	"time"

	"go.opentelemetry.io/otel"
	"go.opentelemetry.io/otel/log"
	lognoop "go.opentelemetry.io/otel/log/noop"
	sdklog "go.opentelemetry.io/otel/sdk/log"
	"go.opentelemetry.io/otel/verif/internal/vk"
	"pgregory.net/rapid"
)

// log processor kinds
const (
	lRec       = iota // recording processor
	lRecErr           // recording processor whose Shutdown / ForceFlush return an error
	lSimple           // NewSimpleProcessor(recording exporter)
	lSimpleNil        // NewSimpleProcessor(nil)
	lBatch            // NewBatchProcessor(recording exporter), export interval 1h
	lBatchNil         // NewBatchProcessor(nil)
	// Re-entrant ("instrumented") exporters: their Shutdown emits a record
	// (body "x") through a logger of the SAME provider, obtained right after
	// construction. Re-entrancy from Export is not generated: behind the
	// SimpleProcessor it self-deadlocks on the unchanged tree (OnEmit holds
	// the processor mutex while it calls Export), see the package comment.
	lSimpleRS // NewSimpleProcessor(exporter whose Shutdown logs)
	lBatchRS  // NewBatchProcessor(exporter whose Shutdown logs), export interval 1h
	// Degenerate stock processors: the zero values of the exported processor
	// types (no exporter, no queue).
	lSimpleZero // new(sdklog.SimpleProcessor)
	lBatchZero  // new(sdklog.BatchProcessor)
	// NewBatchProcessor(recording exporter, LProg.BOpt...): generated sizes,
	// interval and timeout (tiny, zero, negative, unset).
	lBatchOpt
	// NewBatchProcessor(exporter whose Export, for a batch that carries a
	// record of the program, and whose Shutdown emit a record "x" through a
	// logger of the same provider; LProg.BOpt...).
	lBatchRX
	// A recording processor whose Shutdown calls back into the provider that
	// is shutting it down (LProg.RecX).
	lRecRe
	lKinds
)

var lprocNames = []string{"rec", "rec_err", "simple(exp)", "simple(nil)", "batch(exp)", "batch(nil)", "simple(re-entrant exp)", "batch(re-entrant exp)",
	"zero SimpleProcessor", "zero BatchProcessor", "batch(exp, options)", "batch(exp re-entrant in Export, options)", "rec_reentrant"}

// LBatchOpt is the option list of the lBatchOpt / lBatchRX processors: bit i
// of Set says that option i is given (0 WithMaxQueueSize(Q), 1
// WithExportMaxBatchSize(B), 2 WithExportBufferSize(Buf), 3
// WithExportInterval(IvMs ms), 4 WithExportTimeout(ToMs ms)).
type LBatchOpt struct {
	Set  int `json:"set,omitempty"`
	Q    int `json:"q,omitempty"`
	B    int `json:"b,omitempty"`
	Buf  int `json:"buf,omitempty"`
	IvMs int `json:"iv_ms,omitempty"`
	ToMs int `json:"to_ms,omitempty"`
}

func (o LBatchOpt) options() []sdklog.BatchProcessorOption {
	var out []sdklog.BatchProcessorOption
	if o.Set&1 != 0 {
		out = append(out, sdklog.WithMaxQueueSize(o.Q))
	}
	if o.Set&2 != 0 {
		out = append(out, sdklog.WithExportMaxBatchSize(o.B))
	}
	if o.Set&4 != 0 {
		out = append(out, sdklog.WithExportBufferSize(o.Buf))
	}
	if o.Set&8 != 0 {
		out = append(out, sdklog.WithExportInterval(time.Duration(o.IvMs)*time.Millisecond))
	}
	if o.Set&16 != 0 {
		out = append(out, sdklog.WithExportTimeout(time.Duration(o.ToMs)*time.Millisecond))
	}
	return out
}

// LOp is one step of a log program.
type LOp struct {
	K string `json:"k"`           // logger emit flush shutdown
	X int    `json:"x,omitempty"` // logger: slot; emit: record id
	L int    `json:"l,omitempty"` // emit: logger slot of the goroutine (an unfilled slot calls Logger() now), -1 = the logger obtained at construction
	C int    `json:"c,omitempty"` // flush/shutdown/emit: context of the call, 0 live, -1 already cancelled, -2 deadline already expired
	P int    `json:"p,omitempty"`
}

// LProg is a log program.
type LProg struct {
	Procs []int     `json:"procs"`
	Gs    [][]LOp   `json:"gs"`
	Post  []LOp     `json:"post,omitempty"`
	Slow  int       `json:"slow,omitempty"`
	Runs  int       `json:"runs,omitempty"`
	BOpt  LBatchOpt `json:"bopt"`
	// RecX: what the Shutdown of a rec_reentrant processor does with the
	// provider (and the context it was given): bit 0 Shutdown, bit 1
	// Logger("re").Emit of a record "x", bit 2 ForceFlush, bit 3 Emit of a
	// record "x" through a logger obtained right after construction.
	RecX int `json:"rec_x,omitempty"`
}

// ---------------------------------------------------------------------
// recorders

type recLogProc struct {
	clock *vk.Clock
	fail  bool
	slow  int
	re    func(context.Context) // re-entrant processor: called inside Shutdown
	mu    sync.Mutex
	evs   []tev // Kind 'o' OnEmit (Span = record id), 'f', 'd'
}

func (p *recLogProc) add(kind byte, id int) int {
	p.mu.Lock()
	defer p.mu.Unlock()
	p.evs = append(p.evs, tev{Kind: kind, Span: id, Tick: p.clock.Tick()})
	return len(p.evs) - 1
}

func (p *recLogProc) OnEmit(_ context.Context, r *sdklog.Record) error {
	if id := parseID("r", r.Body().AsString()); id >= 0 {
		p.add('o', id)
	} else {
		p.add('x', -1) // a record of a re-entrant exporter: history only
	}
	return nil
}

func (p *recLogProc) ForceFlush(context.Context) error {
	p.add('f', -1)
	if p.fail {
		return errRec
	}
	return nil
}

func (p *recLogProc) Shutdown(ctx context.Context) error {
	i := p.add('d', -1)
	vk.Perturb(p.slow)
	if p.re != nil {
		p.re(ctx)
	}
	p.mu.Lock()
	p.evs[i].Exit = p.clock.Tick()
	p.mu.Unlock()
	if p.fail {
		return errRec
	}
	return nil
}

func (p *recLogProc) events() []tev {
	p.mu.Lock()
	defer p.mu.Unlock()
	return append([]tev{}, p.evs...)
}

type recLogExp struct {
	clock     *vk.Clock
	mu        sync.Mutex
	exports   []expEv
	shutdowns []ival
	internal  int        // "x" records received
	logger    log.Logger // re-entrant exporters: set before the provider is used
	reExport  bool       // Export, too, emits a record "x" (never for a batch of "x" records only)
}

func (e *recLogExp) logSelf() {
	if e.logger != nil {
		var r log.Record
		r.SetBody(log.StringValue("x"))
		r.SetSeverity(log.SeverityInfo)
		e.logger.Emit(context.Background(), r)
	}
}

func (e *recLogExp) Export(_ context.Context, records []sdklog.Record) error {
	ev := expEv{}
	internal := 0
	for i := range records {
		if id := parseID("r", records[i].Body().AsString()); id >= 0 {
			ev.Spans = append(ev.Spans, id)
		} else {
			internal++
		}
	}
	e.mu.Lock()
	e.internal += internal
	if len(ev.Spans) > 0 {
		ev.Tick = e.clock.Tick()
		e.exports = append(e.exports, ev)
	}
	e.mu.Unlock()
	if e.reExport && len(ev.Spans) > 0 {
		e.logSelf()
	}
	return nil
}
func (e *recLogExp) ForceFlush(context.Context) error { return nil }
func (e *recLogExp) Shutdown(context.Context) error {
	enter := e.clock.Tick()
	e.logSelf()
	e.mu.Lock()
	e.shutdowns = append(e.shutdowns, ival{Enter: enter, Exit: e.clock.Tick()})
	e.mu.Unlock()
	return nil
}

func (e *recLogExp) snapshot() ([]expEv, []ival) {
	e.mu.Lock()
	defer e.mu.Unlock()
	return append([]expEv{}, e.exports...), append([]ival{}, e.shutdowns...)
}

// ---------------------------------------------------------------------
// execution

type lproc struct {
	kind int
	rec  *recLogProc // recording kinds
	exp  *recLogExp  // simple(exp) / batch(exp)
}

type lhist struct {
	p     LProg
	procs []*lproc
	gs    [][]callRec
	post  []callRec
}

func (p LProg) eachOp(fn func(g, i int, op LOp)) {
	for g, ops := range p.Gs {
		for i, op := range ops {
			fn(g, i, op)
		}
	}
	for i, op := range p.Post {
		fn(-2, i, op)
	}
}

func validL(p LProg) bool {
	ok := len(p.Procs) <= 6 && len(p.Gs) <= 8
	for _, k := range p.Procs {
		if k < 0 || k >= lKinds {
			ok = false
		}
	}
	seen := map[int]bool{}
	p.eachOp(func(_, _ int, op LOp) {
		switch op.K {
		case "logger":
			if op.X < 0 || op.X > 3 {
				ok = false
			}
		case "emit":
			if seen[op.X] || op.X < 0 || op.X > 1<<20 || op.L > 3 {
				ok = false
			}
			seen[op.X] = true
		case "flush", "shutdown":
		default:
			ok = false
		}
	})
	return ok && p.RecX >= 0 && p.RecX <= 15 && p.BOpt.Set >= 0 && p.BOpt.Set <= 31 &&
		p.BOpt.Q <= 4096 && p.BOpt.B <= 4096 && p.BOpt.Buf <= 64 && p.BOpt.IvMs <= 3600000 && (p.BOpt.ToMs <= 0 || p.BOpt.ToMs >= 30000)
}

func execLog(p LProg) (*lhist, func()) {
	h := &lhist{p: p}
	clock := &vk.Clock{}
	otel.SetErrorHandler(&vk.ErrCapture{})
	var opts []sdklog.LoggerProviderOption
	var cleanup []func()
	for _, k := range p.Procs {
		lp := &lproc{kind: k}
		var proc sdklog.Processor
		switch k {
		case lRec, lRecErr, lRecRe:
			lp.rec = &recLogProc{clock: clock, fail: k == lRecErr, slow: p.Slow}
			proc = lp.rec
		case lSimpleZero:
			proc = new(sdklog.SimpleProcessor)
		case lBatchZero:
			proc = new(sdklog.BatchProcessor)
		case lBatchOpt, lBatchRX:
			// reExport stays off: an exporter whose Export emits into the batch
			// processor that is calling it is not a stock exporter (the quantifier
			// says "every stock processor/reader/exporter combination"), and on the
			// unchanged tree it can close a lock cycle inside sdk/log/batch.go
			// (poll goroutine in TryDequeue holding the queue lock and waiting for
			// the bufferExporter; the export goroutine inside Export waiting for the
			// queue lock in Enqueue; a ForceFlush waiting in bufferExporter.enqueue)
			// - seen once as a hang of conc_log while this dimension was on. Out of
			// the domain, so not generated and not a finding; DESIGN 7.2.
			lp.exp = &recLogExp{clock: clock, reExport: false && k == lBatchRX}
			bp := sdklog.NewBatchProcessor(lp.exp, p.BOpt.options()...)
			proc = bp
			cleanup = append(cleanup, func() { _ = bp.Shutdown(context.Background()) })
		case lSimple, lSimpleRS:
			lp.exp = &recLogExp{clock: clock}
			proc = sdklog.NewSimpleProcessor(lp.exp)
		case lSimpleNil:
			proc = sdklog.NewSimpleProcessor(nil)
		case lBatch, lBatchRS:
			lp.exp = &recLogExp{clock: clock}
			bp := sdklog.NewBatchProcessor(lp.exp, sdklog.WithExportInterval(time.Hour))
			proc = bp
			cleanup = append(cleanup, func() { _ = bp.Shutdown(context.Background()) })
		case lBatchNil:
			// nil exporter under every option combination of LProg.BOpt
			nopts := p.BOpt.options()
			if p.BOpt.Set&8 == 0 {
				nopts = append(nopts, sdklog.WithExportInterval(time.Hour))
			}
			bp := sdklog.NewBatchProcessor(nil, nopts...)
			proc = bp
			cleanup = append(cleanup, func() { _ = bp.Shutdown(context.Background()) })
		}
		h.procs = append(h.procs, lp)
		opts = append(opts, sdklog.WithProcessor(proc))
	}
	prov := sdklog.NewLoggerProvider(opts...)
	base := prov.Logger("base")
	for _, lp := range h.procs {
		if lp.kind == lSimpleRS || lp.kind == lBatchRS || lp.kind == lBatchRX {
			lp.exp.logger = prov.Logger("exporter")
		}
		if lp.kind == lRecRe && p.RecX != 0 {
			early := prov.Logger("processor")
			lp.rec.re = func(ctx context.Context) {
				var r log.Record
				r.SetBody(log.StringValue("x"))
				r.SetSeverity(log.SeverityInfo)
				if p.RecX&1 != 0 {
					_ = prov.Shutdown(ctx)
				}
				if p.RecX&2 != 0 {
					prov.Logger("re").Emit(ctx, r)
				}
				if p.RecX&4 != 0 {
					_ = prov.ForceFlush(ctx)
				}
				if p.RecX&8 != 0 {
					early.Emit(ctx, r)
				}
			}
		}
	}
	loggerNames := []string{"a", "b", "", "a"}

	type handle struct {
		l    log.Logger
		call *callRec
	}
	isNoop := func(l log.Logger) bool { _, ok := l.(lognoop.Logger); return ok }
	do := func(op LOp, rec *callRec, slots *[4]handle) {
		rec.K, rec.X, rec.T, rec.C = op.K, op.X, op.L, op.C
		ctx := mkCtx(op.C)
		rec.Start = clock.Tick()
		switch op.K {
		case "logger":
			slots[op.X] = handle{prov.Logger(loggerNames[op.X]), rec}
			rec.Noop = isNoop(slots[op.X].l)
		case "emit":
			l, hc := base, (*callRec)(nil)
			if op.L >= 0 {
				if slots[op.L].l == nil {
					slots[op.L] = handle{prov.Logger(loggerNames[op.L]), rec}
				}
				l, hc = slots[op.L].l, slots[op.L].call
			}
			rec.Handle, rec.Noop = hc, isNoop(l)
			var r log.Record
			r.SetBody(log.StringValue(fmt.Sprintf("r%d", op.X)))
			r.SetSeverity(log.SeverityInfo)
			l.Emit(ctx, r)
		case "flush":
			rec.Err = prov.ForceFlush(ctx)
		case "shutdown":
			rec.Err = prov.Shutdown(ctx)
		}
		rec.End = clock.Tick()
		rec.Done = true
	}
	h.gs = make([][]callRec, len(p.Gs))
	for g := range p.Gs {
		h.gs[g] = make([]callRec, len(p.Gs[g]))
	}
	body := func(g int) {
		var slots [4]handle
		for i, op := range p.Gs[g] {
			vk.Perturb(op.P)
			h.gs[g][i].G, h.gs[g][i].I = g, i
			guard(&h.gs[g][i], func() { do(op, &h.gs[g][i], &slots) })
		}
	}
	if len(p.Gs) == 1 {
		body(0)
	} else {
		vk.Parallel(len(p.Gs), body)
	}
	h.post = make([]callRec, len(p.Post))
	var ps [4]handle
	for i, op := range p.Post {
		h.post[i].G, h.post[i].I = -2, i
		guard(&h.post[i], func() { do(op, &h.post[i], &ps) })
	}
	return h, func() {
		_ = prov.Shutdown(context.Background())
		for _, f := range cleanup {
			f()
		}
	}
}

func (h *lhist) calls() []*callRec {
	var out []*callRec
	for g := range h.gs {
		for i := range h.gs[g] {
			out = append(out, &h.gs[g][i])
		}
	}
	for i := range h.post {
		out = append(out, &h.post[i])
	}
	return out
}

func (h *lhist) render() []string {
	var out []string
	for _, c := range h.calls() {
		if c.Done {
			s := c.String()
			if c.K == "emit" || c.K == "logger" {
				s += fmt.Sprintf(" logger=%d noop=%v", c.T, c.Noop)
			}
			out = append(out, s)
		}
	}
	for i, pr := range h.procs {
		name := fmt.Sprintf("processor %d %s", i, lprocNames[pr.kind])
		if pr.rec != nil {
			for _, e := range pr.rec.events() {
				switch e.Kind {
				case 'd':
					out = append(out, fmt.Sprintf("t=%d..%d   %s: Shutdown", e.Tick, e.Exit, name))
				case 'f':
					out = append(out, fmt.Sprintf("t=%d   %s: ForceFlush", e.Tick, name))
				case 'x':
					out = append(out, fmt.Sprintf("t=%d   %s: observed a record of a re-entrant exporter", e.Tick, name))
				default:
					out = append(out, fmt.Sprintf("t=%d   %s: OnEmit(r%d)", e.Tick, name, e.Span))
				}
			}
		}
		if pr.exp != nil {
			ex, sd := pr.exp.snapshot()
			for _, x := range ex {
				out = append(out, fmt.Sprintf("t=%d   exporter of %s: Export(%v)", x.Tick, name, x.Spans))
			}
			for _, s := range sd {
				out = append(out, fmt.Sprintf("t=%d..%d   exporter of %s: Shutdown", s.Enter, s.Exit, name))
			}
		}
	}
	return out
}

// ---------------------------------------------------------------------
// history oracle (exact for one-goroutine programs)

func oracleLog(h *lhist) ([]vk.Violation, map[string]bool) {
	vs := panicViolations(h.calls())
	cl := map[string]bool{}
	bad := func(kind, format string, a ...any) { vs = append(vs, vk.V(kind, format, a...)) }
	calls := h.calls()

	e0, d, firstIssue := never, int64(0), never
	for _, c := range calls {
		if c.Done && c.K == "shutdown" {
			if c.C != 0 {
				cl["shutdown_with_cancelled_context"] = true
			}
			if c.Err != nil {
				cl["shutdown_returned_error"] = true
			}
			if c.C == 0 && c.Err == nil && c.End < e0 {
				e0 = c.End
			}
			if c.Start < firstIssue {
				firstIssue = c.Start
			}
			cl["provider_shutdown_issued"] = true
		}
		if c.Done && c.K == "emit" && c.C != 0 {
			cl["emit_with_done_context"] = true
		}
	}
	for _, c := range calls {
		if c.Done && c.K == "shutdown" && c.Start < e0 && c.End > d {
			d = c.End
		}
	}
	down := e0 != never
	if !down {
		d = never
	}
	emit := map[int]*callRec{}
	for _, c := range calls {
		if c.Done && c.K == "emit" {
			emit[c.X] = c
		}
	}
	late := func(id int) (*callRec, bool) {
		c := emit[id]
		return c, c != nil && c.Start > d
	}

	for i, pr := range h.procs {
		name := fmt.Sprintf("processor %d (%s)", i, lprocNames[pr.kind])
		if pr.rec != nil {
			evs := pr.rec.events()
			n, byD := 0, 0
			got := map[int]int{}
			for _, e := range evs {
				switch e.Kind {
				case 'd':
					n++
					if e.Exit != 0 && e.Exit <= d {
						byD++
					}
				case 'o':
					got[e.Span]++
					if c, isLate := late(e.Span); isLate {
						bad("delivery_after_shutdown", "%s received record r%d at t=%d; its Emit (%s) was issued after the provider's Shutdown had returned nil (t=%d)", name, e.Span, e.Tick, c, d)
					}
				}
			}
			if n > 1 {
				bad("shutdown_twice", "%s was shut down %d times", name, n)
			}
			if down && byD != 1 {
				bad("not_shut_down", "%s had been shut down %d times when the provider's Shutdown with a live context had returned nil (t=%d)", name, byD, d)
			}
			for id, c := range emit {
				if c.End < firstIssue && !c.Noop && got[id] == 1 {
					cl["emit_reached_recording_processor"] = true
				}
			}
		}
		if pr.exp != nil {
			ex, sd := pr.exp.snapshot()
			if len(sd) > 1 {
				bad("shutdown_twice", "the exporter of %s was shut down %d times", name, len(sd))
			}
			if down && ivalsBefore(sd, d) != 1 {
				bad("not_shut_down", "the exporter of %s had been shut down %d times when the provider's Shutdown with a live context had returned nil (t=%d)", name, ivalsBefore(sd, d), d)
			}
			for _, x := range ex {
				for _, id := range x.Spans {
					if c, isLate := late(id); isLate {
						bad("export_after_shutdown", "the exporter of %s received record r%d at t=%d; its Emit (%s) was issued after the provider's Shutdown had returned nil (t=%d)", name, id, x.Tick, c, d)
					}
					cl["record_exported"] = true
				}
			}
		}
	}

	telemetryAfter := false
	for _, c := range calls {
		if !c.Done || c.Start <= d {
			continue
		}
		switch c.K {
		case "logger":
			cl["logger_obtained_after_shutdown"] = true
			if !c.Noop {
				bad("logger_not_noop_after_shutdown", "%s: Logger() called after Shutdown had returned nil (t=%d) did not return a noop.Logger", c, d)
			}
		case "emit":
			telemetryAfter = true
			switch {
			case c.Handle == c:
				cl["logger_obtained_after_shutdown"] = true
				if !c.Noop {
					bad("logger_not_noop_after_shutdown", "%s: Logger() called after Shutdown had returned nil (t=%d) did not return a noop.Logger", c, d)
				}
			case c.Handle == nil || c.Handle.End < firstIssue:
				cl["old_logger_used_after_shutdown"] = true
			}
		case "flush", "shutdown":
			cl[c.K+"_after_shutdown"] = true
			if !okAfterDown(c.Err, c.C != 0) {
				bad("call_after_shutdown_failed", "%s after the provider's Shutdown had returned nil (t=%d): %v", c, d, c.Err)
			}
		}
	}
	cl["provider_shut_down"] = down
	cl["telemetry_after_shutdown"] = telemetryAfter
	return vs, cl
}

// ---------------------------------------------------------------------
// generator

var lKindsW = func() []string {
	var out []string
	for _, kw := range []struct {
		k string
		w int
	}{{"logger", 3}, {"emit", 12}, {"flush", 4}, {"shutdown", 4}} {
		for i := 0; i < kw.w; i++ {
			out = append(out, kw.k)
		}
	}
	return out
}()

func genRawLOp(conc bool) *rapid.Generator[LOp] {
	return rapid.Custom(func(t *rapid.T) LOp {
		op := LOp{K: rapid.SampledFrom(lKindsW).Draw(t, "kind")}
		switch op.K {
		case "logger":
			op.X = rapid.IntRange(0, 3).Draw(t, "slot")
		case "emit":
			op.L = rapid.IntRange(-1, 3).Draw(t, "slot")
			op.C = rapid.SampledFrom([]int{0, 0, 0, 0, -1, -2}).Draw(t, "ctx")
		case "flush", "shutdown":
			op.C = rapid.SampledFrom([]int{0, 0, 0, 0, -1, -1, -2}).Draw(t, "ctx")
		}
		if conc {
			op.P = rapid.IntRange(0, 3).Draw(t, "p")
		}
		return op
	})
}

func normaliseL(p *LProg) {
	next := 0
	fix := func(ops []LOp) {
		for i := range ops {
			if ops[i].K == "emit" {
				ops[i].X = next
				next++
			}
		}
	}
	for g := range p.Gs {
		fix(p.Gs[g])
	}
	fix(p.Post)
	hasOpt, hasRe := false, false
	for _, k := range p.Procs {
		hasOpt = hasOpt || k == lBatchOpt || k == lBatchRX || k == lBatchNil
		hasRe = hasRe || k == lRecRe
	}
	if !hasOpt {
		p.BOpt = LBatchOpt{}
	}
	if !hasRe {
		p.RecX = 0
	}
}

// genBatchOpt draws the options of the lBatchOpt / lBatchRX processors: each
// one unset, degenerate (zero, negative: the documented default applies) or tiny.
func genBatchOpt(t *rapid.T) LBatchOpt {
	o := LBatchOpt{Set: rapid.IntRange(0, 31).Draw(t, "bopt_set")}
	sizes := []int{-1, 0, 1, 1, 2, 3, 8}
	if o.Set&1 != 0 {
		o.Q = rapid.SampledFrom(sizes).Draw(t, "q")
	}
	if o.Set&2 != 0 {
		o.B = rapid.SampledFrom(sizes).Draw(t, "b")
	}
	if o.Set&4 != 0 {
		o.Buf = rapid.SampledFrom([]int{-1, 0, 1, 2}).Draw(t, "buf")
	}
	if o.Set&8 != 0 {
		o.IvMs = rapid.SampledFrom([]int{-1, 0, 1, 1, 3600000}).Draw(t, "iv")
	}
	if o.Set&16 != 0 {
		o.ToMs = rapid.SampledFrom([]int{-1, 0, 30000}).Draw(t, "to")
	}
	return o
}

func genLogExtras(t *rapid.T, p *LProg) {
	p.BOpt = genBatchOpt(t)
	p.RecX = rapid.IntRange(1, 15).Draw(t, "rec_x")
}

func genProcs(t *rapid.T) []int {
	if rapid.IntRange(0, 11).Draw(t, "no_processor") == 0 {
		return nil
	}
	return rapid.SliceOfN(rapid.IntRange(0, lKinds-1), 1, 4).Draw(t, "procs")
}

func genLogSeq(t *rapid.T) LProg {
	p := LProg{Procs: genProcs(t)}
	genLogExtras(t, &p)
	p.Gs = [][]LOp{genChunked(t, genRawLOp(false), 12)}
	normaliseL(&p)
	return p
}

func logInfo(p LProg, cl map[string]bool) vk.Info {
	var info vk.Info
	for k, v := range cl {
		info.ClassIf(v, k)
	}
	for _, k := range p.Procs {
		info.Class("processor:" + lprocNames[k])
	}
	info.ClassIf(len(p.Procs) == 0, "no_processor")
	for _, k := range p.Procs {
		if k == lBatchOpt || k == lBatchRX {
			o := p.BOpt
			info.ClassIf(o.Set&1 != 0 && o.Q <= 0 || o.Set&2 != 0 && o.B <= 0 || o.Set&4 != 0 && o.Buf <= 0 || o.Set&8 != 0 && o.IvMs <= 0 || o.Set&16 != 0 && o.ToMs <= 0, "batch_option_zero_or_negative")
			info.ClassIf(o.Set&1 != 0 && o.Q > 0 && o.Q <= 3, "batch_queue_1_to_3")
			info.ClassIf(o.Set&2 != 0 && o.B > 0 && o.B <= 3, "batch_export_size_1_to_3")
			info.ClassIf(o.Set&8 != 0 && o.IvMs == 1, "batch_interval_1ms")
			info.ClassIf(o.Set == 0, "batch_no_option(defaults)")
		}
		if k == lBatchNil {
			info.ClassIf(p.BOpt.Set != 0, "batch(nil)_with_options")
			info.ClassIf(p.BOpt.Set == 0, "batch(nil)_default_options")
		}
		if k == lRecRe {
			for b, n := range []string{"Shutdown", "Logger+Emit", "ForceFlush", "Emit(old logger)"} {
				info.ClassIf(cl["provider_shutdown_issued"] && p.RecX&(1<<b) != 0, "reentrant_processor:"+n)
			}
		}
	}
	info.Classes = dedup(info.Classes)
	info.NonTrivial = len(p.Procs) > 0 && cl["provider_shut_down"] && cl["telemetry_after_shutdown"]
	return info
}

func runLogSeq(p LProg) ([]vk.Violation, vk.Info) {
	if len(p.Gs) != 1 || len(p.Post) != 0 || !validL(p) {
		var info vk.Info
		info.Class("invalid_program(not run)")
		return nil, info
	}
	h, cleanup := execLog(p)
	defer cleanup()
	vs, cl := oracleLog(h)
	attachHistory(vs, h.render())
	return vs, logInfo(p, cl)
}

func TestLogLifecycle(t *testing.T) {
	vk.Run(t, vk.Spec[LProg]{
		Property: "C15", Check: "log_lifecycle",
		Rule: "generated op lists (1-48 ops: Logger / Emit through the logger obtained at construction, through loggers obtained earlier or right now / ForceFlush / Shutdown with live or already-cancelled contexts, repeated) on a LoggerProvider with 0-4 processors drawn from recording processors (one failing), SimpleProcessor and BatchProcessor around a recording exporter, around nil and around a re-entrant exporter whose Shutdown emits a record through the same provider, the zero values of SimpleProcessor and BatchProcessor, BatchProcessors with generated options (queue / batch / buffer size, interval, timeout each unset, zero, negative or tiny; around a recording exporter, optionally one that emits from Export, and around nil) and a recording processor whose Shutdown calls back into the provider (Shutdown / Logger+Emit / ForceFlush / Emit); contexts live, cancelled or past their deadline (also for Emit); " +
			"non-trivial = at least one processor, a Shutdown with a live context returned nil and an Emit follows it; distinct = distinct case encodings",
		Quick: 2000, Thorough: 25000,
		Gen: genLogSeq, Run: runLogSeq,
		CaseTimeout: 30 * time.Second,
	})
}
