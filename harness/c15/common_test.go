// Package c15 decides property C15 (provider lifecycle: exact span-processor
// membership, single shutdown of every processor / reader / exporter, safe
// and silent providers after Shutdown, no panic / crash / hang including on
// processors built around a nil exporter) with six generated checks:
//
//	trace_membership  sequential op lists on a TracerProvider, exact model
//	metric_lifecycle  sequential op lists on a MeterProvider, exact model
//	log_lifecycle     sequential op lists on a LoggerProvider, exact model
//	conc_trace        the same ops from 2-6 goroutines, history oracle
//	conc_metric       "
//	conc_log          "
//
// The program (op lists, goroutines, perturbations) is the case. All
// observation goes through the public API: recording span processors, log
// processors, span / log / metric exporters, aggregation selectors, and
// readers that embed the stock reader and time its Shutdown calls.
//
// Readings of the statement (conservative where it is ambiguous):
//
//   - "registered once": every processor of a program is registered at most
//     once in its life (either at construction or by one Register call); the
//     generators never register a processor twice.
//   - "delivered to exactly the processors currently registered": OnStart goes
//     to the processors registered when Start is called, OnEnd to those
//     registered when End is called (each exactly once per span); for the stock
//     simple span processor the delivery is observed as the synchronous export
//     of the span, for the stock batch span processor as "exactly the spans
//     ended while it was registered have been exported once it was shut down
//     with a live context". The order of delivery is not asserted.
//   - "Shutdown has returned": the obligations that follow a provider Shutdown
//     (every registered processor / reader / exporter shut down exactly once,
//     no-op handles, nothing delivered or exported for telemetry calls issued
//     afterwards, later ForceFlush / Shutdown harmless) are established only by
//     a provider Shutdown call that was given a LIVE context and returned nil
//     (for the MeterProvider: nil or the documented ErrReaderShutdown).
//     A Shutdown call with an already-cancelled context, or one that returned
//     an error, only puts the model into a "limbo" state in which nothing but
//     the <= 1 bound, the absence of deliveries to processors that were never
//     members, and crash/hang freedom is asserted. In concurrent programs
//     "has returned" means: every provider Shutdown call issued before the
//     first such call returned has itself returned (a call that loses the race
//     returns at once while the winner is still working).
//   - "nothing more is exported": no span / record whose End / Emit was
//     ISSUED after that point ever reaches a recorder or an exporter; a batch
//     processor that is still draining what was ended earlier is not a
//     violation. A delivery that overlaps the Shutdown call is allowed.
//   - Exporters behind the stock span processors are shut down from a
//     goroutine when the context is cancelled, so their "== 1" is asserted only
//     in programs whose Shutdown calls all had live contexts (the <= 1 bound
//     always).
//   - After the provider is down a call made with an already-cancelled
//     context may return nil, the documented shutdown error, or the context's
//     error ("honors cancellation").
//   - Re-entrant ("instrumented") exporters: the exporter of simple(exp) /
//     batch(exp) may start and end a span through a tracer of the same
//     provider inside its own Shutdown (both) or ExportSpans (batch only), a
//     log exporter may emit a record through a logger of the same provider
//     inside its Shutdown. Only what the statement says is asserted for
//     them: every call returns (watchdog), no panic, the shutdown counts; the
//     exporter's own spans / records are ignored by the membership and
//     "nothing after Shutdown" clauses (on the unchanged tree the span ended
//     inside Shutdown is dropped: the simple processor has already zeroed its
//     exporter field and released the lock, the batch processor is stopped).
//     NOT generated, because it blocks forever on the unchanged tree and the
//     exporter is not a stock one: re-entrancy from ExportSpans behind the
//     simple span processor (OnEnd holds exporterMu while it calls
//     ExportSpans; the nested End blocks in OnEnd, and every later Shutdown /
//     Unregister of that processor blocks too) and from Export behind the
//     log SimpleProcessor (OnEmit holds s.mu while it calls Export).
//   - Re-entrant PROCESSORS: the Shutdown of one recording span processor
//     (TProg.RecX) / log processor (kind rec_reentrant, LProg.RecX) calls back
//     into the provider that is shutting it down (Shutdown, Tracer / Logger +
//     telemetry, ForceFlush, Unregister of itself, Register of a fresh
//     processor), with the context it was given. Nothing new is asserted for
//     them: every call returns (watchdog), no panic, and the unchanged
//     membership / exactly-once clauses. The span processor is never
//     unregistered by such a program: UnregisterSpanProcessor shuts the
//     processor down while it holds the provider mutex with the provider
//     still up, so a call back into the provider from there blocks on the
//     unchanged tree (a non-stock processor, outside the quantifier).
//   - "already-cancelled contexts" comes in two spellings: cancelled
//     (context.Canceled) and past its deadline (context.DeadlineExceeded); the
//     telemetry calls (Start, Emit, Add / Record) are given such contexts too.
//     A done context given to Start does not change which processors the span
//     is delivered to (the statement has no such exception).
//   - Degenerate stock configurations beyond nil exporters: the zero values
//     of sdklog.SimpleProcessor / sdklog.BatchProcessor (no exporter, no
//     queue), batch log processors with zero / negative / tiny sizes and
//     intervals, stock readers that are never registered with a provider
//     (Collect documents ErrReaderNotRegistered; their direct Shutdown still
//     shuts the exporter down exactly once and Collect afterwards gives
//     ErrReaderShutdown), readers built WithProducer. The external producer
//     and the instrument kinds (Add and Record) add no assertion of their own.
//   - Slow collaborators of the metric pipeline (MProg.Slow): an external
//     producer, an observable callback or the exporter's Export takes a
//     generated 0.3-5 ms and does not react to the cancellation of its context
//     (a slow scrape of a bridged library); Shutdown / ForceFlush / Collect
//     are also given contexts whose deadline expires 1-2 ms after the call
//     (MOp.C > 0), and a shutdown op may first wait until a collection is in
//     flight in such a collaborator (MOp.W). For the metric pipeline "after
//     Shutdown has returned ... nothing more is exported" is read per Export
//     CALL (there is no per-record notion as for spans and log records), and
//     for ANY returned Shutdown call, whatever its context and result: once a
//     Shutdown call on a PeriodicReader (direct, or through its provider) has
//     returned, no Export call BEGINS on its exporter. An Export that began
//     before the return and is still running is not a violation. (The other
//     post-shutdown obligations keep their live-context reading above.)
//   - Stock batch span processors are built with generated options
//     (TBatchOpt: queue size, batch size, batch timeout, export timeout,
//     WithBlocking; each unset / zero / negative / tiny / large), around the
//     recording exporter and around nil. Nothing new is asserted for them.
//   - Unregistering a processor of a non-comparable dynamic type that was
//     never registered must not panic; REGISTERING such a processor is outside
//     the quantifier ("every stock processor ... combination") and is not
//     generated (Go's == on two interface values holding the same
//     non-comparable dynamic type panics inside UnregisterSpanProcessor).
package c15

import (
	"context"
	"errors"
	"fmt"
	"runtime/debug"
	"sort"
	"strconv"
	"strings"
	"time"

	"go.opentelemetry.io/otel/verif/internal/vk"
)

const never = int64(1) << 62

// mkCtx: 0 = live, -2 = a context whose deadline has already expired
// (Err() == context.DeadlineExceeded), c > 0 = a context that is live now and
// whose deadline expires in c milliseconds (metric programs only), anything
// else = already cancelled.
func mkCtx(c int) context.Context {
	switch {
	case c > 0:
		d := time.Duration(c) * time.Millisecond
		ctx, cancel := context.WithTimeout(context.Background(), d)
		time.AfterFunc(d+time.Second, cancel) // releases the timer; the deadline has long passed
		return ctx
	}
	switch c {
	case 0:
		return context.Background()
	case -2:
		ctx, cancel := context.WithDeadline(context.Background(), time.Unix(1, 0))
		cancel() // the deadline has passed: Err() stays DeadlineExceeded
		return ctx
	}
	ctx, cancel := context.WithCancel(context.Background())
	cancel()
	return ctx
}

// genDoneCtx draws the context of a flush / shutdown / collect op: live most
// of the time, else already cancelled or already past its deadline.
var doneCtxChoices = []int{0, 0, 0, 0, -1, -2}

// callRec is one API call issued by the harness.
type callRec struct {
	G, I       int // goroutine (-1 pre section, -2 post section), index within it
	K          string
	X, T, C    int
	Start, End int64
	Err        error
	Done       bool
	Skipped    bool     // the op had nothing to act on
	Recording  bool     // start: span.IsRecording()
	Noop       bool     // logger: the handle is a noop.Logger
	Handle     *callRec // start/emit/inst: the tracer/logger/meter call that produced the handle (nil = base handle)
	Panic      string   // the call panicked (value and stack)
}

// guard runs one op and records a panic of the code under test instead of
// letting it kill the process from a harness goroutine.
func guard(rec *callRec, f func()) {
	defer func() {
		if p := recover(); p != nil {
			rec.Panic = fmt.Sprintf("%v\n%s", p, debug.Stack())
		}
	}()
	f()
}

func panicViolations(calls []*callRec) []vk.Violation {
	var vs []vk.Violation
	for _, c := range calls {
		if c.Panic != "" {
			first := c.Panic
			if i := strings.IndexByte(first, '\n'); i >= 0 {
				first = first[:i]
			}
			vs = append(vs, vk.Violation{Kind: "panic", Msg: fmt.Sprintf("%s %s (goroutine %d, op %d) panicked: %s", c.K, ctxName(c), c.G, c.I, first), Observed: c.Panic})
		}
	}
	return vs
}

func ctxName(c *callRec) string {
	if c.C > 0 {
		return fmt.Sprintf("ctx=deadline(%dms)", c.C)
	}
	switch c.C {
	case 0:
		return "ctx=live"
	case -2:
		return "ctx=expired"
	}
	return "ctx=cancelled"
}

func (c *callRec) String() string {
	who := fmt.Sprintf("g%d", c.G)
	switch c.G {
	case -1:
		who = "pre"
	case -2:
		who = "post"
	}
	s := fmt.Sprintf("t=%d..%d %s#%d %s x=%d", c.Start, c.End, who, c.I, c.K, c.X)
	if c.K == "flush" || c.K == "shutdown" || c.K == "rshutdown" || c.K == "collect" {
		s += " " + ctxName(c)
		s += fmt.Sprintf(" -> %v", c.Err)
	} else if c.C != 0 {
		s += " " + ctxName(c)
	}
	if c.K == "start" {
		s += fmt.Sprintf(" tracer=%d recording=%v", c.T, c.Recording)
	}
	if c.Skipped {
		s += " (skipped)"
	}
	return s
}

// span of ticks
type ival struct{ Enter, Exit int64 }

// tstr renders a tick ("never" for the sentinel).
func tstr(t int64) string {
	if t >= never {
		return "never"
	}
	return fmt.Sprintf("t=%d", t)
}

// okAfterDown reports whether err is acceptable for a flush/shutdown call
// issued after the provider is down.
func okAfterDown(err error, cancelled bool, alsoOK ...error) bool {
	if err == nil {
		return true
	}
	for _, e := range alsoOK {
		if errors.Is(err, e) {
			return true
		}
	}
	if cancelled && (errors.Is(err, context.Canceled) || errors.Is(err, context.DeadlineExceeded)) {
		return true // the error of the done context the call was given
	}
	return false
}

func parseID(prefix, s string) int {
	if !strings.HasPrefix(s, prefix) {
		return -1
	}
	n, err := strconv.Atoi(s[len(prefix):])
	if err != nil {
		return -1
	}
	return n
}

// attachHistory sorts the rendered history by tick and hangs it on the first violation.
func attachHistory(vs []vk.Violation, h []string) {
	if len(vs) == 0 {
		return
	}
	sort.SliceStable(h, func(i, j int) bool {
		var a, b int64
		fmt.Sscanf(h[i], "t=%d", &a)
		fmt.Sscanf(h[j], "t=%d", &b)
		return a < b
	})
	if len(h) > 500 {
		h = h[:500]
	}
	if vs[0].Observed != nil {
		vs[0].Observed = map[string]any{"detail": vs[0].Observed, "history": h}
	} else {
		vs[0].Observed = h
	}
}

func contains(xs []int, x int) bool {
	for _, y := range xs {
		if y == x {
			return true
		}
	}
	return false
}

func without(xs []int, x int) []int {
	out := make([]int, 0, len(xs))
	for _, y := range xs {
		if y != x {
			out = append(out, y)
		}
	}
	return out
}
