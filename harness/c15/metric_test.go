package c15

import (
	"context"
	"errors"
	"fmt"
	"strings"
	"sync"
	"sync/atomic"
	"testing"
	"time"

	"go.opentelemetry.io/otel"
	"go.opentelemetry.io/otel/metric"
	sdkmetric "go.opentelemetry.io/otel/sdk/metric"
	"go.opentelemetry.io/otel/sdk/metric/metricdata"
	"go.opentelemetry.io/otel/verif/internal/vk"
	"pgregory.net/rapid"
)

// reader kinds
const (
	rManual       = iota // NewManualReader with recording selectors
	rPeriodic            // NewPeriodicReader(recording exporter), interval 1h
	rPeriodicMs          // NewPeriodicReader(recording exporter), interval 1ms
	rPeriodicFail        // NewPeriodicReader(recording exporter whose Export always fails), interval 1h
	// Stock readers that are built but NOT registered with the provider: the
	// program collects from them and shuts them down directly.
	rManualOrphan
	rPeriodicOrphan // NewPeriodicReader(recording exporter), interval 1h
	rKinds
)

var readerNames = []string{"manual", "periodic(1h)", "periodic(1ms)", "periodic(1h, failing exporter)", "manual(not registered)", "periodic(1h, not registered)"}

func orphan(kind int) bool { return kind == rManualOrphan || kind == rPeriodicOrphan }

// instrument kinds of an "inst" op (MOp.Y); "add" then calls Add or Record.
var instNames = []string{"Int64Counter", "Float64Counter", "Int64UpDownCounter", "Float64Histogram", "Int64Gauge", "Int64Histogram"}

// MOp is one step of a metric program.
type MOp struct {
	K string `json:"k"`           // meter inst add collect flush shutdown rshutdown
	X int    `json:"x,omitempty"` // meter: slot; inst/add: instrument id; collect/rshutdown: reader index
	Y int    `json:"y,omitempty"` // inst: instrument kind (instNames)
	M int    `json:"m,omitempty"` // inst: meter slot of the goroutine (an unfilled slot calls Meter() now), -1 = the meter obtained at construction
	C int    `json:"c,omitempty"` // collect/flush/shutdown/rshutdown/add: context of the call, 0 live, -1 already cancelled, -2 deadline already expired, > 0 (not add) deadline in C ms
	P int    `json:"p,omitempty"`
	W int    `json:"w,omitempty"` // shutdown/rshutdown: 1 = first wait (bounded) until a call of the slow collaborator is in flight
}

// MSlow makes one collaborator of every reader slow: Who 0 none, 1 the
// external producer (implies Prod), 2 an observable callback (an
// Int64ObservableGauge created at construction), 3 the exporter's Export.
// Each such call sleeps Us microseconds and ignores its context.
type MSlow struct {
	Who int `json:"who,omitempty"`
	Us  int `json:"us,omitempty"`
}

var slowNames = []string{"", "external_producer", "observable_callback", "exporter_export"}

// slowState counts the calls in flight in the slow collaborator.
type slowState struct {
	who      int
	d        time.Duration
	inflight atomic.Int32
	entered  atomic.Int32
	awaited  atomic.Bool
}

func (s *slowState) call(who int) {
	if s == nil || s.who != who {
		return
	}
	s.inflight.Add(1)
	s.entered.Add(1)
	time.Sleep(s.d)
	s.inflight.Add(-1)
}

// await waits (bounded: it only raises the chance of the interesting
// schedule, nothing is decided by it) until a slow call is in flight; reports
// whether one is. Only the first await of a run waits.
func (s *slowState) await(bound time.Duration) bool {
	if s == nil || s.who == 0 || !s.awaited.CompareAndSwap(false, true) {
		return false
	}
	for t0 := time.Now(); s.inflight.Load() == 0 && time.Since(t0) < bound; {
		time.Sleep(50 * time.Microsecond)
	}
	return s.inflight.Load() > 0
}

// settle waits (bounded) until no slow call is in flight any more.
func (s *slowState) settle() {
	if s == nil || s.who == 0 {
		return
	}
	for t0 := time.Now(); s.inflight.Load() > 0 && time.Since(t0) < 10*time.Second; {
		time.Sleep(200 * time.Microsecond)
	}
	time.Sleep(2 * time.Millisecond)
}

// MProg is a metric program.
type MProg struct {
	Readers []int   `json:"readers"`
	Gs      [][]MOp `json:"gs"`
	Post    []MOp   `json:"post,omitempty"`
	Runs    int     `json:"runs,omitempty"`
	Prod    int     `json:"prod,omitempty"` // 1: every reader is built WithProducer(a recording external producer)
	Slow    MSlow   `json:"slow"`
	// TmoMs != 0: every PeriodicReader is built WithTimeout(TmoMs ms) (the
	// bound of one collect + export and of a Shutdown / ForceFlush whose
	// context has no deadline); <= 0 is documented to keep the default.
	TmoMs int `json:"tmo_ms,omitempty"`
}

// ---------------------------------------------------------------------
// recorders

type rsd struct {
	ival
	InFlight bool   // a call of the slow collaborator was in flight when Shutdown was called
	Live     bool   // the context was live and had no deadline
	Ctx      string // rendering of the context's state at the call
	Err      error
}

// readerRec observes one reader: its Shutdown calls (whoever makes them) and
// the selector calls that reach it when an instrument is created.
type readerRec struct {
	clock     *vk.Clock
	mu        sync.Mutex
	shutdowns []rsd
	sel       []int64
	produced  []int64 // calls of the external producer
	slow      *slowState
}

// Produce makes a readerRec the external metric producer of its reader.
func (r *readerRec) Produce(context.Context) ([]metricdata.ScopeMetrics, error) {
	r.mu.Lock()
	r.produced = append(r.produced, r.clock.Tick())
	r.mu.Unlock()
	r.slow.call(1)
	return nil, nil
}

func (r *readerRec) producedCalls() []int64 {
	r.mu.Lock()
	defer r.mu.Unlock()
	return append([]int64{}, r.produced...)
}

func (r *readerRec) selected() {
	r.mu.Lock()
	r.sel = append(r.sel, r.clock.Tick())
	r.mu.Unlock()
}

func (r *readerRec) shutdown(ctx context.Context, inner func(context.Context) error) error {
	_, deadline := ctx.Deadline()
	rec := rsd{Live: ctx.Err() == nil && !deadline, Ctx: "live"}
	switch {
	case ctx.Err() != nil:
		rec.Ctx = ctx.Err().Error()
	case deadline:
		rec.Ctx = "deadline ahead"
	}
	rec.InFlight = r.slow != nil && r.slow.inflight.Load() > 0
	rec.Enter = r.clock.Tick()
	err := inner(ctx)
	rec.Err = err
	r.mu.Lock()
	rec.Exit = r.clock.Tick()
	r.shutdowns = append(r.shutdowns, rec)
	r.mu.Unlock()
	return err
}

func (r *readerRec) snapshot() ([]rsd, []int64) {
	r.mu.Lock()
	defer r.mu.Unlock()
	return append([]rsd{}, r.shutdowns...), append([]int64{}, r.sel...)
}

// The wrappers embed the stock readers (which promotes the unexported
// methods of the Reader interface) and only time the Shutdown calls.
type manualW struct {
	*sdkmetric.ManualReader
	rec *readerRec
}

func (w *manualW) Shutdown(ctx context.Context) error {
	return w.rec.shutdown(ctx, w.ManualReader.Shutdown)
}

type periodicW struct {
	*sdkmetric.PeriodicReader
	rec *readerRec
}

func (w *periodicW) Shutdown(ctx context.Context) error {
	return w.rec.shutdown(ctx, w.PeriodicReader.Shutdown)
}

var (
	_ sdkmetric.Reader = (*manualW)(nil)
	_ sdkmetric.Reader = (*periodicW)(nil)
)

type recMetricExp struct {
	clock     *vk.Clock
	rec       *readerRec
	mu        sync.Mutex
	exports   []int64
	shutdowns []ival
	fail      bool // Export reports an error (the backend is down)
}

var errBackendDown = errors.New("scripted export failure")

func (e *recMetricExp) Temporality(sdkmetric.InstrumentKind) metricdata.Temporality {
	e.rec.selected()
	return metricdata.CumulativeTemporality
}

func (e *recMetricExp) Aggregation(k sdkmetric.InstrumentKind) sdkmetric.Aggregation {
	e.rec.selected()
	return sdkmetric.DefaultAggregationSelector(k)
}

func (e *recMetricExp) Export(context.Context, *metricdata.ResourceMetrics) error {
	e.mu.Lock()
	e.exports = append(e.exports, e.clock.Tick())
	e.mu.Unlock()
	e.rec.slow.call(3)
	if e.fail {
		return errBackendDown
	}
	return nil
}
func (e *recMetricExp) ForceFlush(context.Context) error { return nil }
func (e *recMetricExp) Shutdown(context.Context) error {
	e.mu.Lock()
	iv := ival{Enter: e.clock.Tick()}
	iv.Exit = e.clock.Tick()
	e.shutdowns = append(e.shutdowns, iv)
	e.mu.Unlock()
	return nil
}

func (e *recMetricExp) snapshot() ([]int64, []ival) {
	e.mu.Lock()
	defer e.mu.Unlock()
	return append([]int64{}, e.exports...), append([]ival{}, e.shutdowns...)
}

// ---------------------------------------------------------------------
// execution

type mreader struct {
	kind int
	r    sdkmetric.Reader
	rec  *readerRec
	exp  *recMetricExp // periodic only
}

type mhist struct {
	slow    *slowState
	awaited int // shutdown ops that found a slow call in flight
	p       MProg
	readers []*mreader
	pre     []callRec
	gs      [][]callRec
	post    []callRec
}

func (p MProg) eachOp(fn func(g, i int, op MOp)) {
	for g, ops := range p.Gs {
		for i, op := range ops {
			fn(g, i, op)
		}
	}
	for i, op := range p.Post {
		fn(-2, i, op)
	}
}

func validM(p MProg) bool {
	ok := len(p.Readers) <= 4 && len(p.Gs) <= 8 && p.Slow.Who >= 0 && p.Slow.Who <= 3 && p.Slow.Us >= 0 && p.Slow.Us <= 20000 &&
		(p.Slow.Who != 1 || p.Prod != 0) && p.TmoMs >= -1 && p.TmoMs <= 60000
	for _, k := range p.Readers {
		if k < 0 || k >= rKinds {
			ok = false
		}
	}
	creator := map[int]int{}
	p.eachOp(func(g, _ int, op MOp) {
		switch op.K {
		case "meter":
			if op.X < 0 || op.X > 3 {
				ok = false
			}
		case "inst":
			if _, dup := creator[op.X]; dup || op.X < 0 || op.X > 4096 || op.M > 3 || op.Y < 0 || op.Y >= len(instNames) {
				ok = false
			}
			creator[op.X] = g
		case "add":
			if cg, has := creator[op.X]; !has || cg != g {
				ok = false // instruments are used by the goroutine that created them, after the creation
			}
		case "collect", "rshutdown":
			if op.X < 0 || op.X >= len(p.Readers) {
				ok = false
			}
		case "flush", "shutdown":
		default:
			ok = false
		}
		if op.C > 50 || op.C > 0 && (op.K == "add" || op.K == "inst" || op.K == "meter") {
			ok = false
		}
	})
	return ok
}

func execMetric(p MProg) (*mhist, func()) {
	h := &mhist{p: p}
	clock := &vk.Clock{}
	otel.SetErrorHandler(&vk.ErrCapture{})
	var opts []sdkmetric.Option
	slow := &slowState{who: p.Slow.Who, d: time.Duration(p.Slow.Us) * time.Microsecond}
	h.slow = slow
	for _, k := range p.Readers {
		mr := &mreader{kind: k, rec: &readerRec{clock: clock, slow: slow}}
		rec := mr.rec
		switch k {
		case rManual, rManualOrphan:
			var mopts []sdkmetric.ManualReaderOption
			if p.Prod != 0 {
				mopts = append(mopts, sdkmetric.WithProducer(rec))
			}
			mr.r = &manualW{sdkmetric.NewManualReader(append(mopts,
				sdkmetric.WithAggregationSelector(func(ik sdkmetric.InstrumentKind) sdkmetric.Aggregation {
					rec.selected()
					return sdkmetric.DefaultAggregationSelector(ik)
				}),
				sdkmetric.WithTemporalitySelector(func(sdkmetric.InstrumentKind) metricdata.Temporality {
					rec.selected()
					return metricdata.CumulativeTemporality
				}))...), rec}
		default:
			mr.exp = &recMetricExp{clock: clock, rec: rec, fail: k == rPeriodicFail}
			iv := time.Hour
			if k == rPeriodicMs {
				iv = time.Millisecond
			}
			popts := []sdkmetric.PeriodicReaderOption{sdkmetric.WithInterval(iv)}
			if p.Prod != 0 {
				popts = append(popts, sdkmetric.WithProducer(rec))
			}
			if p.TmoMs != 0 {
				popts = append(popts, sdkmetric.WithTimeout(time.Duration(p.TmoMs)*time.Millisecond))
			}
			mr.r = &periodicW{sdkmetric.NewPeriodicReader(mr.exp, popts...), rec}
		}
		h.readers = append(h.readers, mr)
		if !orphan(k) {
			opts = append(opts, sdkmetric.WithReader(mr.r))
		}
	}
	mp := sdkmetric.NewMeterProvider(opts...)
	base := mp.Meter("base")
	if slow.who == 2 {
		_, _ = base.Int64ObservableGauge("slow", metric.WithInt64Callback(func(_ context.Context, o metric.Int64Observer) error {
			slow.call(2)
			o.Observe(1)
			return nil
		}))
	}
	var awaited atomic.Int32
	awaitBound := 2 * time.Millisecond // nothing ticks: only another goroutine can have a collection in flight
	for _, k := range p.Readers {
		if k == rPeriodicMs {
			awaitBound = 10 * time.Millisecond
		}
	}
	maxInst := -1
	p.eachOp(func(_, _ int, op MOp) {
		if (op.K == "inst" || op.K == "add") && op.X > maxInst {
			maxInst = op.X
		}
	})
	insts := make([]func(context.Context), maxInst+1)
	meterNames := []string{"a", "b", "", "a"}

	type handle struct {
		m    metric.Meter
		call *callRec
	}
	do := func(op MOp, rec *callRec, slots *[4]handle) {
		rec.K, rec.X, rec.T, rec.C = op.K, op.X, op.M, op.C
		if op.W != 0 && (op.K == "shutdown" || op.K == "rshutdown") && slow.await(awaitBound) {
			awaited.Add(1)
		}
		ctx := mkCtx(op.C)
		rec.Start = clock.Tick()
		switch op.K {
		case "meter":
			slots[op.X] = handle{mp.Meter(meterNames[op.X]), rec}
		case "inst":
			m, hc := base, (*callRec)(nil)
			if op.M >= 0 {
				if slots[op.M].m == nil {
					slots[op.M] = handle{mp.Meter(meterNames[op.M]), rec}
				}
				m, hc = slots[op.M].m, slots[op.M].call
			}
			rec.Handle = hc
			insts[op.X], rec.Err = mkInst(m, op.Y, fmt.Sprintf("i%d", op.X))
		case "add":
			if insts[op.X] != nil {
				insts[op.X](ctx)
			} else {
				rec.Skipped = true
			}
		case "collect":
			var rm metricdata.ResourceMetrics
			rec.Err = h.readers[op.X].r.Collect(ctx, &rm)
		case "flush":
			rec.Err = mp.ForceFlush(ctx)
		case "shutdown":
			rec.Err = mp.Shutdown(ctx)
		case "rshutdown":
			rec.Err = h.readers[op.X].r.Shutdown(ctx)
		}
		rec.End = clock.Tick()
		rec.Done = true
	}

	h.gs = make([][]callRec, len(p.Gs))
	for g := range p.Gs {
		h.gs[g] = make([]callRec, len(p.Gs[g]))
	}
	body := func(g int) {
		var slots [4]handle
		for i, op := range p.Gs[g] {
			vk.Perturb(op.P)
			h.gs[g][i].G, h.gs[g][i].I = g, i
			guard(&h.gs[g][i], func() { do(op, &h.gs[g][i], &slots) })
		}
	}
	if len(p.Gs) == 1 {
		body(0)
	} else {
		vk.Parallel(len(p.Gs), body)
	}
	h.post = make([]callRec, len(p.Post))
	var ps [4]handle
	for i, op := range p.Post {
		h.post[i].G, h.post[i].I = -2, i
		guard(&h.post[i], func() { do(op, &h.post[i], &ps) })
	}
	// give a periodic reader that (wrongly) survived its Shutdown the chance to show up
	for _, k := range p.Readers {
		if k == rPeriodicMs {
			time.Sleep(3 * time.Millisecond)
			break
		}
	}
	// a collection that (wrongly) outlived a Shutdown call gets the time to reach the exporter
	slow.settle()
	h.awaited = int(awaited.Load())
	return h, func() {
		_ = mp.Shutdown(context.Background())
		for _, r := range h.readers {
			_ = r.r.Shutdown(context.Background())
		}
	}
}

// mkInst creates an instrument of the given kind and returns its Add / Record call.
func mkInst(m metric.Meter, kind int, name string) (func(context.Context), error) {
	switch kind {
	case 1:
		i, err := m.Float64Counter(name)
		if i == nil {
			return nil, err
		}
		return func(ctx context.Context) { i.Add(ctx, 1.5) }, err
	case 2:
		i, err := m.Int64UpDownCounter(name)
		if i == nil {
			return nil, err
		}
		return func(ctx context.Context) { i.Add(ctx, -1) }, err
	case 3:
		i, err := m.Float64Histogram(name)
		if i == nil {
			return nil, err
		}
		return func(ctx context.Context) { i.Record(ctx, 2.5) }, err
	case 4:
		i, err := m.Int64Gauge(name)
		if i == nil {
			return nil, err
		}
		return func(ctx context.Context) { i.Record(ctx, 7) }, err
	case 5:
		i, err := m.Int64Histogram(name)
		if i == nil {
			return nil, err
		}
		return func(ctx context.Context) { i.Record(ctx, 3) }, err
	}
	i, err := m.Int64Counter(name)
	if i == nil {
		return nil, err
	}
	return func(ctx context.Context) { i.Add(ctx, 1) }, err
}

func (h *mhist) calls() []*callRec {
	var out []*callRec
	for g := range h.gs {
		for i := range h.gs[g] {
			out = append(out, &h.gs[g][i])
		}
	}
	for i := range h.post {
		out = append(out, &h.post[i])
	}
	return out
}

func (h *mhist) render() []string {
	var out []string
	for _, c := range h.calls() {
		if c.Done {
			s := c.String()
			if c.K == "inst" {
				s += fmt.Sprintf(" meter=%d -> %v", c.T, c.Err)
			}
			out = append(out, s)
		}
	}
	for i, r := range h.readers {
		name := fmt.Sprintf("reader %d %s", i, readerNames[r.kind])
		sd, sel := r.rec.snapshot()
		for _, s := range sd {
			out = append(out, fmt.Sprintf("t=%d..%d   %s: Shutdown(ctx: %s) -> %v", s.Enter, s.Exit, name, s.Ctx, s.Err))
		}
		for _, s := range sel {
			out = append(out, fmt.Sprintf("t=%d   %s: aggregation/temporality selector consulted", s, name))
		}
		if r.exp != nil {
			ex, esd := r.exp.snapshot()
			for _, x := range ex {
				out = append(out, fmt.Sprintf("t=%d   exporter of %s: Export", x, name))
			}
			for _, s := range esd {
				out = append(out, fmt.Sprintf("t=%d..%d   exporter of %s: Shutdown", s.Enter, s.Exit, name))
			}
		}
	}
	return out
}

func isReaderShutdown(err error) bool { return errors.Is(err, sdkmetric.ErrReaderShutdown) }

// ---------------------------------------------------------------------
// oracle; for one-goroutine programs the history is a sequence and the
// general history oracle below is exact.

func oracleMetric(h *mhist) ([]vk.Violation, map[string]bool) {
	vs := panicViolations(h.calls())
	cl := map[string]bool{}
	bad := func(kind, format string, a ...any) { vs = append(vs, vk.V(kind, format, a...)) }
	calls := h.calls()

	// provider level: E0 = first return of a Shutdown(live) that reported success
	// (nil, or the documented "already shut down"), D = return of every
	// Shutdown call that was issued before E0.
	e0, d := never, int64(0)
	for _, c := range calls {
		if c.Done && c.K == "shutdown" {
			if c.C != 0 {
				cl["shutdown_with_cancelled_context"] = true
			}
			if c.C == 0 && (c.Err == nil || isReaderShutdown(c.Err)) && c.End < e0 {
				e0 = c.End
			}
		}
	}
	for _, c := range calls {
		if c.Done && c.K == "shutdown" && c.Start < e0 && c.End > d {
			d = c.End
		}
	}
	down := e0 != never
	if !down {
		d = never
	}
	// dAny = the first return of any provider Shutdown call (any context, any result)
	dAny := never
	for _, c := range calls {
		if c.Done && c.K == "shutdown" && c.End < dAny {
			dAny = c.End
		}
	}

	type rstate struct {
		sd   []rsd
		sel  []int64
		r0   int64 // first return of a Shutdown(live) on this reader that reported nil / already shut down
		dr   int64 // every Shutdown call on this reader issued before r0 has returned
		any0 int64 // first return of any Shutdown call on this reader
	}
	rs := make([]*rstate, len(h.readers))
	for i, r := range h.readers {
		st := &rstate{r0: never, any0: never}
		st.sd, st.sel = r.rec.snapshot()
		performed := 0
		for _, s := range st.sd {
			if !isReaderShutdown(s.Err) {
				performed++
			}
			if s.Live && (s.Err == nil || isReaderShutdown(s.Err)) && s.Exit < st.r0 {
				st.r0 = s.Exit
			}
			if s.Exit < st.any0 {
				st.any0 = s.Exit
			}
		}
		st.dr = never
		if st.r0 != never {
			st.dr = 0
			for _, s := range st.sd {
				if s.Enter < st.r0 && s.Exit > st.dr {
					st.dr = s.Exit
				}
			}
		}
		rs[i] = st
		for _, s := range st.sd {
			if s.InFlight && !isReaderShutdown(s.Err) && r.exp != nil {
				cl["periodic_reader_shutdown_with_slow_call_in_flight:ctx_"+strings.ReplaceAll(s.Ctx, " ", "_")] = true
			}
		}
		var anyCall rsd // the Shutdown call on this reader that returned first
		for _, s := range st.sd {
			if s.Exit == st.any0 {
				anyCall = s
			}
		}
		name := fmt.Sprintf("reader %d (%s)", i, readerNames[r.kind])
		if performed > 1 {
			bad("shutdown_twice", "%s: %d Shutdown calls did not return ErrReaderShutdown, i.e. the reader was shut down more than once", name, performed)
		}
		if down && len(st.sd) == 0 && !orphan(r.kind) {
			bad("not_shut_down", "%s was never shut down although a provider Shutdown with a live context has returned successfully", name)
		}
		if r.exp != nil {
			ex, esd := r.exp.snapshot()
			if len(esd) > 1 {
				bad("shutdown_twice", "the exporter of %s was shut down %d times", name, len(esd))
			}
			if (down && !orphan(r.kind) || st.r0 != never) && len(esd) != 1 {
				bad("not_shut_down", "the exporter of %s was shut down %d times although its reader / the provider has been shut down with a live context", name, len(esd))
			}
			// A PeriodicReader shuts its exporter down as part of its own
			// (first) Shutdown, whatever the final flush reported: once ANY
			// live-context Shutdown call on the reader has returned - even with
			// the export error of a backend that is down - the exporter has
			// been shut down exactly once.
			for _, s := range st.sd {
				if s.Live && len(esd) != 1 {
					bad("not_shut_down", "the exporter of %s was shut down %d times although a Shutdown call with a live context on its reader has returned (%v)", name, len(esd), s.Err)
					break
				}
			}
			// "After Shutdown has returned ... nothing more is exported": no
			// Export call begins once ANY Shutdown call on the reader, or on the
			// provider it is registered with, has returned - whatever context
			// that call was given and whatever it returned (see the package
			// comment).
			for _, x := range ex {
				switch {
				case x > st.any0:
					bad("export_after_shutdown", "the exporter of %s received an Export call at t=%d, after a Shutdown call on the reader (ctx: %s) had returned %v at t=%d", name, x, anyCall.Ctx, anyCall.Err, st.any0)
					cl["export_after_done_context_shutdown"] = cl["export_after_done_context_shutdown"] || !anyCall.Live
				case x > d:
					bad("export_after_shutdown", "the exporter of %s received an Export call at t=%d, after the provider's Shutdown had returned (t=%d)", name, x, d)
				case x > dAny && !orphan(r.kind):
					bad("export_after_shutdown", "the exporter of %s received an Export call at t=%d, after a Shutdown call on the provider had returned (t=%d)", name, x, dAny)
				}
			}
			if len(ex) > 0 {
				cl["periodic_export_observed"] = true
			}
		}
	}

	telemetryAfter := false
	for _, c := range calls {
		if !c.Done {
			continue
		}
		after := c.Start > d
		if after && (c.K == "add" || c.K == "inst" || c.K == "collect") {
			telemetryAfter = true
		}
		switch c.K {
		case "collect":
			st := rs[c.X]
			switch {
			case c.Start > st.dr || after && !orphan(h.readers[c.X].kind):
				cl["collect_after_reader_shutdown"] = true
				cl["collect_after_shutdown_of_unregistered_reader"] = cl["collect_after_shutdown_of_unregistered_reader"] || orphan(h.readers[c.X].kind)
				if !isReaderShutdown(c.Err) {
					bad("collect_after_shutdown", "%s: Collect on reader %d after its own (%s) or the provider's (%s) Shutdown had returned gave %v, documented: ErrReaderShutdown", c, c.X, tstr(st.dr), tstr(d), c.Err)
				}
			case c.End < st.any0 && c.End < e0 && c.C == 0 && c.Err == nil:
				cl["collect_while_up_ok"] = true
				cl["external_producer_called_by_collect"] = cl["external_producer_called_by_collect"] || len(h.readers[c.X].rec.producedCalls()) > 0
			case c.End < st.any0 && errors.Is(c.Err, sdkmetric.ErrReaderNotRegistered):
				cl["collect_on_unregistered_reader"] = true
			}
		case "rshutdown":
			st := rs[c.X]
			if c.Start > st.dr {
				cl["reader_shutdown_repeated"] = true
				if !okAfterDown(c.Err, c.C != 0, sdkmetric.ErrReaderShutdown) {
					bad("call_after_shutdown_failed", "%s: Shutdown of reader %d after its Shutdown had returned: %v", c, c.X, c.Err)
				}
			}
			if c.Start < d {
				cl["reader_shutdown_directly_before_provider"] = true
			}
		case "add":
			cl["add_or_record_with_done_context"] = cl["add_or_record_with_done_context"] || c.C != 0 && !c.Skipped
		case "flush", "shutdown":
			if after {
				cl[c.K+"_after_shutdown"] = true
				// a reader timeout of a few ms (WithTimeout) bounds a ForceFlush
				// whose context has no deadline: it may expire before the call
				// notices that the reader is down
				tinyTimeout := c.K == "flush" && h.p.TmoMs > 0 && h.p.TmoMs < 1000
				if !okAfterDown(c.Err, c.C != 0 || tinyTimeout, sdkmetric.ErrReaderShutdown) {
					bad("call_after_shutdown_failed", "%s after the provider's Shutdown had returned (t=%d): %v, documented: nil or ErrReaderShutdown", c, d, c.Err)
				}
			}
		case "inst":
			// a Meter handed out after Shutdown is a no-op: creating an
			// instrument through it reaches no reader. Decidable only where
			// nothing else runs (one goroutine / post section).
			obtainedAfter := c.Handle != nil && c.Handle.Start > d
			if obtainedAfter && (len(h.gs) == 1 || c.G == -2) {
				cl["meter_obtained_after_shutdown"] = true
				for i, st := range rs {
					for _, s := range st.sel {
						if s > c.Start && s < c.End {
							bad("meter_not_noop_after_shutdown", "%s: creating an instrument through a Meter handed out after Shutdown had returned consulted the selectors of reader %d (t=%d)", c, i, s)
						}
					}
				}
			} else if after && c.Handle == nil || (c.Handle != nil && c.Handle.End < e0) && after {
				cl["old_meter_used_after_shutdown"] = true
			}
		}
	}
	cl["provider_shut_down"] = down
	cl["telemetry_after_shutdown"] = telemetryAfter
	if h.slow != nil && h.slow.who != 0 && h.slow.entered.Load() > 0 {
		cl["slow_"+slowNames[h.slow.who]+"_called"] = true
	}
	cl["shutdown_op_awaited_slow_call_in_flight"] = h.awaited > 0
	return vs, cl
}

// ---------------------------------------------------------------------
// generator

var mKinds = func() []string {
	var out []string
	for _, kw := range []struct {
		k string
		w int
	}{{"meter", 2}, {"inst", 6}, {"add", 8}, {"collect", 6}, {"flush", 4}, {"shutdown", 4}, {"rshutdown", 2}} {
		for i := 0; i < kw.w; i++ {
			out = append(out, kw.k)
		}
	}
	return out
}()

func genRawMOp(conc bool) *rapid.Generator[MOp] {
	return rapid.Custom(func(t *rapid.T) MOp {
		op := MOp{K: rapid.SampledFrom(mKinds).Draw(t, "kind")}
		switch op.K {
		case "meter":
			op.X = rapid.IntRange(0, 3).Draw(t, "slot")
		case "inst":
			op.M = rapid.IntRange(-1, 3).Draw(t, "slot")
			op.Y = rapid.IntRange(0, len(instNames)-1).Draw(t, "instrument")
		case "add":
			op.X = rapid.IntRange(0, 7).Draw(t, "which")
			op.C = rapid.SampledFrom([]int{0, 0, 0, 0, -1, -2}).Draw(t, "ctx")
		case "collect", "rshutdown":
			op.X = rapid.IntRange(0, 3).Draw(t, "reader")
			op.C = rapid.SampledFrom([]int{0, 0, 0, 0, 0, -1, -2, 1}).Draw(t, "ctx")
		case "flush", "shutdown":
			op.C = rapid.SampledFrom([]int{0, 0, 0, 0, -1, -1, -2, 1, 2}).Draw(t, "ctx")
		}
		if op.K == "shutdown" || op.K == "rshutdown" {
			op.W = rapid.IntRange(0, 1).Draw(t, "await")
		}
		if conc {
			op.P = rapid.IntRange(0, 3).Draw(t, "p")
		}
		return op
	})
}

func normaliseM(p *MProg) {
	if len(p.Readers) == 0 || p.Slow.Who == 0 {
		p.Slow = MSlow{}
	}
	if p.Slow.Who == 1 {
		p.Prod = 1
	}
	next := 0
	section := func(ops []MOp) {
		var mine []int
		for i := range ops {
			op := &ops[i]
			if p.Slow.Who == 0 {
				op.W = 0
			}
			switch op.K {
			case "add":
				if len(mine) == 0 {
					op.K, op.M, op.C = "inst", -1, 0
				} else {
					op.X = mine[len(mine)-1-op.X%len(mine)]
				}
			case "collect", "rshutdown":
				if len(p.Readers) == 0 {
					op.K, op.X = "flush", 0
				} else {
					op.X %= len(p.Readers)
				}
			}
			if op.K == "inst" {
				op.X = next
				next++
				mine = append(mine, op.X)
			}
		}
	}
	for g := range p.Gs {
		section(p.Gs[g])
	}
	section(p.Post)
}

func genReaders(t *rapid.T) []int {
	if rapid.IntRange(0, 11).Draw(t, "no_reader") == 0 {
		return nil
	}
	return rapid.SliceOfN(rapid.SampledFrom([]int{rManual, rManual, rManual, rPeriodic, rPeriodic, rPeriodic, rPeriodicMs, rPeriodicMs, rPeriodicFail, rPeriodicFail, rManualOrphan, rPeriodicOrphan}), 1, 3).Draw(t, "readers")
}

func genProd(t *rapid.T) int { return rapid.SampledFrom([]int{0, 0, 1}).Draw(t, "external_producer") }

// genSlow draws the slow collaborator (none most of the time).
// genTmo draws the WithTimeout option of the periodic readers: unset most of
// the time, else negative (ignored), tiny or the default spelled out.
func genTmo(t *rapid.T) int {
	return rapid.SampledFrom([]int{0, 0, 0, 0, -1, 1, 1, 2, 30000}).Draw(t, "reader_timeout_ms")
}

func genSlow(t *rapid.T) MSlow {
	s := MSlow{Who: rapid.SampledFrom([]int{0, 0, 0, 0, 0, 0, 1, 1, 2, 3}).Draw(t, "slow_who")}
	if s.Who != 0 {
		s.Us = rapid.SampledFrom([]int{300, 1000, 3000, 5000}).Draw(t, "slow_us")
	}
	return s
}

func genMetricSeq(t *rapid.T) MProg {
	p := MProg{Readers: genReaders(t), Prod: genProd(t), Slow: genSlow(t), TmoMs: genTmo(t)}
	p.Gs = [][]MOp{genChunked(t, genRawMOp(false), 15)}
	normaliseM(&p)
	return p
}

func metricInfo(p MProg, cl map[string]bool) vk.Info {
	var info vk.Info
	for k, v := range cl {
		info.ClassIf(v, k)
	}
	for _, k := range p.Readers {
		info.Class("reader:" + readerNames[k])
	}
	info.ClassIf(len(p.Readers) == 0, "no_reader")
	info.ClassIf(len(p.Readers) >= 2, "two_or_more_readers")
	info.Classes = dedup(info.Classes)
	registered := 0
	for _, k := range p.Readers {
		if !orphan(k) {
			registered++
		}
	}
	info.ClassIf(p.Prod != 0 && len(p.Readers) > 0, "readers_with_external_producer")
	periodic := false
	for _, k := range p.Readers {
		periodic = periodic || k != rManual && k != rManualOrphan
	}
	info.ClassIf(periodic && p.TmoMs > 0 && p.TmoMs <= 2, "periodic_reader_timeout_tiny")
	info.ClassIf(periodic && p.TmoMs > 0 && p.TmoMs <= 2 && p.Slow.Who != 0, "periodic_reader_timeout_tiny_and_slow_collaborator")
	info.ClassIf(periodic && p.TmoMs != 0, "periodic_reader_WithTimeout")
	info.ClassIf(p.Slow.Who != 0, "slow_collaborator:"+slowNames[p.Slow.Who%len(slowNames)])
	p.eachOp(func(_, _ int, op MOp) {
		info.ClassIf(op.C > 0 && (op.K == "shutdown" || op.K == "rshutdown"), "shutdown_with_short_deadline")
	})
	p.eachOp(func(_, _ int, op MOp) {
		if op.K == "inst" {
			info.Class("instrument:" + instNames[op.Y])
		}
	})
	info.Classes = dedup(info.Classes)
	info.NonTrivial = registered > 0 && cl["provider_shut_down"] && cl["telemetry_after_shutdown"]
	return info
}

func runMetricSeq(p MProg) ([]vk.Violation, vk.Info) {
	if len(p.Gs) != 1 || len(p.Post) != 0 || !validM(p) {
		var info vk.Info
		info.Class("invalid_program(not run)")
		return nil, info
	}
	h, cleanup := execMetric(p)
	defer cleanup()
	vs, cl := oracleMetric(h)
	attachHistory(vs, h.render())
	return vs, metricInfo(p, cl)
}

func TestMetricLifecycle(t *testing.T) {
	vk.Run(t, vk.Spec[MProg]{
		Property: "C15", Check: "metric_lifecycle",
		Rule: "generated op lists (1-60 ops: Meter / create Int64Counter / Add / reader.Collect / provider ForceFlush / provider Shutdown / reader.Shutdown directly, with live or already-cancelled contexts, repeated) on a MeterProvider with 0-3 readers drawn from ManualReader, PeriodicReader(recording exporter, 1h), PeriodicReader(recording exporter, 1ms), PeriodicReader(failing exporter) and a ManualReader / PeriodicReader that is NOT registered with the provider, optionally all built WithProducer(recording producer) and WithTimeout(unset / negative / 1-2 ms / 30 s); optionally one slow collaborator that ignores cancellation (external producer, observable callback or the exporter's Export, 0.3-5 ms per call); six instrument kinds (Add and Record); contexts live, cancelled, past their deadline (also for Add / Record) or with a deadline 1-2 ms ahead; the first shutdown op may first wait until a slow call is in flight; " +
			"non-trivial = at least one registered reader, a provider Shutdown with a live context returned nil/ErrReaderShutdown and an Add / instrument creation / Collect follows it; distinct = distinct case encodings",
		Quick: 3000, Thorough: 40000,
		Gen: genMetricSeq, Run: runMetricSeq,
		CaseTimeout: 30 * time.Second,
	})
}
