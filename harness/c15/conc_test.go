package c15

import (
	"fmt"
	"testing"
	"time"

	"go.opentelemetry.io/otel/verif/internal/vk"
	"pgregory.net/rapid"
)

// ---------------------------------------------------------------------
// history oracle for concurrent trace programs
//
// Every bound below is derived from the call intervals recorded with the
// logical clock (a returned before b was issued <=> a.End < b.Start):
//
//	firstIssue  the first provider Shutdown call was issued
//	E0          the first Shutdown(live ctx) call that returned nil returned
//	D           every Shutdown call issued before E0 has returned
//	U[p]        an Unregister(p) that certainly found p registered (p was
//	            registered before the call was issued) and returned before
//	            firstIssue has returned
//
// must-deliver: OnStart/OnEnd of a span whose Start/End call ran entirely
// before firstIssue reaches every processor that was certainly registered
// during the whole call (registered before it was issued, no Unregister of it
// issued before it returned).
// must-not-deliver: a processor observes nothing from calls issued after
// U[p] or after D, nothing at all before its Register call was issued, and no
// span twice.

func oracleTraceConc(h *thist) ([]vk.Violation, map[string]bool) {
	vs := panicViolations(h.calls())
	cl := map[string]bool{}
	bad := func(kind, format string, a ...any) { vs = append(vs, vk.V(kind, format, a...)) }
	p := h.p
	calls := h.calls()

	firstIssue, e0, d := never, never, int64(0)
	anyCancelled := false
	for _, c := range calls {
		if c.Done && c.K == "shutdown" {
			if c.Start < firstIssue {
				firstIssue = c.Start
			}
			if c.C != 0 {
				anyCancelled = true
				cl["shutdown_with_cancelled_context"] = true
			}
			if c.C == 0 && c.Err == nil && c.End < e0 {
				e0 = c.End
			}
		}
	}
	nShutInGs := 0
	for _, c := range calls {
		if c.Done && c.K == "shutdown" {
			if c.Start < e0 && c.End > d {
				d = c.End
			}
			if c.G >= 0 {
				nShutInGs++
			}
		}
	}
	down := e0 != never
	if !down {
		d = never
	}
	cl["concurrent_shutdown_calls"] = nShutInGs >= 2

	// registration / unregistration intervals per pool index
	regStart, regEnd := [poolSize]int64{}, [poolSize]int64{}
	for i := range regStart {
		regStart[i], regEnd[i] = never, never
	}
	for _, x := range p.Init {
		regStart[x], regEnd[x] = -1, -1
	}
	var unregs [poolSize][]*callRec
	for _, c := range calls {
		if !c.Done {
			continue
		}
		switch c.K {
		case "reg":
			regStart[c.X], regEnd[c.X] = c.Start, c.End
		case "unreg":
			unregs[c.X] = append(unregs[c.X], c)
		}
	}
	var u [poolSize]int64
	for x := range u {
		u[x] = never
		for _, c := range unregs[x] {
			if regEnd[x] < c.Start && c.End < firstIssue && c.End < u[x] {
				u[x] = c.End
			}
		}
	}
	certainlyMember := func(x int, a, b int64) bool {
		if !(regEnd[x] < a) || b >= firstIssue {
			return false
		}
		for _, c := range unregs[x] {
			if c.Start < b {
				return false
			}
		}
		return true
	}

	startCall, endCall := map[int]*callRec{}, map[int]*callRec{}
	for _, c := range calls {
		if !c.Done || c.Skipped {
			continue
		}
		switch c.K {
		case "start":
			startCall[c.X] = c
		case "end":
			if prev := endCall[c.X]; prev == nil || c.Start < prev.Start {
				endCall[c.X] = c // the first End of a span is the one that delivers
			}
		}
	}
	cause := func(kind byte, id int) *callRec {
		if kind == 's' {
			return startCall[id]
		}
		return endCall[id]
	}
	// a span is certainly recording when it was started through an SDK tracer
	// obtained, and the Start call returned, before any Shutdown was issued
	recording := func(id int) bool {
		sc := startCall[id]
		return sc != nil && sc.End < firstIssue && (sc.Handle == nil || sc.Handle.End < firstIssue) && sc.Recording
	}

	// what each observer saw: observer index 0..3 recorders, pSSP exporter, pBSP exporter
	type obs struct {
		kind byte
		id   int
		tick int64
	}
	seen := map[int][]obs{}
	for r := 0; r < 4; r++ {
		seen[r] = nil
	}
	for idx := range h.exps {
		seen[idx] = nil
	}
	for r := 0; r < 4; r++ {
		for _, e := range h.recs[r].events() {
			if e.Kind == 's' || e.Kind == 'e' {
				seen[r] = append(seen[r], obs{e.Kind, e.Span, e.Tick})
			}
		}
	}
	for idx, e := range h.exps {
		ex, _ := e.snapshot()
		for _, x := range ex {
			for _, id := range x.Spans {
				seen[idx] = append(seen[idx], obs{'e', id, x.Tick})
			}
		}
	}
	for _, e := range h.odd.events() {
		bad("membership", "the never-registered processor of non-comparable type observed an event (kind %c, t=%d)", e.Kind, e.Tick)
	}
	for x, os := range seen {
		count := map[[2]int]int{}
		for _, o := range os {
			c := cause(o.kind, o.id)
			what := fmt.Sprintf("%s observed %s of s%d at t=%d", poolNames[x], map[byte]string{'s': "OnStart", 'e': "OnEnd/export"}[o.kind], o.id, o.tick)
			k := [2]int{int(o.kind), o.id}
			count[k]++
			if count[k] == 2 {
				bad("membership", "%s for the second time", what)
			}
			if c == nil {
				bad("membership", "%s, a span the program never started/ended", what)
				continue
			}
			if o.tick < regStart[x] {
				bad("membership", "%s before its registration was issued (t=%d)", what, regStart[x])
			}
			if c.Start > u[x] {
				bad("delivery_after_unregister", "%s; the causing call (%s) was issued after UnregisterSpanProcessor(%s) had returned (t=%d)", what, c, poolNames[x], u[x])
			}
			if c.Start > d {
				kind := "delivery_after_shutdown"
				if x >= 4 {
					kind = "export_after_shutdown"
				}
				bad(kind, "%s; the causing call (%s) was issued after the provider's Shutdown had returned nil (t=%d)", what, c, d)
			}
		}
		// must-deliver (the batch processor exports later, it is not asserted here)
		if x == pBSP {
			continue
		}
		for id, sc := range startCall {
			if x < 4 && sc.End < firstIssue && (sc.Handle == nil || sc.Handle.End < firstIssue) && certainlyMember(x, sc.Start, sc.End) && count[[2]int{'s', id}] != 1 {
				bad("membership", "%s was registered during the whole call %s but observed OnStart(s%d) %d times", poolNames[x], sc, id, count[[2]int{'s', id}])
			}
		}
		for id, ec := range endCall {
			if recording(id) && certainlyMember(x, ec.Start, ec.End) {
				cl["end_while_membership_certain"] = true
				if count[[2]int{'e', id}] != 1 {
					bad("membership", "%s was registered during the whole call %s but observed OnEnd/export of s%d %d times", poolNames[x], ec, id, count[[2]int{'e', id}])
				}
			}
		}
	}
	// shutdown counts
	for x := 0; x < poolSize; x++ {
		var n, byEnd int
		var name string
		switch {
		case x < 4:
			evs := h.recs[x].events()
			for _, e := range evs {
				if e.Kind == 'd' {
					n++
				}
			}
			byEnd, name = shutdownsBefore(evs, never), poolNames[x]
		case h.exps[x] != nil:
			_, sd := h.exps[x].snapshot()
			n, byEnd, name = len(sd), ivalsBefore(sd, never), "the exporter of "+poolNames[x]
		default:
			continue
		}
		if n > 1 {
			bad("shutdown_twice", "%s was registered once and shut down %d times", name, n)
		}
		stock := x >= 4
		if down && regEnd[x] < firstIssue && !(stock && anyCancelled) && byEnd != 1 {
			bad("not_shut_down", "%s was registered before the first Shutdown was issued and has been shut down %d times at the end although a provider Shutdown with a live context returned nil (t=%d)", name, byEnd, e0)
		}
		if u[x] != never && byEnd != 1 {
			bad("not_shut_down", "%s was unregistered (the call returned at t=%d) and has been shut down %d times", name, u[x], byEnd)
		}
		if u[x] != never {
			cl["unregister_of_certain_member"] = true
		}
	}

	// handles and calls after the provider is down
	telemetryAfter := false
	for _, c := range calls {
		if !c.Done || c.Start <= d {
			continue
		}
		switch c.K {
		case "start":
			telemetryAfter = true
			if c.Handle != nil && c.Handle.Start > d {
				cl["tracer_obtained_after_shutdown"] = true
				if c.Recording {
					bad("recording_after_shutdown", "a span started through a Tracer handed out after Shutdown had returned nil (t=%d) is recording (%s)", d, c)
				}
			}
		case "end":
			telemetryAfter = true
			if sc := startCall[c.X]; sc != nil && sc.End < firstIssue && endCall[c.X] == c {
				cl["span_started_before_shutdown_ended_after"] = true
			}
		case "flush", "shutdown":
			cl[c.K+"_after_shutdown"] = true
			if !okAfterDown(c.Err, c.C != 0) {
				bad("call_after_shutdown_failed", "%s after the provider's Shutdown had returned nil (t=%d): %v", c, d, c.Err)
			}
		}
	}
	// races the generator is meant to produce
	for _, c := range calls {
		if !c.Done || c.G < 0 {
			continue
		}
		if c.K == "reg" || c.K == "unreg" {
			for _, o := range calls {
				if o.Done && o.G >= 0 && o.G != c.G && o.K == "end" && !o.Skipped && o.Start < c.End && c.Start < o.End {
					cl["register_or_unregister_overlaps_end"] = true
				}
			}
		}
	}
	cl["provider_shut_down"] = down
	cl["telemetry_after_shutdown"] = telemetryAfter
	return vs, cl
}

// ---------------------------------------------------------------------
// generators of concurrent programs

func genGs[O any](t *rapid.T, g *rapid.Generator[O]) [][]O {
	ng := rapid.IntRange(2, 6).Draw(t, "goroutines")
	out := make([][]O, ng)
	for i := range out {
		out[i] = rapid.SliceOfN(g, 0, 10).Draw(t, "ops")
	}
	return out
}

func genTraceConc(t *rapid.T) TProg {
	p := TProg{Init: genInit(t)}
	genReentrant(t, &p)
	p.Pre = rapid.IntRange(0, 8).Draw(t, "pre")
	p.Gs = genGs(t, genRawTOp(true))
	p.Post = rapid.SliceOfN(genRawTOp(false), 0, 8).Draw(t, "post")
	p.Slow = rapid.IntRange(0, 3).Draw(t, "slow")
	p.Runs = 2
	normaliseT(&p)
	return p
}

func genMetricConc(t *rapid.T) MProg {
	p := MProg{Readers: genReaders(t), Prod: genProd(t), Slow: genSlow(t), TmoMs: genTmo(t)}
	p.Gs = genGs(t, genRawMOp(true))
	p.Post = rapid.SliceOfN(genRawMOp(false), 0, 8).Draw(t, "post")
	p.Runs = 2
	normaliseM(&p)
	return p
}

func genLogConc(t *rapid.T) LProg {
	p := LProg{Procs: genProcs(t)}
	genLogExtras(t, &p)
	p.Gs = genGs(t, genRawLOp(true))
	p.Post = rapid.SliceOfN(genRawLOp(false), 0, 8).Draw(t, "post")
	p.Slow = rapid.IntRange(0, 3).Draw(t, "slow")
	p.Runs = 2
	normaliseL(&p)
	return p
}

// ---------------------------------------------------------------------

func runs(n int) int {
	if n < 1 {
		return 1
	}
	if n > 16 {
		return 16
	}
	return n
}

func runTraceConc(p TProg) ([]vk.Violation, vk.Info) {
	var info vk.Info
	if !validT(p) {
		info.Class("invalid_program(not run)")
		return nil, info
	}
	all := map[string]bool{}
	var vs []vk.Violation
	for i := 0; i < runs(p.Runs) && len(vs) == 0; i++ {
		h, cleanup := execTrace(p)
		var cl map[string]bool
		if len(p.Gs) == 1 && p.Pre == 0 && len(p.Post) == 0 {
			vs, cl = oracleTraceSeq(h)
		} else {
			vs, cl = oracleTraceConc(h)
		}
		attachHistory(vs, h.render())
		reentrantClasses(h, func(c string) { all[c] = true })
		cleanup()
		for k, v := range cl {
			all[k] = all[k] || v
		}
	}
	for k, v := range all {
		info.ClassIf(v, k)
	}
	used := map[int]bool{}
	for _, x := range p.Init {
		used[x] = true
	}
	p.eachOp(func(_, _ int, op TOp) {
		if op.K == "reg" {
			used[op.X] = true
		}
	})
	for x := range used {
		info.Class("pool:" + poolNames[x])
	}
	info.Classes = dedup(info.Classes)
	info.NonTrivial = len(p.Gs) >= 2 && (all["register_or_unregister_overlaps_end"] || all["concurrent_shutdown_calls"]) && all["telemetry_after_shutdown"]
	return vs, info
}

func runMetricConc(p MProg) ([]vk.Violation, vk.Info) {
	if !validM(p) {
		var info vk.Info
		info.Class("invalid_program(not run)")
		return nil, info
	}
	all := map[string]bool{}
	var vs []vk.Violation
	for i := 0; i < runs(p.Runs) && len(vs) == 0; i++ {
		h, cleanup := execMetric(p)
		var cl map[string]bool
		vs, cl = oracleMetric(h)
		attachHistory(vs, h.render())
		cleanup()
		for k, v := range cl {
			all[k] = all[k] || v
		}
	}
	info := metricInfo(p, all)
	n := 0
	p.eachOp(func(g, _ int, op MOp) {
		if g >= 0 && (op.K == "shutdown" || op.K == "rshutdown") {
			n++
		}
	})
	info.ClassIf(n >= 2, "two_or_more_shutdown_ops_in_goroutines")
	info.NonTrivial = info.NonTrivial && len(p.Gs) >= 2 && n >= 1
	return vs, info
}

func runLogConc(p LProg) ([]vk.Violation, vk.Info) {
	if !validL(p) {
		var info vk.Info
		info.Class("invalid_program(not run)")
		return nil, info
	}
	all := map[string]bool{}
	var vs []vk.Violation
	for i := 0; i < runs(p.Runs) && len(vs) == 0; i++ {
		h, cleanup := execLog(p)
		var cl map[string]bool
		vs, cl = oracleLog(h)
		attachHistory(vs, h.render())
		cleanup()
		for k, v := range cl {
			all[k] = all[k] || v
		}
	}
	info := logInfo(p, all)
	n := 0
	p.eachOp(func(g, _ int, op LOp) {
		if g >= 0 && op.K == "shutdown" {
			n++
		}
	})
	info.ClassIf(n >= 2, "two_or_more_shutdown_ops_in_goroutines")
	info.NonTrivial = info.NonTrivial && len(p.Gs) >= 2 && n >= 1
	return vs, info
}

const concRule = "2-6 goroutines with 0-10 ops each (the ops of the sequential check, each preceded by a generated schedule perturbation) released together, followed by a sequential post section of 0-8 ops; each program is executed twice under the race detector; "

func TestConcTrace(t *testing.T) {
	vk.Run(t, vk.Spec[TProg]{
		Property: "C15", Check: "conc_trace",
		Rule: "trace programs: 0-8 spans started before the goroutines are released (each ended by one goroutine or by the post section), " + concRule +
			"non-trivial = a Register/Unregister call overlapped an End call of another goroutine or >= 2 goroutine Shutdown calls, and a Start/End call was issued after a Shutdown with a live context had returned nil; distinct = distinct case encodings",
		Quick: 800, Thorough: 10000,
		Gen: genTraceConc, Run: runTraceConc, Known: knownTrace,
		CaseTimeout: 30 * time.Second, Repeat: 50, ShrinkTime: 30 * time.Second,
	})
}

func TestConcMetric(t *testing.T) {
	vk.Run(t, vk.Spec[MProg]{
		Property: "C15", Check: "conc_metric",
		Rule: "metric programs: " + concRule +
			"non-trivial = at least one reader, a provider or reader Shutdown op inside a goroutine, a provider Shutdown with a live context returned nil/ErrReaderShutdown and an Add / instrument creation / Collect was issued after it; distinct = distinct case encodings",
		Quick: 500, Thorough: 6000,
		Gen: genMetricConc, Run: runMetricConc,
		CaseTimeout: 30 * time.Second, Repeat: 50, ShrinkTime: 30 * time.Second,
	})
}

func TestConcLog(t *testing.T) {
	vk.Run(t, vk.Spec[LProg]{
		Property: "C15", Check: "conc_log",
		Rule: "log programs: " + concRule +
			"non-trivial = at least one processor, a Shutdown op inside a goroutine, a Shutdown with a live context returned nil and an Emit was issued after it; distinct = distinct case encodings",
		Quick: 400, Thorough: 5000,
		Gen: genLogConc, Run: runLogConc,
		CaseTimeout: 30 * time.Second, Repeat: 50, ShrinkTime: 30 * time.Second,
	})
}
