package c15

import (
	"context"
	"errors"
	"fmt"
	"sync"
	"testing"
	"time"

	"go.opentelemetry.io/otel"
	sdktrace "go.opentelemetry.io/otel/sdk/trace"
	"go.opentelemetry.io/otel/trace"
	"go.opentelemetry.io/otel/verif/internal/vk"
	"pgregory.net/rapid"
)

// The processor pool of a trace program.
const (
	pRec0   = iota // recording processors
	pRec1          //
	pRec2          //
	pRecErr        // recording processor whose Shutdown and ForceFlush return an error
	pSSP           // NewSimpleSpanProcessor(recording exporter)
	pSSPNil        // NewSimpleSpanProcessor(nil)
	pBSP           // NewBatchSpanProcessor(recording exporter)
	pBSPNil        // NewBatchSpanProcessor(nil)
	poolSize
)

var poolNames = [poolSize]string{"rec0", "rec1", "rec2", "rec_err", "simple(exp)", "simple(nil)", "batch(exp)", "batch(nil)"}

// TOp is one step of a trace program.
type TOp struct {
	K string `json:"k"`           // reg unreg unreg_nil unreg_odd tracer start end flush shutdown
	X int    `json:"x,omitempty"` // reg/unreg: pool index; tracer: slot; start/end: span id
	T int    `json:"t,omitempty"` // start: tracer slot of the goroutine, -1 = the tracer obtained at construction
	C int    `json:"c,omitempty"` // flush/shutdown/start: context of the call, 0 live, -1 already cancelled, -2 deadline already expired
	P int    `json:"p,omitempty"` // perturbation before the op (concurrent programs)
}

// TProg is a trace program: the case of trace_membership (one goroutine, no
// post section) and conc_trace.
type TProg struct {
	Init []int   `json:"init"`           // pool indices registered through WithSpanProcessor, in order
	Pre  int     `json:"pre"`            // spans 0..Pre-1 are started before the goroutines are released
	Gs   [][]TOp `json:"gs"`             // goroutine -> ops
	Post []TOp   `json:"post,omitempty"` // sequential section after the goroutines have joined
	Slow int     `json:"slow,omitempty"` // perturbation inside the recording processors' Shutdown
	Runs int     `json:"runs,omitempty"`
	// Re-entrant ("instrumented") exporters: the exporter itself starts and
	// ends a span (named "x") through a tracer of the SAME provider, obtained
	// right after construction. SspX: exporter of simple(exp), 0 plain, 1 its
	// Shutdown traces. BspX: exporter of batch(exp), bit 0 its Shutdown
	// traces, bit 1 its ExportSpans traces (once per call that carries a span
	// of the program). ExportSpans re-entrancy behind the SIMPLE processor is
	// not generated: it self-deadlocks on the unchanged tree (OnEnd holds the
	// exporter mutex while it calls ExportSpans), see the package comment.
	SspX int `json:"ssp_x,omitempty"`
	BspX int `json:"bsp_x,omitempty"`
	// Re-entrant PROCESSOR: the Shutdown of rec2 calls back into the provider
	// that is shutting it down (with the context it was given): bit 0
	// tp.Shutdown, bit 1 tp.Tracer("re") + Start/End of a span "x", bit 2
	// tp.ForceFlush, bit 3 tp.UnregisterSpanProcessor(itself), bit 4
	// tp.RegisterSpanProcessor(a fresh recording processor). Such a program
	// never unregisters rec2, so that its Shutdown is only ever called by
	// TracerProvider.Shutdown (an UnregisterSpanProcessor holds the provider
	// mutex while it shuts the processor down with the provider still up; a
	// call back into the provider from there blocks on the unchanged tree and
	// is not generated, see the package comment).
	RecX int `json:"rec_x,omitempty"`
	// Options of the stock batch span processors: BOpt of batch(exp), NOpt of
	// batch(nil). See TBatchOpt.
	BOpt TBatchOpt `json:"bopt"`
	NOpt TBatchOpt `json:"nopt"`
}

// TBatchOpt is the option list of a stock batch span processor: bit i of Set
// says that option i is given (0 WithMaxQueueSize(Q), 1
// WithMaxExportBatchSize(B), 2 WithBatchTimeout(ToMs ms), 3
// WithExportTimeout(XMs ms), 4 WithBlocking()). Without bit 2 the batch
// timeout is one hour (the processors of a program export when they are
// flushed, full or shut down).
//
// The processor around the recording exporter is kept lossless, because the
// oracle expects every span ended while it was registered to be exported:
// without WithBlocking its queue holds at least 256 spans (a program ends
// fewer), and it does not block when its exporter is re-entrant in
// ExportSpans (the nested End would wait for the worker that is making the
// call). batch(nil) takes every combination.
type TBatchOpt struct {
	Set  int `json:"set,omitempty"`
	Q    int `json:"q,omitempty"`
	B    int `json:"b,omitempty"`
	ToMs int `json:"to_ms,omitempty"`
	XMs  int `json:"x_ms,omitempty"`
}

func (o TBatchOpt) blocking() bool { return o.Set&16 != 0 }

func (o TBatchOpt) options() []sdktrace.BatchSpanProcessorOption {
	var out []sdktrace.BatchSpanProcessorOption
	if o.Set&1 != 0 {
		out = append(out, sdktrace.WithMaxQueueSize(o.Q))
	}
	if o.Set&2 != 0 {
		out = append(out, sdktrace.WithMaxExportBatchSize(o.B))
	}
	if o.Set&4 != 0 {
		out = append(out, sdktrace.WithBatchTimeout(time.Duration(o.ToMs)*time.Millisecond))
	} else {
		out = append(out, sdktrace.WithBatchTimeout(time.Hour))
	}
	if o.Set&8 != 0 {
		out = append(out, sdktrace.WithExportTimeout(time.Duration(o.XMs)*time.Millisecond))
	}
	if o.Set&16 != 0 {
		out = append(out, sdktrace.WithBlocking())
	}
	return out
}

// valid: a batch timeout of at least 1 ms when it is given (a zero timeout
// makes the worker of the unchanged processor spin); lossless says that the
// processor serves the recording exporter (see above).
func (o TBatchOpt) valid(lossless, reentrantExport bool) bool {
	if o.Set < 0 || o.Set > 31 || o.Set&4 != 0 && o.ToMs < 1 {
		return false
	}
	if lossless {
		if o.blocking() && reentrantExport {
			return false
		}
		if !o.blocking() && o.Set&1 != 0 && o.Q >= 0 && o.Q < 256 {
			return false
		}
	}
	return o.Q <= 1<<16 && o.B <= 1<<16
}

// classes labels what a batch processor was built with.
func (o TBatchOpt) classes(name string, add func(string)) {
	if o.Set == 0 {
		add(name + ":default_options")
		return
	}
	if o.blocking() {
		add(name + ":blocking")
	}
	if o.Set&1 != 0 {
		switch {
		case o.Q < 0:
			add(name + ":queue<0")
		case o.Q == 0:
			add(name + ":queue=0")
		case o.Q <= 8:
			add(name + ":queue_tiny")
		default:
			add(name + ":queue_large")
		}
	}
	if o.Set&2 != 0 {
		switch {
		case o.B <= 0:
			add(name + ":batch<=0")
		case o.B <= 8:
			add(name + ":batch_tiny")
		default:
			add(name + ":batch_large")
		}
	}
	if o.Set&4 != 0 && o.ToMs <= 5 {
		add(name + ":batch_timeout_tiny")
	}
	if o.Set&8 != 0 {
		add(name + ":export_timeout_set")
	}
}

// ---------------------------------------------------------------------
// recorders

type tev struct {
	Kind byte // 's' OnStart, 'e' OnEnd, 'f' ForceFlush, 'd' Shutdown
	Span int
	Tick int64
	Exit int64 // Shutdown: tick of the return (0 while it runs)
}

var errRec = errors.New("scripted processor failure")

type recProc struct {
	idx   int
	clock *vk.Clock
	fail  bool
	slow  int
	re    func(context.Context) // re-entrant processor: called inside Shutdown (set before the provider is used)
	mu    sync.Mutex
	evs   []tev
}

func (p *recProc) add(kind byte, span int) int {
	p.mu.Lock()
	defer p.mu.Unlock()
	p.evs = append(p.evs, tev{Kind: kind, Span: span, Tick: p.clock.Tick()})
	return len(p.evs) - 1
}

func (p *recProc) OnStart(_ context.Context, s sdktrace.ReadWriteSpan) {
	p.addSpan('s', parseID("s", s.Name()))
}
func (p *recProc) OnEnd(s sdktrace.ReadOnlySpan) { p.addSpan('e', parseID("s", s.Name())) }

// addSpan records a delivery; spans that are not the program's (the "x"
// spans of a re-entrant exporter) are kept as kind 'x' for the history only.
func (p *recProc) addSpan(kind byte, id int) {
	if id < 0 {
		kind = 'x'
	}
	p.add(kind, id)
}
func (p *recProc) ForceFlush(context.Context) error {
	p.add('f', -1)
	if p.fail {
		return errRec
	}
	return nil
}

func (p *recProc) Shutdown(ctx context.Context) error {
	i := p.add('d', -1)
	vk.Perturb(p.slow)
	if p.re != nil {
		p.re(ctx)
	}
	p.mu.Lock()
	p.evs[i].Exit = p.clock.Tick()
	p.mu.Unlock()
	if p.fail {
		return errRec
	}
	return nil
}

func (p *recProc) events() []tev {
	p.mu.Lock()
	defer p.mu.Unlock()
	return append([]tev{}, p.evs...)
}

// oddProc is a span processor of a NON-COMPARABLE dynamic type (it is only
// ever passed to UnregisterSpanProcessor, never registered).
type oddProc struct {
	tags []string
	r    *recProc
}

func (o oddProc) OnStart(c context.Context, s sdktrace.ReadWriteSpan) { o.r.OnStart(c, s) }
func (o oddProc) OnEnd(s sdktrace.ReadOnlySpan)                       { o.r.OnEnd(s) }
func (o oddProc) ForceFlush(c context.Context) error                  { return o.r.ForceFlush(c) }
func (o oddProc) Shutdown(c context.Context) error                    { return o.r.Shutdown(c) }

type expEv struct {
	Tick  int64
	Spans []int
}

type recSpanExp struct {
	clock     *vk.Clock
	mu        sync.Mutex
	exports   []expEv
	shutdowns []ival
	internal  int // "x" spans received
	// re-entrancy (set before the provider is used)
	tracer               trace.Tracer
	reShutdown, reExport bool
}

// traceSelf starts and ends a span through the provider the exporter serves.
func (e *recSpanExp) traceSelf() {
	if e.tracer != nil {
		_, sp := e.tracer.Start(context.Background(), "x")
		sp.End()
	}
}

func (e *recSpanExp) ExportSpans(_ context.Context, spans []sdktrace.ReadOnlySpan) error {
	ev := expEv{}
	internal := 0
	for _, s := range spans {
		if id := parseID("s", s.Name()); id >= 0 {
			ev.Spans = append(ev.Spans, id)
		} else {
			internal++
		}
	}
	e.mu.Lock()
	e.internal += internal
	if len(ev.Spans) > 0 {
		ev.Tick = e.clock.Tick()
		e.exports = append(e.exports, ev)
	}
	e.mu.Unlock()
	if e.reExport && len(ev.Spans) > 0 { // never for its own spans: no infinite recursion
		e.traceSelf()
	}
	return nil
}

func (e *recSpanExp) Shutdown(context.Context) error {
	enter := e.clock.Tick()
	if e.reShutdown {
		e.traceSelf()
	}
	e.mu.Lock()
	e.shutdowns = append(e.shutdowns, ival{Enter: enter, Exit: e.clock.Tick()})
	e.mu.Unlock()
	return nil
}

func (e *recSpanExp) snapshot() ([]expEv, []ival) {
	e.mu.Lock()
	defer e.mu.Unlock()
	return append([]expEv{}, e.exports...), append([]ival{}, e.shutdowns...)
}

// ---------------------------------------------------------------------
// execution

type thist struct {
	p     TProg
	recs  [4]*recProc
	odd   *recProc
	late  *recProc            // registered by the re-entrant processor from inside its Shutdown (RecX bit 4)
	exps  map[int]*recSpanExp // pSSP, pBSP
	pre   []callRec
	gs    [][]callRec
	post  []callRec
	valid bool
}

func (p TProg) eachOp(fn func(g, i int, op TOp)) {
	for g, ops := range p.Gs {
		for i, op := range ops {
			fn(g, i, op)
		}
	}
	for i, op := range p.Post {
		fn(-2, i, op)
	}
}

// validT checks the invariants the generator guarantees (a hand-written
// replay that breaks them would make the harness itself racy).
func validT(p TProg) bool {
	regs := map[int]int{}
	for _, x := range p.Init {
		if x < 0 || x >= poolSize {
			return false
		}
		regs[x]++
	}
	starter := map[int]int{}
	ender := map[int]int{}
	ok := true
	p.eachOp(func(g, _ int, op TOp) {
		switch op.K {
		case "reg", "unreg":
			if op.X < 0 || op.X >= poolSize {
				ok = false
			}
			if op.K == "reg" {
				regs[op.X]++
			}
			if op.K == "unreg" && op.X == pRec2 && p.RecX != 0 {
				ok = false // a re-entrant processor is shut down by the provider's Shutdown only
			}
		case "tracer":
			if op.X < 0 || op.X > 3 {
				ok = false
			}
		case "start":
			if op.X < p.Pre || op.X > 4096 || op.T > 3 {
				ok = false
			}
			if _, dup := starter[op.X]; dup {
				ok = false
			}
			starter[op.X] = g
		case "end":
			if op.X < 0 || op.X > 4096 {
				ok = false
			}
			if prev, seen := ender[op.X]; seen && prev != g {
				ok = false
			}
			ender[op.X] = g
		case "unreg_nil", "unreg_odd", "flush", "shutdown":
		default:
			ok = false
		}
	})
	for _, n := range regs {
		if n > 1 {
			ok = false
		}
	}
	for id, g := range ender {
		if sg, started := starter[id]; started && sg != g {
			ok = false // a span started by an op is ended by the same goroutine only
		}
		if _, started := starter[id]; !started && id >= p.Pre {
			ok = false
		}
	}
	return ok && p.Pre >= 0 && p.Pre <= 64 && len(p.Gs) <= 8 && p.SspX >= 0 && p.SspX <= 1 && p.BspX >= 0 && p.BspX <= 3 && p.RecX >= 0 && p.RecX <= 31 &&
		p.BOpt.valid(true, p.BspX&2 != 0) && p.NOpt.valid(false, false)
}

func execTrace(p TProg) (*thist, func()) {
	h := &thist{p: p, exps: map[int]*recSpanExp{}}
	clock := &vk.Clock{}
	otel.SetErrorHandler(&vk.ErrCapture{})
	for i := range h.recs {
		h.recs[i] = &recProc{idx: i, clock: clock, fail: i == pRecErr, slow: p.Slow}
	}
	h.odd = &recProc{idx: -1, clock: clock}
	h.late = &recProc{idx: -2, clock: clock}
	odd := oddProc{tags: []string{"x"}, r: h.odd}

	used := map[int]bool{}
	for _, x := range p.Init {
		used[x] = true
	}
	maxSpan := p.Pre - 1
	p.eachOp(func(_, _ int, op TOp) {
		if op.K == "reg" || op.K == "unreg" {
			used[op.X] = true
		}
		if (op.K == "start" || op.K == "end") && op.X > maxSpan {
			maxSpan = op.X
		}
	})
	var pool [poolSize]sdktrace.SpanProcessor
	var cleanup []func()
	for i := 0; i < poolSize; i++ {
		if !used[i] {
			continue
		}
		switch i {
		case pRec0, pRec1, pRec2, pRecErr:
			pool[i] = h.recs[i]
		case pSSP:
			h.exps[i] = &recSpanExp{clock: clock}
			pool[i] = sdktrace.NewSimpleSpanProcessor(h.exps[i])
		case pSSPNil:
			pool[i] = sdktrace.NewSimpleSpanProcessor(nil)
		case pBSP:
			h.exps[i] = &recSpanExp{clock: clock}
			bsp := sdktrace.NewBatchSpanProcessor(h.exps[i], p.BOpt.options()...)
			pool[i] = bsp
			cleanup = append(cleanup, func() { _ = bsp.Shutdown(context.Background()) })
		case pBSPNil:
			bsp := sdktrace.NewBatchSpanProcessor(nil, p.NOpt.options()...)
			pool[i] = bsp
			cleanup = append(cleanup, func() { _ = bsp.Shutdown(context.Background()) })
		}
	}
	var opts []sdktrace.TracerProviderOption
	for _, x := range p.Init {
		opts = append(opts, sdktrace.WithSpanProcessor(pool[x]))
	}
	tp := sdktrace.NewTracerProvider(opts...)
	base := tp.Tracer("base")
	if e := h.exps[pSSP]; e != nil && p.SspX&1 != 0 {
		e.tracer, e.reShutdown = tp.Tracer("exporter.simple"), true
	}
	if e := h.exps[pBSP]; e != nil && p.BspX&3 != 0 {
		e.tracer, e.reShutdown, e.reExport = tp.Tracer("exporter.batch"), p.BspX&1 != 0, p.BspX&2 != 0
	}
	if p.RecX != 0 {
		self := h.recs[pRec2]
		self.re = func(ctx context.Context) {
			if p.RecX&1 != 0 {
				_ = tp.Shutdown(ctx)
			}
			if p.RecX&2 != 0 {
				_, sp := tp.Tracer("re").Start(ctx, "x")
				sp.End()
			}
			if p.RecX&4 != 0 {
				_ = tp.ForceFlush(ctx)
			}
			if p.RecX&8 != 0 {
				tp.UnregisterSpanProcessor(self)
			}
			if p.RecX&16 != 0 {
				tp.RegisterSpanProcessor(h.late)
			}
		}
	}
	spans := make([]trace.Span, maxSpan+1)
	tracerNames := []string{"a", "b", "", "a"}

	type handle struct {
		tr   trace.Tracer
		call *callRec
	}
	do := func(op TOp, rec *callRec, slots *[4]handle) {
		rec.K, rec.X, rec.T, rec.C = op.K, op.X, op.T, op.C
		var sp trace.Span
		ctx := mkCtx(op.C)
		tr, hc := base, (*callRec)(nil)
		rec.Start = clock.Tick()
		if op.K == "start" && op.T >= 0 {
			if slots[op.T].tr == nil {
				// an unfilled slot: the tracer is obtained now, by this op
				slots[op.T] = handle{tp.Tracer(tracerNames[op.T]), rec}
			}
			tr, hc = slots[op.T].tr, slots[op.T].call
		}
		switch op.K {
		case "reg":
			tp.RegisterSpanProcessor(pool[op.X])
		case "unreg":
			tp.UnregisterSpanProcessor(pool[op.X])
		case "unreg_nil":
			tp.UnregisterSpanProcessor(nil)
		case "unreg_odd":
			tp.UnregisterSpanProcessor(odd)
		case "tracer":
			slots[op.X] = handle{tp.Tracer(tracerNames[op.X]), rec}
		case "start":
			_, sp = tr.Start(ctx, fmt.Sprintf("s%d", op.X))
			rec.Recording = sp.IsRecording()
			rec.Handle = hc
		case "end":
			if spans[op.X] != nil {
				spans[op.X].End()
			} else {
				rec.Skipped = true
			}
		case "flush":
			rec.Err = tp.ForceFlush(ctx)
		case "shutdown":
			rec.Err = tp.Shutdown(ctx)
		}
		rec.End = clock.Tick()
		if sp != nil {
			spans[op.X] = sp
		}
		rec.Done = true
	}

	h.pre = make([]callRec, p.Pre)
	var s0 [4]handle
	for i := 0; i < p.Pre; i++ {
		h.pre[i].G, h.pre[i].I = -1, i
		guard(&h.pre[i], func() { do(TOp{K: "start", X: i, T: -1}, &h.pre[i], &s0) })
	}
	h.gs = make([][]callRec, len(p.Gs))
	for g := range p.Gs {
		h.gs[g] = make([]callRec, len(p.Gs[g]))
	}
	body := func(g int) {
		var slots [4]handle
		for i, op := range p.Gs[g] {
			vk.Perturb(op.P)
			h.gs[g][i].G, h.gs[g][i].I = g, i
			guard(&h.gs[g][i], func() { do(op, &h.gs[g][i], &slots) })
		}
	}
	if len(p.Gs) == 1 {
		body(0)
	} else {
		vk.Parallel(len(p.Gs), body)
	}
	h.post = make([]callRec, len(p.Post))
	var ps [4]handle
	for i, op := range p.Post {
		h.post[i].G, h.post[i].I = -2, i
		guard(&h.post[i], func() { do(op, &h.post[i], &ps) })
	}
	return h, func() {
		_ = tp.Shutdown(context.Background())
		for _, f := range cleanup {
			f()
		}
	}
}

func (h *thist) calls() []*callRec {
	var out []*callRec
	for i := range h.pre {
		out = append(out, &h.pre[i])
	}
	for g := range h.gs {
		for i := range h.gs[g] {
			out = append(out, &h.gs[g][i])
		}
	}
	for i := range h.post {
		out = append(out, &h.post[i])
	}
	return out
}

func (h *thist) render() []string {
	var out []string
	for _, c := range h.calls() {
		if c.Done {
			out = append(out, c.String())
		}
	}
	for i, r := range append(h.recs[:], h.odd) {
		name := "odd"
		if i < 4 {
			name = poolNames[i]
		}
		for _, e := range r.events() {
			switch e.Kind {
			case 'd':
				out = append(out, fmt.Sprintf("t=%d..%d   %s.Shutdown", e.Tick, e.Exit, name))
			case 'f':
				out = append(out, fmt.Sprintf("t=%d   %s.ForceFlush", e.Tick, name))
			case 'x':
				out = append(out, fmt.Sprintf("t=%d   %s observed a span of a re-entrant exporter", e.Tick, name))
			default:
				out = append(out, fmt.Sprintf("t=%d   %s.On%s(s%d)", e.Tick, name, map[byte]string{'s': "Start", 'e': "End"}[e.Kind], e.Span))
			}
		}
	}
	for idx, e := range h.exps {
		ex, sd := e.snapshot()
		for _, x := range ex {
			out = append(out, fmt.Sprintf("t=%d   exporter of %s: ExportSpans(%v)", x.Tick, poolNames[idx], x.Spans))
		}
		for _, s := range sd {
			out = append(out, fmt.Sprintf("t=%d..%d   exporter of %s: Shutdown", s.Enter, s.Exit, poolNames[idx]))
		}
	}
	return out
}

// shutdownsBefore counts completed Shutdown calls on recorder r up to tick t.
func shutdownsBefore(evs []tev, t int64) int {
	n := 0
	for _, e := range evs {
		if e.Kind == 'd' && e.Exit != 0 && e.Exit <= t {
			n++
		}
	}
	return n
}

func ivalsBefore(iv []ival, t int64) int {
	n := 0
	for _, s := range iv {
		if s.Exit != 0 && s.Exit <= t {
			n++
		}
	}
	return n
}

// ---------------------------------------------------------------------
// exact oracle for one-goroutine programs

const (
	stUp = iota
	stLimbo
	stDown
)

func oracleTraceSeq(h *thist) ([]vk.Violation, map[string]bool) {
	vs := panicViolations(h.calls())
	cl := map[string]bool{}
	bad := func(kind, format string, a ...any) { vs = append(vs, vk.V(kind, format, a...)) }
	p := h.p

	var revs [5][]tev
	for i := 0; i < 4; i++ {
		revs[i] = h.recs[i].events()
	}
	revs[4] = h.odd.events()
	type expSnap struct {
		ex []expEv
		sd []ival
	}
	esnap := map[int]expSnap{}
	for idx, e := range h.exps {
		ex, sd := e.snapshot()
		esnap[idx] = expSnap{ex, sd}
	}

	state := stUp
	members := append([]int{}, p.Init...)
	var limboSet []int
	anyCancelled := false
	handleState := map[*callRec]int{}
	type spanSt struct {
		live      bool
		ended     bool
		endedLate bool // first End issued after the provider was down
	}
	spans := map[int]*spanSt{}
	bspWant := map[int]bool{} // spans ended while batch(exp) was a member (provider up)
	bspMay := map[int]bool{}  // spans ended in limbo
	telemetryAfter, oddUnreg := false, false

	checkBSP := func(c *callRec, why string) {
		s, ok := esnap[pBSP]
		if !ok {
			return
		}
		got := map[int]int{}
		for _, x := range s.ex {
			if x.Tick < c.End {
				for _, id := range x.Spans {
					got[id]++
				}
			}
		}
		for id := range bspWant {
			if got[id] != 1 {
				bad("membership", "%s: span s%d ended while batch(exp) was registered was exported %d times by the time the call returned (t=%d)", why, id, got[id], c.End)
			}
		}
	}
	exporterDown := func(idx int, c *callRec, why string) {
		if s, ok := esnap[idx]; ok {
			if n := ivalsBefore(s.sd, c.End); n != 1 {
				bad("not_shut_down", "%s: the exporter of %s has been shut down %d times when the call returned (t=%d)", why, poolNames[idx], n, c.End)
			}
		}
	}

	for _, c := range h.calls() {
		if !c.Done {
			continue
		}
		want := map[int]string{}
		var sspWant []int
		before := names(members)
		lenient := state == stLimbo
		allowed := limboSet
		label := "membership"
		if state == stDown {
			label = "delivery_after_shutdown"
		}
		switch c.K {
		case "reg":
			if state == stUp {
				members = append(members, c.X)
			}
		case "unreg":
			switch {
			case state == stUp && contains(members, c.X):
				pos := "middle"
				switch {
				case len(members) == 1:
					pos = "only"
				case members[0] == c.X:
					pos = "first"
				case members[len(members)-1] == c.X:
					pos = "last"
				}
				cl["unregister_"+pos+"_member"] = true
				members = without(members, c.X)
				if c.X < 4 {
					want[c.X] = "d"
				}
				why := fmt.Sprintf("UnregisterSpanProcessor(%s)", poolNames[c.X])
				if c.X == pSSP || c.X == pBSP {
					exporterDown(c.X, c, why)
				}
				if c.X == pBSP {
					checkBSP(c, why)
				}
			case state == stUp:
				cl["unregister_non_member"] = true
			}
		case "unreg_nil":
			cl["unregister_nil"] = state == stUp || cl["unregister_nil"]
		case "unreg_odd":
			oddUnreg = true
			if state == stUp && len(members) > 0 {
				cl["unregister_non_comparable_type"] = true
			}
		case "tracer":
			handleState[c] = state
		case "start":
			hs := stUp
			if c.Handle == c {
				handleState[c] = state
			}
			if c.Handle != nil {
				hs = handleState[c.Handle]
			}
			st := &spanSt{}
			spans[c.X] = st
			switch state {
			case stUp:
				st.live = c.Recording
				cl["start_with_done_context"] = cl["start_with_done_context"] || c.C != 0
				for _, m := range members {
					if m < 4 {
						want[m] = "s"
					}
				}
			case stDown:
				telemetryAfter = true
				if hs == stDown {
					cl["tracer_obtained_after_shutdown"] = true
					if c.Recording {
						bad("recording_after_shutdown", "a span started through a Tracer handed out after Shutdown had returned nil is recording (%s)", c)
					}
				} else {
					cl["old_tracer_used_after_shutdown"] = true
				}
			}
		case "end":
			st := spans[c.X]
			if c.Skipped || st == nil {
				break
			}
			switch state {
			case stUp:
				if st.live {
					for _, m := range members {
						if m < 4 {
							want[m] = "e"
						}
					}
					if contains(members, pSSP) {
						sspWant = []int{c.X}
					}
					if contains(members, pBSP) {
						bspWant[c.X] = true
					}
					if contains(members, pBSPNil) {
						cl["sampled_span_ended_on_batch(nil)"] = true
						cl["sampled_span_ended_on_blocking_batch(nil)"] = cl["sampled_span_ended_on_blocking_batch(nil)"] || p.NOpt.blocking()
					}
					if contains(members, pSSPNil) {
						cl["sampled_span_ended_on_simple(nil)"] = true
					}
				} else {
					cl["end_of_ended_or_non_recording_span"] = true
				}
			case stLimbo:
				if contains(limboSet, pBSP) {
					bspMay[c.X] = true
				}
			case stDown:
				telemetryAfter = true
				if !st.ended {
					st.endedLate = true
				}
				if st.live {
					cl["span_started_before_shutdown_ended_after"] = true
				}
			}
			st.live, st.ended = false, true
		case "flush":
			if state == stDown {
				cl["flush_after_shutdown"] = true
				if !okAfterDown(c.Err, c.C != 0) {
					bad("call_after_shutdown_failed", "ForceFlush after Shutdown had returned nil returned %v (%s)", c.Err, c)
				}
			}
		case "shutdown":
			if c.C != 0 {
				anyCancelled = true
				cl["shutdown_with_cancelled_context"] = true
			}
			switch state {
			case stUp:
				allowed = members
				if c.C == 0 {
					for _, m := range members {
						if m < 4 {
							want[m] = "d"
						}
					}
				} else {
					lenient = true
				}
				if c.C == 0 && c.Err == nil {
					state = stDown
					why := "Shutdown with a live context returned nil"
					for _, m := range members {
						if (m == pSSP || m == pBSP) && !anyCancelled {
							exporterDown(m, c, why)
						}
					}
					if contains(members, pBSP) {
						checkBSP(c, why)
					}
				} else {
					state = stLimbo
					limboSet = append([]int{}, members...)
					if c.Err != nil {
						cl["first_shutdown_returned_error"] = true
					}
				}
				members = nil
			case stLimbo:
				cl["shutdown_repeated"] = true
				if c.C == 0 && c.Err == nil {
					state = stDown
					cl["live_shutdown_after_failed_or_cancelled_shutdown"] = true
					for _, m := range limboSet {
						if m < 4 {
							if n := shutdownsBefore(revs[m], c.End); n != 1 {
								bad("not_shut_down", "%s was registered and has been shut down %d times although a provider Shutdown with a live context has returned nil (%s)", poolNames[m], n, c)
							}
						}
					}
				}
			case stDown:
				cl["shutdown_repeated"] = true
				if !okAfterDown(c.Err, c.C != 0) {
					bad("call_after_shutdown_failed", "Shutdown after Shutdown had returned nil returned %v (%s)", c.Err, c)
				}
			}
		}

		// what the recorders saw during the call
		for r := 0; r < 5; r++ {
			got := ""
			for _, e := range revs[r] {
				if e.Tick > c.Start && e.Tick < c.End && e.Kind != 'f' && e.Kind != 'x' {
					got += string(e.Kind)
				}
			}
			name := "the never-registered processor of non-comparable type"
			if r < 4 {
				name = poolNames[r]
			}
			switch {
			case lenient:
				if got != "" && (r == 4 || !contains(allowed, r)) {
					bad(label, "%s: %s, which was not registered, observed %q", c, name, got)
				}
			case got != want[r]:
				bad(label, "%s: %s observed %q, the model (registered before the call: %v) expects %q  [s=OnStart e=OnEnd d=Shutdown]", c, name, got, before, want[r])
			}
		}
		if s, ok := esnap[pSSP]; ok {
			var got []int
			for _, x := range s.ex {
				if x.Tick > c.Start && x.Tick < c.End {
					got = append(got, x.Spans...)
				}
			}
			switch {
			case lenient:
				if len(got) > 0 && !contains(allowed, pSSP) {
					bad(label, "%s: the exporter of simple(exp), which was not registered, received %v", c, got)
				}
			case fmt.Sprint(got) != fmt.Sprint(sspWant):
				k := label
				if state == stDown {
					k = "export_after_shutdown"
				}
				bad(k, "%s: the exporter of simple(exp) received spans %v, expected %v", c, got, sspWant)
			}
		}
	}

	// bounds over the whole run
	for r := 0; r < 4; r++ {
		if n := shutdownsBefore(revs[r], never); n > 1 {
			bad("shutdown_twice", "%s was registered once and shut down %d times", poolNames[r], n)
		}
	}
	for idx, s := range esnap {
		if len(s.sd) > 1 {
			bad("shutdown_twice", "the exporter of %s was shut down %d times", poolNames[idx], len(s.sd))
		}
	}
	if s, ok := esnap[pBSP]; ok {
		seen := map[int]int{}
		for _, x := range s.ex {
			for _, id := range x.Spans {
				seen[id]++
				st := spans[id]
				switch {
				case st != nil && st.endedLate:
					bad("export_after_shutdown", "span s%d, ended after Shutdown had returned nil, was exported by batch(exp)", id)
				case !bspWant[id] && !bspMay[id]:
					bad("membership", "span s%d was exported by batch(exp) although it was not ended while that processor was registered", id)
				}
				if seen[id] == 2 {
					bad("membership", "span s%d was exported twice by batch(exp)", id)
				}
			}
		}
	}
	cl["provider_shut_down"] = state == stDown
	cl["telemetry_after_shutdown"] = telemetryAfter
	cl["ends_in_limbo_only"] = state == stLimbo
	_ = oddUnreg
	return vs, cl
}

func names(xs []int) []string {
	out := make([]string, len(xs))
	for i, x := range xs {
		out[i] = poolNames[x]
	}
	return out
}

// ---------------------------------------------------------------------
// generator
//
// Ops are drawn independently of each other (so that rapid can delete and
// simplify single ops while shrinking); a deterministic normalisation pass
// then establishes the invariants: every processor is registered at most
// once (a second "reg" of it becomes an "unreg"), span ids are assigned in
// program order, "end" picks among the spans the goroutine may end.

var tKinds = func() []string {
	var out []string
	for _, kw := range []struct {
		k string
		w int
	}{{"reg", 8}, {"unreg", 8}, {"unreg_nil", 1}, {"unreg_odd", 1}, {"tracer", 3}, {"start", 10}, {"end", 10}, {"flush", 4}, {"shutdown", 5}} {
		for i := 0; i < kw.w; i++ {
			out = append(out, kw.k)
		}
	}
	return out
}()

func genRawTOp(conc bool) *rapid.Generator[TOp] {
	return rapid.Custom(func(t *rapid.T) TOp {
		op := TOp{K: rapid.SampledFrom(tKinds).Draw(t, "kind")}
		switch op.K {
		case "reg", "unreg":
			op.X = rapid.IntRange(0, poolSize-1).Draw(t, "proc")
		case "tracer":
			op.X = rapid.IntRange(0, 3).Draw(t, "slot")
		case "start":
			op.T = rapid.IntRange(-1, 3).Draw(t, "slot")
			op.C = rapid.SampledFrom([]int{0, 0, 0, 0, -1, -2}).Draw(t, "ctx")
		case "end":
			op.X = rapid.IntRange(0, 15).Draw(t, "which")
		case "flush", "shutdown":
			op.C = rapid.SampledFrom([]int{0, 0, 0, 0, -1, -1, -2}).Draw(t, "ctx")
		}
		if conc {
			op.P = rapid.IntRange(0, 3).Draw(t, "p")
		}
		return op
	})
}

// normaliseT rewrites raw ops in place (see above).
func normaliseT(p *TProg) {
	ever := map[int]bool{}
	var init []int
	for _, x := range p.Init {
		if !ever[x] {
			ever[x] = true
			init = append(init, x)
		}
	}
	p.Init = init
	next := p.Pre
	ng := len(p.Gs)
	section := func(ops []TOp, owner int) {
		var mine []int // spans this section may end, most recent last
		for i := 0; i < p.Pre; i++ {
			if i%(ng+1) == owner {
				mine = append(mine, i)
			}
		}
		for i := range ops {
			op := &ops[i]
			switch op.K {
			case "reg":
				if ever[op.X] {
					op.K = "unreg"
				}
				ever[op.X] = true
			}
			if op.K == "unreg" && op.X == pRec2 && p.RecX != 0 {
				op.X = pRec1 // a re-entrant processor is never unregistered
			}
			switch op.K {
			case "end":
				if len(mine) == 0 {
					op.K, op.T = "start", -1
				} else {
					op.X = mine[len(mine)-1-op.X%len(mine)]
				}
			}
			if op.K == "start" {
				op.X = next
				next++
				mine = append(mine, op.X)
			}
		}
	}
	for g := range p.Gs {
		section(p.Gs[g], g)
	}
	section(p.Post, ng)
	// exporter modes of processors the program never registers mean nothing
	if !ever[pSSP] {
		p.SspX = 0
	}
	if !ever[pBSP] {
		p.BspX = 0
		p.BOpt = TBatchOpt{}
	}
	if !ever[pBSPNil] {
		p.NOpt = TBatchOpt{}
	}
	// batch(exp) stays lossless (see TBatchOpt)
	if p.BspX&2 != 0 {
		p.BOpt.Set &^= 16
	}
	if o := &p.BOpt; !o.blocking() && o.Set&1 != 0 && o.Q >= 0 && o.Q < 256 {
		o.Q += 256
	}
	if !ever[pRec2] {
		p.RecX = 0
	}
}

// reentrantClasses labels what the re-entrant exporters actually did.
func reentrantClasses(h *thist, add func(string)) {
	used := map[int]bool{}
	for _, x := range h.p.Init {
		used[x] = true
	}
	h.p.eachOp(func(_, _ int, op TOp) {
		if op.K == "reg" {
			used[op.X] = true
		}
	})
	if used[pBSP] {
		h.p.BOpt.classes("batch(exp)", add)
	}
	if used[pBSPNil] {
		h.p.NOpt.classes("batch(nil)", add)
	}
	if h.p.RecX != 0 && shutdownsBefore(h.recs[pRec2].events(), never) > 0 {
		add("reentrant_processor_shutdown_calls_back_into_provider")
		for b, n := range []string{"Shutdown", "Tracer", "ForceFlush", "Unregister", "Register"} {
			if h.p.RecX&(1<<b) != 0 {
				add("reentrant_processor:" + n)
			}
		}
	}
	if e := h.exps[pSSP]; e != nil && e.reShutdown {
		if _, sd := e.snapshot(); len(sd) > 0 {
			add("reentrant_exporter_shutdown_behind_simple")
		}
	}
	if e := h.exps[pBSP]; e != nil {
		ex, sd := e.snapshot()
		if e.reShutdown && len(sd) > 0 {
			add("reentrant_exporter_shutdown_behind_batch")
		}
		if e.reExport && len(ex) > 0 {
			add("reentrant_exporter_export_behind_batch")
		}
	}
}

func genInit(t *rapid.T) []int {
	return rapid.SliceOfN(rapid.IntRange(0, poolSize-1), 0, 4).Draw(t, "init")
}

// genChunked draws a list of ops as a list of chunks of 1-4 ops: longer
// programs than a plain SliceOf produces, and rapid can still delete chunks
// and ops while shrinking.
func genChunked[O any](t *rapid.T, g *rapid.Generator[O], maxChunks int) []O {
	var out []O
	for _, ch := range rapid.SliceOfN(rapid.SliceOfN(g, 1, 4), 1, maxChunks).Draw(t, "ops") {
		out = append(out, ch...)
	}
	return out
}

// genTBatchOpt draws the options of a stock batch span processor: each one
// unset, degenerate (zero, negative: the default applies), tiny or large.
func genTBatchOpt(t *rapid.T, label string) TBatchOpt {
	var o TBatchOpt
	if rapid.IntRange(0, 3).Draw(t, label+"_default") == 0 {
		return o
	}
	o.Set = rapid.IntRange(0, 31).Draw(t, label+"_set")
	sizes := []int{-1, 0, 1, 1, 2, 3, 8, 512, 4096}
	if o.Set&1 != 0 {
		o.Q = rapid.SampledFrom(sizes).Draw(t, label+"_q")
	}
	if o.Set&2 != 0 {
		o.B = rapid.SampledFrom(sizes).Draw(t, label+"_b")
	}
	if o.Set&4 != 0 {
		o.ToMs = rapid.SampledFrom([]int{1, 1, 2, 5, 5000, 3600000}).Draw(t, label+"_to")
	}
	if o.Set&8 != 0 {
		o.XMs = rapid.SampledFrom([]int{-1, 0, 1, 30000}).Draw(t, label+"_x")
	}
	return o
}

// genReentrant draws the exporter modes (plain most of the time) and the
// options of the batch processors.
func genReentrant(t *rapid.T, p *TProg) {
	p.BOpt = genTBatchOpt(t, "bopt")
	p.NOpt = genTBatchOpt(t, "nopt")
	p.SspX = rapid.SampledFrom([]int{0, 0, 1}).Draw(t, "ssp_x")
	p.BspX = rapid.SampledFrom([]int{0, 0, 1, 2, 3, 3}).Draw(t, "bsp_x")
	if rapid.IntRange(0, 2).Draw(t, "rec_reentrant") == 0 {
		p.RecX = rapid.IntRange(1, 31).Draw(t, "rec_x")
	}
}

func genTraceSeq(t *rapid.T) TProg {
	p := TProg{Init: genInit(t)}
	genReentrant(t, &p)
	p.Gs = [][]TOp{genChunked(t, genRawTOp(false), 20)}
	normaliseT(&p)
	return p
}

// ---------------------------------------------------------------------

func hasCancelledFirstShutdown(p TProg) bool {
	// one goroutine: the first shutdown op decides; several: any cancelled
	// shutdown that can be the first one to take effect.
	if len(p.Gs) == 1 {
		for _, op := range append(append([]TOp{}, p.Gs[0]...), p.Post...) {
			if op.K == "shutdown" {
				return op.C != 0
			}
		}
		return false
	}
	inGs := false
	for _, ops := range p.Gs {
		for _, op := range ops {
			if op.K == "shutdown" {
				inGs = true
				if op.C != 0 {
					return true
				}
			}
		}
	}
	if inGs {
		return false
	}
	for _, op := range p.Post {
		if op.K == "shutdown" {
			return op.C != 0
		}
	}
	return false
}

// knownTrace: no open known finding. The defect this check found
// (TracerProvider.Shutdown returned from inside its loop when the context was
// already done, after it had marked the provider as shut down) was repaired in
// /repo; see known_findings.json ("fixed: property=C15 ...") and the regression
// replay replays/regress/C15/tp_shutdown_cancelled_ctx_skips_processors.json.
var knownTrace = map[string]func(TProg, vk.Violation) bool{}

var _ = hasCancelledFirstShutdown // kept for documentation of the failing program shape

func runTraceSeq(p TProg) ([]vk.Violation, vk.Info) {
	var info vk.Info
	if len(p.Gs) != 1 || len(p.Post) != 0 || p.Pre != 0 || !validT(p) {
		info.Class("invalid_program(not run)")
		return nil, info
	}
	h, cleanup := execTrace(p)
	defer cleanup()
	vs, cl := oracleTraceSeq(h)
	attachHistory(vs, h.render())
	for k, v := range cl {
		info.ClassIf(v, k)
	}
	reentrantClasses(h, info.Class)
	for _, x := range p.Init {
		info.Class("pool:" + poolNames[x])
	}
	for _, op := range p.Gs[0] {
		if op.K == "reg" {
			info.Class("pool:" + poolNames[op.X])
		}
	}
	info.Classes = dedup(info.Classes)
	info.NonTrivial = (cl["unregister_non_member"] || cl["unregister_middle_member"] || cl["unregister_non_comparable_type"]) && cl["telemetry_after_shutdown"]
	return vs, info
}

func dedup(xs []string) []string {
	seen := map[string]bool{}
	var out []string
	for _, x := range xs {
		if !seen[x] {
			seen[x] = true
			out = append(out, x)
		}
	}
	return out
}

func TestTraceMembership(t *testing.T) {
	vk.Run(t, vk.Spec[TProg]{
		Property: "C15", Check: "trace_membership",
		Rule: "generated op lists (1-80 ops: Register / Unregister of members, non-members, nil and a never-registered processor of non-comparable type / Tracer / Start / End / ForceFlush / Shutdown with live or already-cancelled contexts, repeated) on a TracerProvider built with 0-4 of a pool of 8 processors (4 recording ones, one of them failing, simple and batch processors around a recording exporter and around nil, the batch processors with generated options: WithMaxQueueSize / WithMaxExportBatchSize / WithBatchTimeout / WithExportTimeout each unset, zero, negative, tiny or large, and WithBlocking; the exporters are optionally re-entrant: their Shutdown, for the batch processor also their ExportSpans, starts and ends a span through the same provider; the Shutdown of rec2 optionally calls back into the provider: Shutdown / Tracer+Start+End / ForceFlush / Unregister(itself) / Register(fresh)), contexts live, cancelled or past their deadline (also for Start), each processor registered at most once; exact model of the ordered membership; " +
			"non-trivial = the program unregisters a non-member or a middle member while the provider is up and makes a Start/End call after a Shutdown with a live context returned nil; distinct = distinct case encodings",
		Quick: 6000, Thorough: 80000,
		Gen: genTraceSeq, Run: runTraceSeq, Known: knownTrace,
		CaseTimeout: 30 * time.Second,
	})
}
